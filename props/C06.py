"""C06 - ground-text rendering is faithful and complete.  Case: encoded AbstractProgram calls (props/calls.py).
Observation: status (0 ok, 1 logic_error), length, bytes written by a real AspifTextOutput.

The oracle is an independent python reference parser for the ground syntax: it parses the bytes the
implementation wrote and compares the statements with the program that was rendered (one statement per directive,
in order; heads/kinds/priorities/values/modifiers/conditions equal; aggregate bodies compared by brute-force
satisfaction over all assignments; every output represented by a name or a #show; theory atoms by an independent
python rendering of the term structure)."""
import random, re, itertools
from props.calls import enc_all, dec_all, pretty, INT_MAX, ATOM_MAX

PID = 'C06'
HARNESS = 'h_c06'
HARNESS_EXTRA = ('rec.h', 'reuse.h')
MODEL_MODULE = 'V.C06.Model'
READY = True
RULE = ('cases = call sequences init; (begin; directives; end) x 1..3 with degenerate-heavy directives (empty head x {disjunctive, choice}, '
        'empty body, empty/all-zero/equal/unequal weights, bounds <= 0, = sum, > sum, INT_MAX, empty project/assume/minimize, several names per atom, '
        'named/unnamed atoms mixed, nested theory terms with operators and all tuple kinds, guards; theory programs of 3-4 steps with steps that define '
        'terms/elements but no theory atom and later steps that re-define term/element ids of earlier steps and use them) plus a malformed theory stream '
        '(redefinition, unknown ids, theory atom on a named atom); non-trivial = status ok and some statement was written; distinct = distinct case tuples')
TRUSTED_BASE = ['props/C06.py reference parser for the ground syntax (oracle on the implementation)',
                'std::ostream formatting of int/unsigned modelled by Lib/Dec.v print_Z/print_nat']
ASSUMPTIONS = ['atoms in 1..2^31-1, literals/weights/bounds/priorities in the range of int, enum arguments within their enum; named atoms are small '
               '(AspifTextOutput::addAtom allocates a table of size atom+1)',
               'names and #show terms are ground terms that do not collide with the spelling of another atom (theorems: identifiers with optional argument list; theory atoms: unambiguous spelling Spec.unamb_ta)',
               'theory terms are acyclic; compound/tuple codes are term ids or -1..-3; theory atom ids and term/element ids are small',
               'an atom is not both named by an output directive and defined by a theory atom (the writer refuses this with a logic_error: reported as known finding)']
TECHNIQUE = 'Coq proof about an executable model (renderer + reference parser) + differential correspondence with the implementation'
DESIGN_REF = 'DESIGN.md section 5, C06'
LEVEL_TEXT = ('Machine-checked proof (Coq) that a reference parser for the ground syntax - rules, directives and theory atoms (&name{terms : cond; ..} op rhs '
              'with numbers, symbols, function terms, the three tuple kinds, prefix and infix operator terms) - applied to the text the modelled writer '
              'emits for a step returns one fact per directive theory atom and one statement per directive in order, with equal heads/kinds/priorities/'
              'values/modifiers/conditions, satisfaction-equivalent bodies, and at every atom position of a theory atom the term structure, element '
              'conditions and guard stored in the theory tables; that rendering never faults on any valid program incl. referentially consistent acyclic '
              'theory data (the fuel |terms|+1 of the term printer is proved sufficient); the model is tied to AspifTextOutput by byte-exact differential '
              'correspondence and an independent python reference parser on the implementation.')
LEVEL_NOTE = ('c06_total is full (all valid programs; excluded only: an atom that is both named and a theory atom = known finding 1). The parse-back theorems '
              'keep the suffix _partial: they cover theory atoms whose spelling is unambiguous (Spec.unamb_ta: no operator term directly below an operator '
              'term, no "-"/prefix operator in front of a number it would merge with, operators free of the separators . : ; |, identifiers as symbols and '
              'function names) with element conditions over plainly named atoms that are not theory atoms of the step, and no theory atom in a weighted '
              'literal list; names / #show terms are identifiers with optional argument lists. Every excluded ambiguous shape has a Coq witness '
              '(c06_theory_structure_refuted, c06_theory_minus_refuted, c06_theory_separator_op_refuted, c06_theory_condition_spelling_refuted, '
              'c06_theory_named_atom_refuted) and a known-finding signature in the oracle; quoted-string symbols and the other excluded shapes are covered by '
              'model + correspondence + oracle only. Trusted: Coq kernel, extraction (cross-checked), harness, translator, python oracle.')

HEU = ['level', 'sign', 'factor', 'init', 'true', 'false']
OPS = '/!<=>+-*\\?&@|:;~^.'


# ------------------------------------------------------------------------------------------------
# independent python rendering of theory atoms (structure -> text), used to recognise them in the output
# ------------------------------------------------------------------------------------------------
class Bad(Exception):
    pass


NESTED = []          # signatures of ambiguous spellings met while rendering (soft: the judgement goes on)
AMBIG_SIGS = ('theory-nested-operator-ambiguous', 'theory-minus-number-ambiguous', 'theory-separator-operator-ambiguous')
SEP_OPS = '.:;|'     # operator characters that are separators of the ground syntax


def cstr(b):
    b = bytes(b)
    k = b.find(b'\0')
    return (b if k < 0 else b[:k]).decode('latin-1')


def t_term(terms, i, depth=0):
    if depth > 200:
        raise Bad('cyclic')
    if i not in terms:
        raise Bad('unknown term')
    t = terms[i]
    if t[0] == 'n':
        return str(t[1])
    if t[0] == 's':
        return cstr(t[1])
    base, args = t[1], t[2]
    if base >= 0:
        if base not in terms:
            raise Bad('unknown function')
        f = terms[base]
        fs = t_term(terms, base, depth + 1)
        isop = f[0] == 's' and (cstr(f[1]) == '' or cstr(f[1])[0] in OPS)
        if isop and len(args) in (1, 2):
            # an operator application directly below another one is written without parentheses: (1+2)*3 and 1+(2*3)
            # both come out as "1 + 2 * 3", so the term structure cannot be read back
            for a in args:
                ta = terms.get(a)
                if ta and ta[0] == 'c' and ta[1] >= 0 and len(ta[2]) in (1, 2) and ta[1] in terms and terms[ta[1]][0] == 's' \
                        and (cstr(terms[ta[1]][1]) == '' or cstr(terms[ta[1]][1])[0] in OPS):
                    NESTED.append('theory-nested-operator-ambiguous')
            # further spellings that do not determine the structure (Coq: Spec.unamb, c06_theory_minus_refuted /
            # c06_theory_separator_op_refuted): "-" in front of a number is also the sign of a negative number, a negative
            # number behind a prefix operator extends the operator; an operator made of separator characters (" : " is also
            # the condition separator, ";" the element separator, "." the terminator, "|" the head separator)
            if len(args) == 1:
                ta = terms.get(args[0])
                if ta and ta[0] == 'n' and (ta[1] < 0 or cstr(f[1]) == '-'):
                    NESTED.append('theory-minus-number-ambiguous')
            if any(ch in SEP_OPS for ch in cstr(f[1])):
                NESTED.append('theory-separator-operator-ambiguous')
        if isop and len(args) == 1:
            return fs + t_term(terms, args[0], depth + 1)
        if isop and len(args) == 2:
            return t_term(terms, args[0], depth + 1) + ' ' + fs + ' ' + t_term(terms, args[1], depth + 1)
        return fs + '(' + ', '.join(t_term(terms, a, depth + 1) for a in args) + ')'
    o, c = {-1: '()', -2: '{}', -3: '[]'}[base]
    return o + ', '.join(t_term(terms, a, depth + 1) for a in args) + c


def lit_s(name, l):
    return ('not ' if l < 0 else '') + name(abs(l))


def t_atom(terms, elems, a, name):
    s = '&' + t_term(terms, a['term']) + '{'
    es = []
    for e in a['elems']:
        if e not in elems:
            raise Bad('unknown element')
        ts, cond = elems[e]
        x = ', '.join(t_term(terms, t) for t in ts)
        if cond:
            x += ' : ' + ', '.join(lit_s(name, l) for l in cond)
        es.append(x)
    s += '; '.join(es) + '}'
    if a['guard'] is not None:
        s += ' ' + t_term(terms, a['guard'][0]) + ' ' + t_term(terms, a['guard'][1])
    return s


# ------------------------------------------------------------------------------------------------
# reference parser for the ground syntax (over the implementation's output)
# ------------------------------------------------------------------------------------------------
class P:
    def __init__(self, s, theory_names):
        self.s, self.i, self.tn = s, 0, sorted(theory_names, key=len, reverse=True)

    def ws(self):
        while self.i < len(self.s) and self.s[self.i] in ' \t\r\n':
            self.i += 1

    def peek(self, t):
        self.ws()
        return self.s.startswith(t, self.i)

    def eat(self, t):
        if self.peek(t):
            self.i += len(t)
            return True
        return False

    def need(self, t):
        if not self.eat(t):
            raise Bad('expected %r at %d: %r' % (t, self.i, self.s[self.i:self.i + 20]))

    def integer(self):
        self.ws()
        m = re.compile(r'-?\d+').match(self.s, self.i)
        if not m:
            raise Bad('integer expected at %d' % self.i)
        self.i = m.end()
        return int(m.group(0))

    def balanced(self):
        # '(' ... matching ')' with strings
        assert self.s[self.i] == '('
        d, j = 0, self.i
        while j < len(self.s):
            c = self.s[j]
            if c == '"':
                j += 1
                while j < len(self.s) and self.s[j] != '"':
                    j += 2 if self.s[j] == '\\' else 1
            elif c == '(':
                d += 1
            elif c == ')':
                d -= 1
                if d == 0:
                    r = self.s[self.i:j + 1]
                    self.i = j + 1
                    return r
            j += 1
        raise Bad('unbalanced term')

    def term(self):
        """identifier with optional arguments, quoted string, number, or a theory atom: returned as text."""
        self.ws()
        if self.i < len(self.s) and self.s[self.i] == '&':
            for n in self.tn:
                if self.s.startswith(n, self.i):
                    self.i += len(n)
                    return n
            raise Bad('unknown theory atom at %d: %r' % (self.i, self.s[self.i:self.i + 30]))
        m = re.compile(r'"(?:[^"\\]|\\.)*"|-?\d+|[A-Za-z_][A-Za-z0-9_]*').match(self.s, self.i)
        if not m:
            raise Bad('term expected at %d: %r' % (self.i, self.s[self.i:self.i + 20]))
        self.i = m.end()
        r = m.group(0)
        if self.i < len(self.s) and self.s[self.i] == '(' and not r[0].isdigit() and r[0] not in '"-':
            r += self.balanced()
        return r

    def lit(self):
        self.ws()
        if re.compile(r'not[ \t\r\n]').match(self.s, self.i):
            self.i += 3
            return (True, self.term())
        return (False, self.term())

    def seplist(self, item, seps, closers):
        r = []
        self.ws()
        if any(self.peek(c) for c in closers):
            return r
        while True:
            r.append(item())
            if not any(self.eat(x) for x in seps):
                return r

    def cond(self):
        if self.eat(':') and not self.peek('-'):
            return self.seplist(self.lit, [','], ['.'])
        return []

    def wlit(self):
        l = self.lit()
        w = None
        if self.eat('='):
            w = self.integer()
        return (l, w)

    def body(self):
        self.ws()
        if re.compile(r'-?\d').match(self.s, self.i):
            b = self.integer()
            self.need('{')
            e = self.seplist(self.wlit, [';'], ['}'])
            self.need('}')
            return ('agg', b, e)
        return ('normal', self.seplist(self.lit, [','], ['.']))

    def statement(self):
        if self.eat('#minimize'):
            self.need('{')
            e = self.seplist(self.wlit, [';'], ['}'])
            self.need('}')
            p = 0
            if self.eat('@'):
                p = self.integer()
            self.need('.')
            return ('min', p, e)
        if self.eat('#project'):
            self.need('{')
            e = self.seplist(self.term, [',', ';'], ['}'])
            self.need('}')
            self.need('.')
            return ('project', e)
        if self.eat('#show'):
            t = self.term()
            c = []
            if self.eat(':'):
                c = self.seplist(self.lit, [','], ['.'])
            self.need('.')
            return ('show', t, c)
        if self.eat('#external'):
            a = self.term()
            self.need('.')
            v = 'false'
            if self.eat('['):
                for x in ('true', 'free', 'release', 'false'):
                    if self.eat(x):
                        v = x
                        break
                else:
                    raise Bad('external value')
                self.need(']')
            return ('external', a, v)
        if self.eat('#assume'):
            self.need('{')
            e = self.seplist(self.lit, [',', ';'], ['}'])
            self.need('}')
            self.need('.')
            return ('assume', e)
        if self.eat('#heuristic'):
            a = self.term()
            c = []
            if self.eat(':'):
                c = self.seplist(self.lit, [','], ['.'])
            self.need('.')
            self.need('[')
            b = self.integer()
            p = 0
            if self.eat('@'):
                p = self.integer()
            self.need(',')
            self.ws()
            for k, x in enumerate(HEU):
                if self.eat(x):
                    m = k
                    break
            else:
                raise Bad('heuristic modifier')
            self.need(']')
            return ('heuristic', a, c, b, p, m)
        if self.eat('#edge'):
            self.need('(')
            s = self.integer()
            self.need(',')
            t = self.integer()
            self.need(')')
            c = []
            if self.eat(':'):
                c = self.seplist(self.lit, [','], ['.'])
            self.need('.')
            return ('edge', s, t, c)
        if self.peek('#'):
            raise Bad('unknown directive')
        # rule
        choice = False
        if self.eat('{'):
            choice = True
            head = self.seplist(self.term, [';', ','], ['}'])
            self.need('}')
        elif self.peek(':-') or self.peek('.'):
            head = []
        else:
            head = self.seplist(self.term, ['|', ';'], [':-', '.'])
        body = ('normal', [])
        if self.eat(':-'):
            body = self.body()
        self.need('.')
        return ('rule', choice, head, body)

    def program(self):
        out = []
        while True:
            self.ws()
            if self.i >= len(self.s):
                return out
            if self.s[self.i] == '%':
                j = self.s.find('\n', self.i)
                line = self.s[self.i:(j if j >= 0 else len(self.s))]
                out.append(('comment', line))
                self.i = len(self.s) if j < 0 else j + 1
                continue
            out.append(self.statement())


# ------------------------------------------------------------------------------------------------
# comparison of the parsed text with the program
# ------------------------------------------------------------------------------------------------
def sat_agg(bound, wl, X):
    return bound <= sum(w for (neg, a), w in wl if (a in X) != neg)


def agg_equiv(b1, l1, b2, l2):
    atoms = sorted(set(a for (n, a), w in l1) | set(a for (n, a), w in l2))
    if len(atoms) > 10:
        return b1 == b2 and l1 == l2
    for k in range(len(atoms) + 1):
        for X in itertools.combinations(atoms, k):
            if sat_agg(b1, l1, set(X)) != sat_agg(b2, l2, set(X)):
                return False
    return True


def step_oracle(calls, text, st):
    """calls: the directives of one step (without begin/end); text: what the implementation wrote for it.
    st: persistent state across steps {'names': {atom: set of given names}, 'theory': ..., 'inc':..}"""
    sig = []
    terms, elems, tatoms = st['terms'], st['elems'], st['tatoms']
    for c in calls:
        if c[0] == 13:
            terms[c[1]] = ('n', c[2])
        elif c[0] == 14:
            terms[c[1]] = ('s', c[2])
        elif c[0] == 15:
            terms[c[1]] = ('c', c[2], c[3])
        elif c[0] == 16:
            elems[c[1]] = (c[2], c[3])
        elif c[0] in (17, 18):
            tatoms.append({'atom': c[1], 'term': c[2], 'elems': c[3], 'guard': (c[4], c[5]) if c[0] == 18 else None})
    # acceptable names per atom
    given = st['given']
    for c in calls:
        if c[0] == 8 and len(c[2]) == 1 and c[2][0] > 0:
            given.setdefault(c[2][0], []).append(bytes(c[1]).decode('latin-1'))
    chosen = st['chosen'] = {}   # atom -> name observed in the text of this step (must be consistent within the step)

    def plain(a):
        # spelling of an atom inside a theory atom's text: the writer's convention is the first atom-like name given
        # to the atom (outputs take effect when they are made, theory atoms when the step is written), else x_<n>
        if a in chosen:
            return chosen[a]
        for n in given.get(a, []):
            if n[:1].islower() or n[:1] == '_' or n[:1] == '&':
                return n
        return 'x_%d' % a
    tnames = {}
    del NESTED[:]
    try:
        new = tatoms[st['frame']:]
        # names inside conditions of theory elements are whatever the writer shows for those atoms; use first given / x_n
        later = [a['atom'] for a in new if a['atom']]
        for k, a in enumerate(new):
            # an element condition that mentions an atom which only later in this step gets its theory-atom text is
            # written as x_<n> there and as the theory atom everywhere else: one atom, two spellings
            for e in a['elems']:
                if e in elems and any(abs(l) in later[sum(1 for b in new[:k + 1] if b['atom']):] or (abs(l) == a['atom'] and a['atom']) for l in elems[e][1]):
                    return ['theory-condition-atom-spelled-before-named']
            s = t_atom(terms, elems, a, plain)
            tnames.setdefault(a['atom'], []).append(s)
            if a['atom']:
                given.setdefault(a['atom'], []).append(s)
                chosen.setdefault(a['atom'], s)
    except Bad as e:
        return ['oracle-theory-not-renderable:%s' % e]
    for x in AMBIG_SIGS:
        if x in NESTED:
            sig.append(x)
    allt = [s for v in tnames.values() for s in v] + [n for v in given.values() for n in v if n.startswith('&')]
    try:
        stmts = P(text, allt).program()
    except Bad as e:
        # a theory term may end in '.', which makes "<atom>." textually a prefix of another theory atom's text:
        # retry preferring the shortest matching theory atom
        try:
            pp = P(text, allt)
            pp.tn = sorted(set(allt), key=len)
            stmts = pp.program()
        except Bad as e2:
            return ['unparseable-output']
    stmts = [s for s in stmts if s[0] != 'comment']

    def atom_ok(a, name):
        # an atom is spelled x_<n> or by one of the names given to it (outputs so far incl. this step, theory atom text);
        # the spelling must be the same throughout the step; whether a given name may be dropped in favour of x_<n> is
        # decided below (every output must be represented)
        if name != 'x_%d' % a and name not in given.get(a, []):
            return False
        return chosen.setdefault(a, name) == name

    def lits_ok(ls, ps):
        return len(ls) == len(ps) and all((l < 0) == neg and atom_ok(abs(l), nm) for l, (neg, nm) in zip(ls, ps))

    def wl_ok(wl, ps):
        return len(wl) == len(ps) and all((l < 0) == neg and atom_ok(abs(l), nm) and w == pw for (l, w), ((neg, nm), pw) in zip(wl, ps))
    k = 0
    pending_names = []     # outputs that were not rendered as #show: must be the atom's name

    def nxt():
        nonlocal k
        if k < len(stmts):
            k += 1
            return stmts[k - 1]
        return ('missing',)
    # standalone theory atoms (atom 0) are written first
    for s0 in tnames.get(0, []):
        s = nxt()
        if not (s[0] == 'rule' and not s[1] and s[2] == [s0] and s[3] == ('normal', [])):
            sig.append('theory-statement-differs')
            return sig
    for c in calls:
        t = c[0]
        if t == 4:
            s = nxt()
            if s[0] != 'rule' or s[1] != (c[1] != 0):
                sig.append('rule-kind-differs'); break
            if not (len(s[2]) == len(c[2]) and all(atom_ok(a, n) for a, n in zip(c[2], s[2]))):
                sig.append('rule-head-differs'); break
            if s[3][0] != 'normal' or not lits_ok(c[3], s[3][1]):
                sig.append('rule-body-differs'); break
        elif t == 5:
            s = nxt()
            if s[0] != 'rule' or s[1] != (c[1] != 0):
                sig.append('rule-kind-differs'); break
            if not (len(s[2]) == len(c[2]) and all(atom_ok(a, n) for a, n in zip(c[2], s[2]))):
                sig.append('rule-head-differs'); break
            if s[3][0] != 'agg':
                sig.append('weight-rule-body-not-an-aggregate'); break
            pb, pe = s[3][1], s[3][2]
            if len(pe) != len(c[4]) or not all((l < 0) == neg and atom_ok(abs(l), nm) for (l, w), ((neg, nm), pw) in zip(c[4], pe)):
                sig.append('aggregate-literals-differ'); break
            if any(pw is None for _, pw in pe) and not all(pw is None for _, pw in pe):
                sig.append('aggregate-mixed-weights'); break
            l1 = [((l < 0, abs(l)), w) for l, w in c[4]]
            l2 = [((l < 0, abs(l)), (1 if pw is None else pw)) for (l, w), (_, pw) in zip(c[4], pe)]
            if not agg_equiv(c[3], l1, pb, l2):
                sig.append('aggregate-not-equivalent'); break
        elif t == 6:
            s = nxt()
            if s[0] != 'min' or s[1] != c[1] or any(pw is None for _, pw in s[2]) or not wl_ok(c[2], s[2]):
                sig.append('minimize-differs'); break
        elif t == 7:
            s = nxt()
            if s[0] != 'project' or not (len(s[1]) == len(c[1]) and all(atom_ok(a, n) for a, n in zip(c[1], s[1]))):
                sig.append('project-differs'); break
        elif t == 8:
            name = bytes(c[1]).decode('latin-1')
            if k < len(stmts) and stmts[k][0] == 'show' and stmts[k][1] == name and lits_ok(c[2], stmts[k][2]):
                k += 1
            elif len(c[2]) == 1 and c[2][0] > 0:
                pending_names.append((c[2][0], name))
            else:
                sig.append('output-not-represented'); break
        elif t == 9:
            s = nxt()
            if s[0] != 'external' or not atom_ok(c[1], s[1]) or s[2] != ['free', 'true', 'false', 'release'][c[2]]:
                sig.append('external-differs'); break
        elif t == 10:
            s = nxt()
            if s[0] != 'assume' or not lits_ok(c[1], s[1]):
                sig.append('assume-differs'); break
        elif t == 11:
            s = nxt()
            if s[0] != 'heuristic' or not atom_ok(c[1], s[1]) or not lits_ok(c[5], s[2]) or (s[3], s[4], s[5]) != (c[3], c[4], c[2]):
                sig.append('heuristic-differs'); break
        elif t == 12:
            s = nxt()
            if s[0] != 'edge' or (s[1], s[2]) != (c[1], c[2]) or not lits_ok(c[3], s[3]):
                sig.append('edge-differs'); break
    if [x for x in sig if x not in AMBIG_SIGS] == [] and k != len(stmts):
        sig.append('extra-statements')
    if [x for x in sig if x not in AMBIG_SIGS] == []:
        for a, name in pending_names:
            if a in chosen and chosen[a] != name:
                sig.append('output-name-lost')
                break
            chosen.setdefault(a, name)
    return sig


def split_steps(calls):
    """-> (inc, [step directive lists], complete?)"""
    inc, steps, cur = False, [], None
    for c in calls:
        if c[0] == 1:
            inc = c[1]
        elif c[0] == 2:
            cur = []
        elif c[0] == 3:
            if cur is not None:
                steps.append(cur)
            cur = None
        elif cur is not None:
            cur.append(c)
    return inc, steps


def expected_error(calls):
    """Does the call sequence contain one of the shapes the writer is entitled/known to refuse?  -> signature or None"""
    inc, steps = split_steps(calls)
    terms, elems = {}, {}
    named = set()
    tatoms = []
    frame_t = frame_e = set()
    for si, st in enumerate(steps):
        newt, newe = set(), set()
        if not inc:
            terms, elems, tatoms = {}, {}, []
        cur = []
        for c in st:
            if c[0] in (13, 14, 15):
                if c[1] in newt:
                    return 'redefinition'
                newt.add(c[1])
                terms[c[1]] = ('n', c[2]) if c[0] == 13 else ('s', c[2]) if c[0] == 14 else ('c', c[2], c[3])
            elif c[0] == 16:
                if c[1] in newe:
                    return 'redefinition'
                newe.add(c[1])
                elems[c[1]] = (c[2], c[3])
            elif c[0] in (17, 18):
                cur.append({'atom': c[1], 'term': c[2], 'elems': c[3], 'guard': (c[4], c[5]) if c[0] == 18 else None})
            elif c[0] == 8 and len(c[2]) == 1 and c[2][0] > 0 and c[1] and (chr(c[1][0]).islower() or c[1][0] == 95):
                named.add(c[2][0])
        for a in cur:
            try:
                t_atom(terms, elems, a, lambda x: 'x')
            except Bad:
                return 'unknown-id'
            if a['atom']:
                if a['atom'] in named:
                    return 'theory-atom-on-named-atom'
                named.add(a['atom'])
    return None


def oracle(case, obs):
    calls, rest = dec_all(case)
    if not obs:
        return ['no-observation']
    status, n = obs[0], obs[1]
    text = bytes(x & 255 for x in obs[2:2 + n]).decode('latin-1')
    if sum(1 for c in calls if c[0] == 1) > 1:
        return []                           # two programs through one writer: judged by the model correspondence only (see gen)
    exp = expected_error(calls)
    if status != 0:
        if exp in ('redefinition', 'unknown-id'):
            return []                       # malformed theory data: refused with logic_error, as documented
        if exp == 'theory-atom-on-named-atom':
            return ['theory-atom-on-named-atom-refused']
        return ['render-failed-on-valid-program']
    if exp is not None:
        return []                           # the error stream: accepted although malformed (e.g. redefinition across frames) - not judged
    inc, steps = split_steps(calls)
    # split the text into steps: incremental programs carry '% #program' comment lines
    if inc:
        parts = re.split(r'(?m)^% #program (?:base|step\(\d+\))\.\n', text)
        if parts[0] != '' or len(parts) != len(steps) + 1:
            return ['step-headers-differ']
        parts = parts[1:]
        heads = re.findall(r'(?m)^% #program (base|step\((\d+)\))\.\n', text)
        for i, h in enumerate(heads):
            if (i == 0) != (h[0] == 'base') or (i > 0 and int(h[1]) != i):
                return ['step-headers-differ']
    else:
        parts = None
    st = {'terms': {}, 'elems': {}, 'tatoms': [], 'given': {}, 'chosen': {}, 'frame': 0}
    sig = []
    if parts is None:
        # non-incremental: all steps are written one after the other; judge the concatenation step by step using statement counts
        # (theory data is reset after each step)
        if len(steps) == 1:
            return step_oracle(steps[0], text, st)
        # several steps without incremental headers: parse greedily per step by rendering length is impossible without the
        # model; compare the whole text against the concatenated directives with per-step theory reset
        pos = 0
        soft = []
        SOFT = set(AMBIG_SIGS)
        for sdirs in steps:
            st['terms'], st['elems'], st['tatoms'], st['frame'] = {}, {}, [], 0
            # find the longest prefix of the remaining lines that this step accounts for: number of statements is known
            nst = sum(1 for c in sdirs if c[0] in (4, 5, 6, 7, 9, 10, 11, 12)) + sum(1 for c in sdirs if c[0] in (17, 18) and c[1] == 0)
            lines = text[pos:].split('\n')[:-1]
            ok = None
            last = []
            for extra in range(sum(1 for c in sdirs if c[0] == 8), -1, -1):
                cand = ''.join(l + '\n' for l in lines[:nst + extra])
                import copy
                st2 = copy.deepcopy(st)
                r = step_oracle(sdirs, cand, st2)
                if set(r) <= SOFT:
                    ok = (cand, st2)
                    soft += r
                    break
                last = r
            if ok is None:
                return last if nst or any(c[0] == 8 for c in sdirs) else []
            pos += len(ok[0])
            st = ok[1]
        if pos != len(text):
            return ['extra-statements']
        return sorted(set(soft))
    for sdirs, part in zip(steps, parts):
        r = step_oracle(sdirs, part, st)
        if r:
            return r
        st['frame'] = len(st['tatoms'])
    return sig


def nontrivial(case, obs):
    return bool(obs) and obs[0] == 0 and obs[1] > 0


def case_hash(c):
    h = 1469598103934665603
    for x in c:
        h = ((h ^ (x & 0xFFFFFFFFFFFFFFFF)) * 1099511628211) & 0xFFFFFFFFFFFFFFFF
    return h


def primed(c):
    """harness/h_c06.cpp: every other case starting with initProgram is rendered by a writer OBJECT that has rendered another program
    before (writer reuse; bit 18 of the hash: that earlier program ended in an abandoned step). Invisible for a correct writer."""
    return bool(c) and c[0] == 1 and bool((case_hash(c) >> 17) & 1)


def describe(case):
    calls, rest = dec_all(case)
    w = ''
    if primed(case):
        w = 'writer=reused(after rendering a %s program with names, #show and theory atoms) ' % (
            'two-step incremental, second step abandoned,' if (case_hash(case) >> 18) & 1 else 'one-step')
    return w + pretty(calls) + ((' + undecoded %r' % rest) if rest else '')


# ------------------------------------------------------------------------------------------------
# generators
# ------------------------------------------------------------------------------------------------
NAMES = [b'a', b'b', b'foo', b'_x', b'p(1)', b'q("a b",2)', b'r(f(x),y)', b'bar', b'c', b'zz9']
SHOWS = [b'Foo', b'"str"', b'"a b"', b'1', b'f(X)', b'a', b'b', b'g(1,2)']


def g_atom(rnd, big=True):
    r = rnd.random()
    if r < 0.85 or not big:
        return rnd.randint(1, 6)
    if r < 0.93:
        return rnd.choice([ATOM_MAX, ATOM_MAX - 1, 65536, 4097, 10, 100])
    return rnd.randint(7, ATOM_MAX)


def g_lit(rnd):
    a = g_atom(rnd)
    return -a if rnd.random() < 0.4 else a


def g_len(rnd, mx=4):
    return rnd.choice([0, 0, 1, 1, 2, 2, 3, mx])


def g_int(rnd):
    r = rnd.random()
    if r < 0.55:
        return rnd.randint(-3, 5)
    if r < 0.85:
        return rnd.choice([INT_MAX, -INT_MAX - 1, -INT_MAX, INT_MAX - 1, 0, 1])
    return rnd.randint(-INT_MAX - 1, INT_MAX)


def g_wbody(rnd):
    n = g_len(rnd, 5)
    prof = rnd.choice(['zero', 'equal', 'equal', 'unequal', 'unequal', 'withzero', 'big', 'neg'])
    if prof == 'zero':
        ws = [0] * n
    elif prof == 'equal':
        w = rnd.choice([1, 1, 2, 3, 7, INT_MAX, INT_MAX - 1, 2 ** 30])
        ws = [w] * n
    elif prof == 'unequal':
        ws = [rnd.randint(1, 4) for _ in range(n)]
    elif prof == 'withzero':
        ws = [rnd.choice([0, 1, 2]) for _ in range(n)]
    elif prof == 'big':
        ws = [rnd.choice([INT_MAX, 2 ** 30, 1, INT_MAX - 1]) for _ in range(n)]
    else:
        ws = [rnd.choice([-2, -2, 1, 0]) for _ in range(n)] if rnd.random() < 0.5 else [-2] * n
    body = [(g_lit(rnd), w) for w in ws]
    tot = sum(ws)
    bound = rnd.choice([0, -1, -5, 1, tot, tot + 1, tot - 1, INT_MAX, -INT_MAX - 1, 2, 3, g_int(rnd)])
    bound = max(-INT_MAX - 1, min(INT_MAX, bound))
    return bound, body


def g_dir(rnd, named_ok=True):
    k = rnd.choice([4, 4, 4, 5, 5, 5, 6, 6, 7, 8, 8, 8, 9, 10, 11, 12])
    if k == 4:
        return (4, rnd.choice([0, 0, 1]), [g_atom(rnd) for _ in range(g_len(rnd, 3))], [g_lit(rnd) for _ in range(g_len(rnd, 4))])
    if k == 5:
        b, body = g_wbody(rnd)
        return (5, rnd.choice([0, 0, 1]), [g_atom(rnd) for _ in range(g_len(rnd, 3))], b, body)
    if k == 6:
        return (6, g_int(rnd), [(g_lit(rnd), g_int(rnd)) for _ in range(g_len(rnd, 4))])
    if k == 7:
        return (7, [g_atom(rnd) for _ in range(g_len(rnd, 4))])
    if k == 8:
        r = rnd.random()
        if r < 0.55:
            return (8, rnd.choice(NAMES), [g_atom(rnd, big=False)])
        if r < 0.7:
            return (8, rnd.choice(NAMES + SHOWS), [-g_atom(rnd)])
        if r < 0.8:
            return (8, rnd.choice(NAMES + SHOWS), [])
        if r < 0.9:
            return (8, rnd.choice(SHOWS), [g_atom(rnd, big=False)])
        return (8, rnd.choice(NAMES + SHOWS), [g_lit(rnd) for _ in range(rnd.randint(2, 3))])
    if k == 9:
        return (9, g_atom(rnd), rnd.randint(0, 3))
    if k == 10:
        return (10, [g_lit(rnd) for _ in range(g_len(rnd, 4))])
    if k == 11:
        return (11, g_atom(rnd), rnd.randint(0, 5), g_int(rnd), rnd.choice([0, 0, 1, 2, INT_MAX, 2 ** 32 - 1, rnd.randint(0, 2 ** 32 - 1)]),
                [g_lit(rnd) for _ in range(g_len(rnd, 3))])
    return (12, g_int(rnd), g_int(rnd), [g_lit(rnd) for _ in range(g_len(rnd, 3))])


# b'.' is a legal operator symbol but a term ending in '.' makes the text ambiguous with the statement terminator
# ("&p{} . ." + "." reads like the atom "&p{} . .."): left out of the random stream, one instance is in corpus/C06
SYMS = [b'p', b'f', b'+', b'-', b'*', b'<=', b'sum', b'x', b'"s t"', b'', b'~', b'a\x00b', b'^']


class TheoryGen:
    """Generates well-formed (acyclic, defined-before-use) theory data with small ids.
    Ids need only be unique within one step: with `redefine` a later step RE-DEFINES term / element ids of earlier steps with new
    content (never an id it has already defined itself) and then uses them; `step(.., atoms=False)` defines terms / elements but no
    theory atom (seeded change C06-r5: every beginStep closes the theory frame, whether or not the step before wrote an atom).
    Acyclicity under redefinition: a compound term refers only to term ids smaller than its own (fresh ids grow, so this is what
    the generator did anyway)."""

    def __init__(self, rnd, redefine=False):
        self.rnd, self.terms, self.syms, self.elems = rnd, [], [], []
        self.nt = self.ne = 0
        self.tatom_atoms = set()
        self.redefine = redefine
        self.new_t, self.new_e = set(), set()

    def term_id(self):
        old = [x for x in self.terms if x not in self.new_t]
        if self.redefine and old and self.rnd.random() < 0.5:
            i = self.rnd.choice(old)
            if i in self.syms:
                self.syms.remove(i)
        else:
            i = self.nt; self.nt += 1
            self.terms.append(i)
        self.new_t.add(i)
        return i

    def elem_id(self):
        old = [x for x in self.elems if x not in self.new_e]
        if self.redefine and old and self.rnd.random() < 0.5:
            i = self.rnd.choice(old)
        else:
            i = self.ne; self.ne += 1
            self.elems.append(i)
        self.new_e.add(i)
        return i

    def step(self, used_names, n, atoms=True):
        rnd, out = self.rnd, []
        self.new_t, self.new_e = set(), set()
        for _ in range(n):
            r = rnd.random()
            if not atoms and r >= 0.72:
                r = rnd.random() * 0.72
            if r < 0.2 or not self.terms:
                i = self.term_id()
                if rnd.random() < 0.5:
                    out.append((13, i, g_int(rnd)))
                else:
                    out.append((14, i, rnd.choice(SYMS)))
                    self.syms.append(i)
            elif r < 0.5:
                i = self.term_id()
                below = [x for x in self.terms if x < i]
                sbelow = [x for x in self.syms if x < i]
                args = [rnd.choice(below) for _ in range(rnd.choice([0, 1, 1, 2, 2, 3]))] if below else []
                if rnd.random() < 0.3 or not below:
                    base = rnd.choice([-1, -2, -3])
                else:
                    base = rnd.choice(sbelow) if sbelow and rnd.random() < 0.85 else rnd.choice(below)
                out.append((15, i, base, args))
            elif r < 0.72:
                i = self.elem_id()
                out.append((16, i, [rnd.choice(self.terms) for _ in range(g_len(rnd, 3))], [g_lit(rnd) for _ in range(g_len(rnd, 3))]))
            else:
                a = 0
                if rnd.random() < 0.6:
                    cand = [x for x in range(7, 15) if x not in used_names and x not in self.tatom_atoms]
                    if cand:
                        a = rnd.choice(cand)
                        self.tatom_atoms.add(a)
                es = [rnd.choice(self.elems) for _ in range(g_len(rnd, 3))] if self.elems else []
                if self.redefine and self.new_e and rnd.random() < 0.5:
                    es = [rnd.choice(sorted(self.new_e)) for _ in range(rnd.randint(1, 3))]     # what this step has just (re)defined
                t = rnd.choice(sorted(self.new_t)) if (self.redefine and self.new_t and rnd.random() < 0.4) else rnd.choice(self.terms)
                if rnd.random() < 0.4:
                    out.append((18, a, t, es, rnd.choice(self.terms), rnd.choice(self.terms)))
                else:
                    out.append((17, a, t, es))
        return out


def g_program(rnd, theory=False, nsteps=None, redefine=False):
    """`redefine` (theory programs): incremental, 3-4 steps; steps without a theory atom; later steps re-define earlier ids."""
    nsteps = nsteps or (rnd.choice([2, 3, 3, 4]) if redefine else rnd.choice([1, 1, 1, 2, 3, 4] if theory else [1, 1, 1, 2, 3]))
    inc = nsteps > 1 or rnd.random() < 0.25
    if nsteps > 1 and rnd.random() < 0.15 and not redefine:
        inc = False
    prog = [(1, inc)]
    tg = TheoryGen(rnd, redefine) if theory else None
    for s in range(nsteps):
        prog.append((2,))
        ds = [g_dir(rnd) for _ in range(rnd.choice([0, 1, 2, 3, 5, 8] if not redefine else [0, 0, 1, 2, 3]))]
        if tg:
            if not inc:
                tg = TheoryGen(rnd)
            named = set(c[2][0] for c in prog + ds if c[0] == 8 and len(c[2]) == 1 and c[2][0] > 0)
            # outputs on atoms that (will) carry a theory atom are dropped: the writer refuses them (see error stream)
            if redefine:
                atoms = s == nsteps - 1 or rnd.random() < (0.3 if s == 0 else 0.6)
            else:
                atoms = not (inc and nsteps > 1 and rnd.random() < 0.2)
            tds = tg.step(named, rnd.choice([2, 4, 6, 10]), atoms)
            ds = [c for c in ds if not (c[0] == 8 and len(c[2]) == 1 and c[2][0] in tg.tatom_atoms)]
            allc = ds + tds
            # keep the relative order of theory calls (defined before use), interleave with the rest
            pos = sorted(rnd.sample(range(len(allc)), len(tds)))
            merged, ti, di = [], 0, 0
            for i in range(len(allc)):
                if ti < len(tds) and i == pos[ti]:
                    merged.append(tds[ti]); ti += 1
                else:
                    merged.append(ds[di]); di += 1
            ds = merged
        prog += ds
        prog.append((3,))
    return prog


def reverse_ids(prog, rnd):
    """Rename the theory term ids and element ids of a whole program by order-REVERSING maps (id -> (max - id) * gap + offset), so that within a
    step higher ids are announced before lower ones and the id tables have holes (seeded C06-r13: an element with a lower id announced after
    one with a higher id was refused as a redefinition). Order-reversing keeps "compound terms refer only to ids on one side", hence acyclic."""
    tids, eids = set(), set()
    for c in prog:
        if c[0] in (13, 14):
            tids.add(c[1])
        elif c[0] == 15:
            tids.add(c[1]); tids.update(c[3]); tids.update([c[2]] if c[2] >= 0 else [])
        elif c[0] == 16:
            eids.add(c[1]); tids.update(c[2])
        elif c[0] in (17, 18):
            tids.add(c[2]); eids.update(c[3])
            if c[0] == 18:
                tids.update([c[4], c[5]])
    if not tids and not eids:
        return prog
    gt, ot, ge, oe = rnd.choice([1, 1, 2]), rnd.choice([0, 0, 3]), rnd.choice([1, 1, 2]), rnd.choice([0, 0, 2])
    mt, me = max(tids or [0]), max(eids or [0])
    ft = lambda i: (mt - i) * gt + ot
    fe = lambda i: (me - i) * ge + oe
    out = []
    for c in prog:
        if c[0] in (13, 14):
            c = (c[0], ft(c[1])) + tuple(c[2:])
        elif c[0] == 15:
            c = (15, ft(c[1]), ft(c[2]) if c[2] >= 0 else c[2], [ft(x) for x in c[3]])
        elif c[0] == 16:
            c = (16, fe(c[1]), [ft(x) for x in c[2]], c[3])
        elif c[0] == 17:
            c = (17, c[1], ft(c[2]), [fe(x) for x in c[3]])
        elif c[0] == 18:
            c = (18, c[1], ft(c[2]), [fe(x) for x in c[3]], ft(c[4]), ft(c[5]))
        out.append(c)
    return out


FIXED = [
    ([(1, False), (2,), (4, 1, [], [1]), (3,)], 'empty-choice-head'),
    ([(1, False), (2,), (4, 1, [], []), (3,)], 'empty-choice-head-empty-body'),
    ([(1, False), (2,), (4, 0, [], []), (3,)], 'empty-head-empty-body'),
    ([(1, False), (2,), (6, 3, []), (3,)], 'empty-minimize'),
    ([(1, False), (2,), (7, []), (10, []), (3,)], 'empty-project-assume'),
    ([(1, False), (2,), (5, 0, [1], 1, []), (3,)], 'empty-weighted-body'),
    ([(1, False), (2,), (5, 0, [1], 0, []), (5, 1, [], -1, []), (3,)], 'empty-weighted-body'),
    ([(1, False), (2,), (5, 0, [1], 1, [(2, 0), (3, 0)]), (3,)], 'zero-weights'),
    ([(1, False), (2,), (5, 0, [1], INT_MAX, [(2, 2), (3, 2)]), (3,)], 'bound-overflow'),
    ([(1, False), (2,), (5, 0, [1], INT_MAX, [(2, INT_MAX), (3, INT_MAX)]), (3,)], 'bound-overflow'),
    ([(1, False), (2,), (5, 0, [1], -INT_MAX - 1, [(2, 3), (3, 3)]), (3,)], 'bound-min'),
    ([(1, False), (2,), (8, b'a', [1]), (8, b'b', [1]), (4, 0, [1], []), (3,)], 'two-names'),
    ([(1, False), (2,), (4, 0, [1], []), (8, b'a', [1]), (8, b'b', [1]), (3,)], 'two-names'),
    ([(1, True), (2,), (8, b'a', [1]), (4, 0, [1], []), (3,), (2,), (8, b'b', [1]), (4, 0, [2], [1]), (3,)], 'two-names-two-steps'),
    ([(1, False), (2,), (8, b'a', [1]), (14, 0, b'p'), (17, 1, 0, []), (3,)], 'error-theory-atom-on-named-atom'),
    ([(1, False), (2,), (14, 0, b'p'), (17, 1, 0, []), (8, b'a', [1]), (4, 0, [1], []), (3,)], 'error-theory-atom-on-named-atom'),
    ([(1, False), (2,), (14, 0, b'p'), (13, 1, 5), (14, 2, b'+'), (15, 3, 2, [1, 1]), (16, 0, [3], [1, -2]), (18, 0, 0, [0], 2, 1),
      (17, 3, 0, [0, 0]), (4, 0, [3], [-3]), (3,)], 'theory'),
    ([(1, False), (2,), (14, 0, b'+'), (14, 1, b'*'), (13, 2, 1), (13, 3, 2), (13, 4, 3), (15, 5, 0, [2, 3]), (15, 6, 1, [5, 4]), (15, 7, 1, [3, 4]),
      (15, 8, 0, [2, 7]), (16, 0, [6], []), (16, 1, [8], []), (17, 0, 0, [0]), (17, 0, 0, [1]), (3,)], 'theory-nested-operators'),
    ([(1, False), (2,), (14, 0, b'p'), (16, 0, [0], [8]), (17, 7, 0, [0]), (17, 8, 0, []), (4, 0, [7], [8]), (3,)], 'theory-condition-spelling'),
    # "&p{-5}." twice: the number -5 and the prefix operator - applied to 5
    ([(1, False), (2,), (14, 0, b'p'), (13, 1, -5), (13, 2, 5), (14, 3, b'-'), (15, 4, 3, [2]), (16, 0, [1], []), (16, 1, [4], []),
      (17, 0, 0, [0]), (17, 0, 0, [1]), (3,)], 'theory-minus-number'),
    # "&p{1 : a}." : the term 1:a (infix operator ":") - the same text as the term 1 under the condition a
    ([(1, False), (2,), (14, 0, b'p'), (13, 1, 1), (14, 2, b':'), (14, 3, b'a'), (15, 4, 2, [1, 3]), (16, 0, [4], []), (17, 0, 0, [0]), (3,)],
     'theory-separator-operator'),
    # seeded change C06-r5: the base step defines terms and an element but no theory atom; steps 1 and 2 re-define the ids and use them
    ([(1, True), (2,), (4, 1, [1], []), (14, 0, b'load'), (13, 1, 10), (16, 0, [1], []), (3,),
      (2,), (13, 1, 20), (16, 0, [1], [1]), (17, 0, 0, [0]), (3,),
      (2,), (13, 1, 30), (16, 0, [1], []), (17, 0, 0, [0]), (3,)], 'theory-redefine-after-atomless-step'),
    # the same after a step WITH an atom: step 1 adds a term only, step 2 re-defines it (and the symbol becomes a number's neighbour)
    ([(1, True), (2,), (14, 0, b'p'), (13, 1, 1), (16, 0, [1], []), (17, 0, 0, [0]), (3,),
      (2,), (13, 2, 2), (16, 1, [2], [-1]), (3,),
      (2,), (14, 2, b'q'), (16, 1, [2, 1], []), (17, 7, 0, [1, 0]), (4, 0, [7], []), (3,),
      (2,), (13, 1, 5), (17, 0, 0, [0, 1]), (3,)], 'theory-redefine-after-atomless-step'),
]


def gen(seed, tier):
    rnd = random.Random(seed * 7919 + 6)
    total = {'quick': 3000, 'thorough': 100000, 'search': 6000}.get(tier, 3000)
    out = [(enc_all(p), {'kind': 'fixed-' + k}) for p, k in FIXED]
    while len(out) < total:
        r = rnd.random()
        if r < 0.04:
            # TWO programs through one writer: initProgram starts afresh (the model's CInit clears names, directives, conditions and - since
            # the repair b0fbe3f - the theory store). Judged through the model only (the oracle cannot cut the text between the programs);
            # the harness-side primer (primed()) gives the oracle-level verdict on the second program.
            p1 = g_program(rnd, theory=True, redefine=rnd.random() < 0.3)
            if rnd.random() < 0.4 and len(p1) > 3:
                p1 = p1[:rnd.randint(2, len(p1) - 1)]       # first program abandoned somewhere (possibly in the middle of a step)
            p2 = g_program(rnd, theory=rnd.random() < 0.6)
            out.append((enc_all(p1 + p2), {'kind': 'two-programs-one-writer'}))
        elif r < 0.5:
            out.append((enc_all(g_program(rnd)), {'kind': 'plain'}))
        elif r < 0.6:
            # a single degenerate directive
            out.append((enc_all([(1, False), (2,), g_dir(rnd), (3,)]), {'kind': 'single-directive'}))
        elif r < 0.82:
            p = g_program(rnd, theory=True)
            if rnd.random() < 0.3:
                out.append((enc_all(reverse_ids(p, rnd)), {'kind': 'theory-ids-descending'}))
            else:
                out.append((enc_all(p), {'kind': 'theory'}))
        elif r < 0.92:
            # ids are unique per step only: atom-less steps, later steps that re-define earlier term / element ids and use them
            p = g_program(rnd, theory=True, redefine=True)
            if rnd.random() < 0.3:
                out.append((enc_all(reverse_ids(p, rnd)), {'kind': 'theory-redefine-ids-descending'}))
            else:
                out.append((enc_all(p), {'kind': 'theory-redefine'}))
        else:
            p = g_program(rnd, theory=True)
            # malformed: duplicate a theory definition, reference an unknown id, or name a theory atom's atom
            idx = [i for i, c in enumerate(p) if c[0] in (13, 14, 15, 16, 17, 18)]
            if idx:
                i = rnd.choice(idx)
                c = p[i]
                m = rnd.random()
                if m < 0.35:
                    p.insert(i + 1, c)
                elif m < 0.7 and c[0] in (15, 16, 17, 18):
                    c = list(c)
                    c[3] = list(c[3]) + [rnd.choice([40, 41, 99])]
                    p[i] = tuple(c)
                elif c[0] in (17, 18) and c[1]:
                    p.insert(rnd.choice([2, i]), (8, b'nm', [c[1]]))
            out.append((enc_all(p), {'kind': 'theory-malformed'}))
    return out


def shrink(case, fails):
    calls, _ = dec_all(case)
    changed = True
    while changed:
        changed = False
        for i in range(len(calls) - 1, -1, -1):
            if calls[i][0] in (1, 2, 3):
                continue
            t = calls[:i] + calls[i + 1:]
            if fails(enc_all(t)):
                calls = t
                changed = True
    return enc_all(calls)
