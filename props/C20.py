"""C20 - type-erased value holder keeps value semantics and single ownership.

Case (part A): 0 H M t_0..t_{M-1} ops...     ValueStore / ValueMap::add / NotifiedValue::doParse
Case (part B): 1 S C ops...                   Option : RefCountable shared through IntrusiveSharedPtr
(encoding and observation layout: coq/C20/Model.v, harness/h_c20.cpp)

The oracle is independent of the Coq model: it replays the history on *abstract values* (a holder is
None or (type, value); a copy is a copy; swap exchanges) and keeps a *shadow ownership ledger* over the
object ids the instrumented payload types report: who must own which object, which ids must be fresh,
live set == owned set after every operation, destructor runs == constructed - live, no object touched
after its destructor ran, nothing left when every holder is gone (registry + LeakSanitizer).
"""
import random

PID = 'C20'
HARNESS = 'h_c20'
# second translation unit of the harness: its own unnamed-namespace types Setting / Triple / Record, spelled like the first unit's
HARNESS_EXTRA = ('h_c20_b.h', 'h_c20_b.cpp')
MODEL_MODULE = 'V.C20.Model'
NTY = 26
INSTR = tuple(range(0, 6)) + (11, 12, 13, 24, 25)
# sizeof of the harness's payload types (static_asserts in harness/h_c20.cpp; coq/C20/Model.v size_of): 11..15 lie between one and two words
SIZE_OF = {0: 1, 1: 4, 2: 8, 3: 16, 4: 40, 5: 32, 6: 1, 7: 4, 8: 8, 9: 32, 10: 24, 11: 9, 12: 12, 13: 15, 14: 12, 15: 9, 16: 16, 17: 8,
           18: 8, 19: 12, 20: 40, 21: 8, 22: 12, 23: 40, 24: 16, 25: 24}
WORD = 8
ODD_TYPES = (11, 12, 13, 14, 15)          # one word < sizeof < two words
INPLACE_TYPES = (0, 1, 2, 6, 7, 8, 17, 18, 21)
HEAP_TYPES = (3, 4, 5, 9, 10, 11, 12, 13, 14, 15, 16, 19, 20, 22, 23, 24, 25)
# 18..20 = Setting (8, in place) / Triple (12) / Record (40, non-trivial) of the harness's first translation unit (unnamed namespace),
# 21..23 = the types of the SAME SPELLING in the second unit's unnamed namespace: distinct types, equal std::type_info::name() strings.
# For the property they are just six different types: typed access with any type other than the stored one is a type error.
TWIN = {18: 21, 19: 22, 20: 23, 21: 18, 22: 19, 23: 20}
TWIN_TYPES = tuple(sorted(TWIN))
# 24 = PBase (class with a virtual destructor, 16 bytes), 25 = PDerived : PBase (24 bytes): a polymorphic pair, instrumented.
# Pseudo-tag 26 (op `new`, and the type of a map name) = `PBase* p = new PDerived(v)`: the client owns the object through a PBase*, so whoever
# adopts it (assimilate, ValueMap::add<PBase>, a NotifiedValue<PBase> whose creator returns a new PDerived) adopts it AS PBase: the holder holds
# "exactly the type last stored" = PBase, typed access with PBase yields the value, PDerived (never stored) is a type error, copies are PBase.
P_BASE, P_DERIVED, ADOPT_DERIVED = 24, 25, 26
KIN = {P_BASE: P_DERIVED, P_DERIVED: P_BASE}
# a type that is easily confused with the stored one: the namesake of the other translation unit / the other class of the polymorphic pair
NEAR = dict(TWIN)
NEAR.update(KIN)


def static_ty(ty):
    """the type an object created under (pseudo-)tag ty is owned, adopted and stored as"""
    return P_BASE if ty == ADOPT_DERIVED else ty

# integrity codes of the harness (last integer of every state dump)
ERR_SIG = {1: 'once:object-used-or-destroyed-after-destruction', 3: 'typed:stored-value-bytes-changed',
           4: 'typed:access-with-another-type-accepted', 5: 'typed:checked-access-forms-disagree',
           6: 'once:derived-part-of-object-not-destroyed'}
NPROC = 6
VARIANTS = {('p%d' % i): {} for i in range(NPROC)}   # same binary, several processes (LeakSanitizer checks are slow)
# leaks are judged per case through __lsan_do_recoverable_leak_check (last integer of the observation), not at process exit
HARNESS_ENV = {'LSAN_OPTIONS': 'leak_check_at_exit=0'}

RULE = ('op 18 adopt_null(i, T, how): h[i].assimilate((T*)0) for every type tag (26 = (PBase*)0) - the holder must then be non-empty, of type T, without object - followed by clear / surrender / destructor / assignment of an empty holder (how mod 4), after which it must be empty, typed access refused, nothing constructed or destroyed for the null pointer; '
        'cases = operation histories; part A over H<=4 holders, one ValueMap with M<=3 names and a client pointer pool: '
        'construct-from-value, copy-construct, assign value (from an independent object and - stream alias-assign - from an alias of the holder\'s own current value: '
        'h = value_cast<T>(h), h = value_cast<Record>(h).member, h = value_cast<vector<int>>(h)[0]), assign holder (incl. self), swap (incl. in-place<->heap, self), clear, '
        'client new/delete, assimilate, surrender (+reuse), write through value_cast, value_cast to every type, ValueMap::add '
        '(new / other pointer / the pointer already held), ValueMap::clear, operator[], NotifiedValue::parse (accepting / rejecting parser, first and '
        'repeated), over 26 payload types (sizeof 1,4,8 in place; 16, string-like, vector-like on the heap; bool,int,const void*,std::string,std::vector<int>; '
        'sizes BETWEEN one and two words: instrumented 9, 12, 15 bytes, a plain struct of three ints (12) and of nine chars (9), plain controls of 16 and 8 bytes - every byte of these '
        'values is significant and checked at every read, every holder is an exactly-sized heap block so that ASan sees a write / read past its single word; '
        'fixed odd-size histories + stream A-random-odd-size + all type pairs; '
        'SAME NAME, OTHER TYPE: tags 18..20 = Setting (8 bytes, in place) / Triple (12) / Record (40, non-trivial) declared in the unnamed namespace of the harness\'s first translation unit, '
        'tags 21..23 = the types of exactly the same spelling in the unnamed namespace of its SECOND translation unit (harness/h_c20_b.cpp, other layouts and encodings): distinct types whose '
        'std::type_info::name() strings are equal (self-test at harness start, printed on stderr; the harness aborts if that is not so). Every op works on them (the second unit\'s types through plain functions of '
        'h_c20_b.h); a typed read through the other unit\'s type of the same name must be refused like any other wrong type: judged at op cast / map_get (typed:cast-result-differs, '
        'typed:map-lookup-differs), and after EVERY operation each holder / map entry that holds one of the six types is probed through its namesake with the whole value_cast family '
        '(an accepted access = integrity 4 = typed:access-with-another-type-accepted, the object is never read through the wrong type; contradicting forms = typed:checked-access-forms-disagree); '
        '24 fixed same-name histories (value arriving by typed construction / assignment, copy, holder assignment, swap, adoption, surrender + re-adoption, ValueMap::add, NotifiedValue::parse, copy out of the map; '
        'typed assignment over the namesake with the same value) + stream A-random-same-name-types (4 %) + 35 % of the typed reads of the other streams aimed at the namesake when there is one); '
        'POLYMORPHIC PAIR: tags 24 = PBase (class with a virtual destructor, 16 bytes), 25 = PDerived : PBase (24 bytes), instrumented (ids, counted construction / destruction, derived part recorded separately: '
        'a base destructor on an object whose derived part is alive = integrity 6 = once:derived-part-of-object-not-destroyed), every op works on them; pseudo-tag 26 (op new, type of a map name) = a PDerived object owned '
        'through a PBase*: assimilate / ValueMap::add<PBase> / a NotifiedValue<PBase> whose creator returns a new PDerived adopt it AS PBase - the holder must report PBase (the type last stored), typed access with PBase must '
        'yield the value, PDerived (never stored) must be refused, copies (sliced PBase objects with fresh ids) must agree with their source, the object must be destroyed completely and once; each holder / map entry holding 24 or 25 is '
        'probed through the other class after EVERY operation; 10 fixed poly-fixed-* histories + stream A-random-polymorphic-adopted (4 %) + 8 % of the client objects of the other A streams; '
        'part B over S<=4 SharedOptPtr variables and C<=6 containers (OptionGroup, ParsedValues, OptionContext); 7 of 8 additions to a ParsedValues container take the handle from a REAL '
        'parse (parseCommandArray / parseCommandString over a context container of the case or a temporary context, result object kept) surrounded by command lines that must leave no '
        'handle behind: --no-<name> for negatable and non-negatable options, unknown names, prefixes, strict and with unregistered options allowed (stream B-parse-holder + fixed histories). '
        'MAGNITUDE (every tier, 62 fixed histories + small k in the random B stream): push_n(c, i, k) = k further holders of option *p[i] at once - k real handle copies in a client pool '
        '(std::vector<SharedOptPtr>, with and without reserve), ONE parse of a generated config text / command line in which the option occurs k times (result kept) or k ParsedValues::add, k '
        'OptionGroup entries, k adds to an OptionContext - and pool_pop_n(k) = the newest k handle copies destroyed one by one, for k = 255..257, 32767..32769, 65533..65537, 70000; observed after every '
        'operation: refCount() and count() in full, alive flag and destructor count of every option, container sizes. '
        'Generated by simulating the abstract state so that operands exist; plus a stream with arbitrary operands. '
        'non-trivial = a copy/assign/swap/adopt/surrender/map-add acted on a non-empty holder or a typed assignment came from inside the holder\'s own value (A) or an option was shared by >= 2 holders (B); '
        'distinct = distinct case tuples')
TRUSTED_BASE = ['harness/h_c20.cpp instrumented payload types (identity = id stored in the object, value kept in a registry)',
                'harness/h_c20_b.cpp (second translation unit: internal-linkage types spelled like the first unit\'s; g++/libstdc++ give them equal type_info names and distinct type_info objects - self-tested at start)',
                'props/C20.py abstract-value replay and shadow ownership ledger (oracle on the implementation)',
                'operator new/delete, std::map, std::vector, std::string modelled as ideal containers',
                'tools/consts/C20.py (in-place rule parsed as an expression over sizeof(T) / sizeof(void*) into in_place(size, word) - size_t subtraction exact, + and * not wrapped; base_vtable selector, vtable tags, RefCountable initial count; declared integer type of RefCountable::refCount_ and return types of '
                'addRef/release/refCount/count mapped to LP64 ranges - static_asserts in the harness tie sizeof(short/int/long) to that table)']
ASSUMPTIONS = ['pointers handed to assimilate / ValueMap::add are non-null, allocated with new, and owned by the caller (or, for ValueMap::add, the pointer the entry already holds)',
               'payload copy constructors do not throw; in-place payload types are bitwise relocatable (ValueStore::swap moves them with std::swap of the raw word)',
               'a surrendered in-place object is destroyed by the client in place before the holder is reused',
               'a NotifiedValue is not parsed again after its map entry was replaced or the map cleared (the harness replaces the NotifiedValue then)',
               'object identity is tracked by ids, not addresses',
               'fewer than refcount_bound (= 2^31-1 for the int counter) simultaneous holders of one option, counting the transient copies a growing / returned std::vector of handles makes '
               '(2^31 handles are >= 16 GiB of pointers: exhaustion-of-memory scale); the theorems state the bound as hypothesis hist_within, c20_refcount_range_sufficient ties it to the header',
               'single-threaded use']
ALLOWED_AXIOMS = []


def variant_of(c):
    return 'p%d' % (hash(tuple(c)) % NPROC)


def norm(ty, v):
    return v % 2 if ty == 6 else v % 1000


# typed assignment `h = T(v)` (op 3) is made by the harness through an ALIAS of the holder's own current value whenever that
# value already contains an object equal to T(v): the whole value (same type, same value: h = value_cast<T>(h)) or a part of it
# (PS(v) -> its std::string member, PV(v) -> its std::vector<int> member, std::vector<int>(v) -> its first int element).
# Value semantics make that invisible: the expected result is the one of assign_val(i, ty, v) wherever the argument lives.
PART_OF = {4: 9, 5: 10, 10: 7}


def alias_kind(cur, ty, v):
    """cur = [ty, val, ..] of the holder before `h = T(v)`; -> 'self' | 'part' | None (independent argument)"""
    if cur is None or not (0 <= ty < NTY) or cur[1] != norm(ty, v):
        return None
    if cur[0] == ty:
        return 'self'
    return 'part' if PART_OF.get(cur[0]) == ty else None


# ------------------------------------------------------------------------------------------------
# decoding
# ------------------------------------------------------------------------------------------------
ARITY_A = {1: 3, 2: 2, 3: 3, 4: 2, 5: 2, 6: 1, 7: 2, 8: 1, 9: 2, 10: 1, 11: 2, 12: 2, 13: 2, 14: 1, 15: 0, 16: 2, 17: 3, 18: 3}
ARITY_B = {1: 1, 2: 2, 3: 2, 4: 1, 5: 2, 6: 2, 7: 1, 8: 3, 9: 1}
NAMES_A = {1: 'cons_val', 2: 'cons_copy', 3: 'assign_val', 4: 'assign', 5: 'swap', 6: 'clear', 7: 'new', 8: 'delete', 9: 'assimilate',
           10: 'surrender', 11: 'set', 12: 'cast', 13: 'map_add', 14: 'map_add_same', 15: 'map_clear', 16: 'map_get', 17: 'parse', 18: 'adopt_null'}
NAMES_B = {1: 'new', 2: 'assign', 3: 'copy_cons', 4: 'reset', 5: 'swap', 6: 'push', 7: 'drop', 8: 'push_n', 9: 'pool_pop_n'}
BULK_MAX = 100000    # largest k of push_n(c, i, k) / pool_pop_n(k); c == C is the client's pool of handle copies
MAX_OPS = 120


def decode_ops(l, arity):
    ops = []
    p = 0
    while p < len(l) and len(ops) < MAX_OPS:
        o = l[p]
        if o not in arity or p + 1 + arity[o] > len(l):
            break
        ops.append(tuple(l[p:p + 1 + arity[o]]))
        p += 1 + arity[o]
    return ops


def decode(c):
    """-> ('A', H, M, tys, ops) | ('B', S, C, ops) | None"""
    if len(c) < 3:
        return None
    if c[0] == 0:
        h, m = c[1], c[2]
        if not (0 <= h <= 8 and 0 <= m <= 8):
            return None
        r = c[3:]
        tys = [t % (NTY + 1) for t in r[:m]]     # 26: NotifiedValue<PBase> whose creator returns a new PDerived
        tys += [0] * (m - len(tys))
        return ('A', h, m, tys, decode_ops(r[m:], ARITY_A))
    if c[0] == 1:
        s, k = c[1], c[2]
        if not (0 <= s <= 8 and 0 <= k <= 9):
            return None
        return ('B', s, k, decode_ops(c[3:], ARITY_B))
    return None


def encode(d):
    if d[0] == 'A':
        out = [0, d[1], d[2]] + list(d[3])
        for o in d[4]:
            out += list(o)
        return out
    out = [1, d[1], d[2]]
    for o in d[3]:
        out += list(o)
    return out


def describe(c):
    d = decode(c)
    if d is None:
        return 'malformed case %r' % (c[:12],)
    if d[0] == 'A':
        return 'A H=%d M=%d name-types=%r ops=[%s]' % (d[1], d[2], d[3], ', '.join('%s(%s)' % (NAMES_A[o[0]], ','.join(map(str, o[1:]))) for o in d[4]))
    return 'B S=%d C=%d ops=[%s]' % (d[1], d[2], ', '.join('%s(%s)' % (NAMES_B[o[0]], ','.join(map(str, o[1:]))) for o in d[3]))


# ------------------------------------------------------------------------------------------------
# abstract reference for part A: values only, plus the shadow ownership ledger
# ------------------------------------------------------------------------------------------------
FRESH = 'fresh'


class RefA:
    """holders/map entries/client objects are [ty, val, who]; who = expected object id (int), FRESH, or None (not tracked: plain type)."""

    def __init__(self, H, M, tys):
        self.H, self.M, self.tys = H, M, tys
        self.h = [None] * H
        self.m = [None] * M
        self.pres = [False] * M
        self.nvb = [False] * M
        self.cl = []

    def okh(self, i):
        return 0 <= i < self.H

    def okm(self, n):
        return 0 <= n < self.M

    @staticmethod
    def cp(x):
        return None if x is None else [x[0], x[1], FRESH if x[0] in INSTR else None]

    @staticmethod
    def mkv(ty, v):
        return [ty, norm(ty, v), FRESH if ty in INSTR else None]

    def src(self, j):
        if self.okh(j):
            return True, self.h[j]
        n = j - self.H
        if self.okm(n) and self.pres[n]:
            return True, self.m[n]
        return False, None

    def step(self, o):
        """returns the expected op-specific result prefix (list) and whether the op did something non-trivial"""
        k = o[0]
        res, nt = [], False
        if k in (1, 3):
            _, i, ty, v = o
            if self.okh(i) and 0 <= ty < NTY:
                nt = k == 3 and alias_kind(self.h[i], ty, v) is not None     # assignment from inside the holder's own value
                self.h[i] = self.mkv(ty, v)
        elif k in (2, 4):
            _, i, j = o
            if self.okh(i):
                ok, s = self.src(j)
                if ok:
                    nt = s is not None
                    self.h[i] = self.cp(s)
        elif k == 5:
            _, i, j = o
            if self.okh(i) and self.okh(j):
                nt = (self.h[i] is not None or self.h[j] is not None) and i != j
                self.h[i], self.h[j] = self.h[j], self.h[i]
        elif k == 6:
            if self.okh(o[1]):
                self.h[o[1]] = None
        elif k == 7:
            _, ty, v = o
            if 0 <= ty < NTY or ty == ADOPT_DERIVED:
                self.cl.append(self.mkv(static_ty(ty), v))      # 26: a PDerived object owned (and later adopted) as PBase
        elif k == 8:
            if 0 <= o[1] < len(self.cl):
                del self.cl[o[1]]
        elif k == 9:
            _, i, kk = o
            if self.okh(i) and 0 <= kk < len(self.cl):
                nt = True
                self.h[i] = self.cl.pop(kk)
        elif k == 10:
            i = o[1]
            if self.okh(i) and self.h[i] is not None:
                nt = True
                x = self.h[i]
                self.h[i] = None
                self.pending_surrender = x      # goes to the client iff it was on the heap (decided from the dump)
        elif k == 11:
            _, i, v = o
            if self.okh(i) and self.h[i] is not None:
                self.h[i][1] = norm(self.h[i][0], v)
        elif k == 12:
            _, i, ty = o
            if self.okh(i):
                x = self.h[i]
                res = [1, x[1]] if (x is not None and x[0] == ty) else [0, 0]
                nt = x is not None and NEAR.get(x[0]) == ty      # read through the other translation unit's type of the same name / the other class of the polymorphic pair
        elif k == 13:
            _, n, kk = o
            if self.okm(n) and 0 <= kk < len(self.cl):
                nt = True
                self.m[n] = self.cl.pop(kk)
                self.pres[n] = True
                self.nvb[n] = False
        elif k == 14:
            n = o[1]
            if self.okm(n) and self.pres[n] and self.m[n] is not None:
                nt = True                      # nothing may change
        elif k == 15:
            self.m = [None] * self.M
            self.pres = [False] * self.M
            self.nvb = [False] * self.M
        elif k == 16:
            _, n, ty = o
            if self.okm(n):
                if self.pres[n]:
                    x = self.m[n]
                    res = [1, 1, x[1]] if (x is not None and x[0] == ty) else [1, 0, 0]
                    nt = x is not None and NEAR.get(x[0]) == ty
                else:
                    res = [0, 0, 0]
        elif k == 17:
            _, n, v, ok = o
            if self.okm(n):
                if ok == 0:
                    res = [0]
                else:
                    res = [1]
                    if self.nvb[n]:
                        self.m[n][1] = norm(self.m[n][0], v)      # same object, new value, no re-adoption
                    else:
                        self.m[n] = self.mkv(static_ty(self.tys[n]), v)
                        self.pres[n] = True
                        self.nvb[n] = True
                    nt = True
        elif k == 18:
            # h[i].assimilate((T*)0): non-empty, type T, no object - printed inside the op - then cleared / surrendered / destroyed / assigned an empty holder
            _, i, ty, how = o
            if self.okh(i) and (0 <= ty < NTY or ty == ADOPT_DERIVED):
                res = [1, static_ty(ty), 1]
                self.h[i] = None
                nt = True
        return res, nt


def oracle_a(d, obs):
    _, H, M, tys, ops = d
    ref = RefA(H, M, tys)
    sig = []
    p = 0
    seen = set()         # ids that have been observed as owned/live so far (a fresh object may not reuse them)
    prev_dtor = 0

    def take(k):
        nonlocal p
        v = obs[p:p + k]
        p += k
        return v

    def chk_obj(exp, got_ty, got_val, got_id, what):
        """compare one owner slot; binds FRESH ids; returns the id (or None)"""
        if exp is None:
            if got_ty != -1:
                sig.append('typed:%s-should-be-empty' % what)
            return None
        if got_ty != exp[0]:
            sig.append('typed:%s-type-differs' % what)
            return None
        if got_val != exp[1]:
            sig.append('typed:%s-value-differs' % what)
        if exp[0] in INSTR:
            if exp[2] == FRESH:
                if got_id in seen:
                    sig.append('independent:%s-copy-is-not-a-new-object' % what)
                exp[2] = got_id
            elif exp[2] != got_id:
                sig.append('once:%s-holds-another-object' % what)
            return got_id
        if got_id != -1:
            sig.append('harness:id-for-plain-type')
        return None

    for o in ops:
        ref.pending_surrender = None
        res, _ = ref.step(o)
        if res:
            if take(len(res)) != res:
                sig.append({12: 'typed:cast-result-differs', 16: 'typed:map-lookup-differs', 17: 'valuemap:parse-result-differs', 18: 'typed:null-adoption-not-a-typed-holder-without-object'}[o[0]])
                break
        # ---- state dump ----
        owned = []
        hd = [take(4) for _ in range(H)]
        if len(hd) != H or any(len(x) != 4 for x in hd):
            sig.append('harness:short-observation')
            break
        if ref.pending_surrender is not None:
            # a surrendered heap object now belongs to the client; an in-place one was destroyed by the client
            pass
        for i in range(H):
            ty, val, inp, oid = hd[i]
            r = chk_obj(ref.h[i], ty, val, oid, 'holder')
            if inp == 1 and SIZE_OF.get(ty, 0) > WORD:
                # the holder has ONE word of storage: an object reported to live in it (extract_raw() == &value_) must fit
                sig.append('typed:value-stored-in-place-is-larger-than-the-holder-word')
            if r is not None:
                owned.append(r)
        for n in range(M):
            x = take(6)
            if len(x) != 6:
                sig.append('harness:short-observation')
                break
            if x[0] != (1 if ref.pres[n] else 0):
                sig.append('valuemap:presence-differs')
            if x[1] != (1 if ref.nvb[n] else 0):
                sig.append('valuemap:notified-value-binding-differs')
            r = chk_obj(ref.m[n], x[2], x[3], x[5], 'map-entry')
            if r is not None:
                owned.append(r)
            if ref.m[n] is not None and x[4] != 0:
                sig.append('valuemap:adopted-object-stored-in-place')
        ncl = take(1)
        if not ncl:
            sig.append('harness:short-observation')
            break
        ncl = ncl[0]
        if ref.pending_surrender is not None:
            # decide from the client count whether the object was handed out
            if ncl == len(ref.cl) + 1:
                ref.cl.append(ref.pending_surrender)
            elif ref.pending_surrender[0] in HEAP_TYPES:
                sig.append('once:surrendered-heap-object-not-handed-out')
        if ncl != len(ref.cl):
            sig.append('once:client-pool-differs')
            break
        for k in range(ncl):
            x = take(3)
            r = chk_obj(ref.cl[k], x[0], x[1], x[2], 'client-object')
            if r is not None:
                owned.append(r)
        nl = take(1)[0]
        live = take(nl)
        dtor, ctor, err = (take(3) + [None] * 3)[:3]
        if err is None:
            sig.append('harness:short-observation')
            break
        if err != 0:
            sig.append(ERR_SIG.get(err, 'harness:id-space-exhausted'))
        if len(set(owned)) != len(owned):
            sig.append('once:object-owned-twice')
        if sorted(owned) != live:
            extra = set(live) - set(owned)
            sig.append('once:live-object-without-owner' if extra else 'once:owner-of-destroyed-object')
        if dtor != ctor - nl:
            sig.append('once:destructor-count-differs')
        if dtor < prev_dtor:
            sig.append('harness:destructor-count-decreased')
        prev_dtor = dtor
        seen.update(live)
        if sig:
            break
    if not sig:
        nl = take(1)
        if not nl:
            return ['harness:short-observation']
        live = take(nl[0])
        tail = take(4)
        if len(tail) != 4 or p != len(obs):
            return ['harness:short-observation']
        dtor, ctor, err, leak = tail
        cl_ids = sorted(x[2] for x in ref.cl if x[0] in INSTR and isinstance(x[2], int))
        if err != 0:
            sig.append(ERR_SIG.get(err, 'harness:id-space-exhausted'))
        if live != cl_ids:
            sig.append('once:not-destroyed-with-last-holder' if set(live) - set(cl_ids) else 'once:client-object-destroyed')
        if dtor != ctor - len(live):
            sig.append('once:destructor-count-differs')
        if leak == 1:
            sig.append('once:leak-reported-by-LeakSanitizer')
        elif leak not in (0, 2):       # 2 = an earlier case of the same process leaked; this one cannot be judged by LSan
            sig.append('harness:bad-leak-flag')
    return sig


# ------------------------------------------------------------------------------------------------
# part B reference
# ------------------------------------------------------------------------------------------------
def oracle_b(d, obs):
    """shadow count: who holds which option (variables, containers as multisets, the pool as a stack of runs); after every operation the
    implementation must report, per option, alive iff held, refCount() == number of holders, destroyed once iff not held, and per
    variable count() == number of holders of the option it points to"""
    _, S, C, ops = d
    slots = [None] * S
    conts = [dict() for _ in range(C)]      # option id -> number of handles in the container
    pool = []                               # [option id, number of handles], newest run last
    nopt = 0
    sig = []
    p = 0

    def take(k):
        nonlocal p
        v = obs[p:p + k]
        p += k
        return v

    def check(gone):
        refs = {}
        if not gone:
            for x in slots:
                if x is not None:
                    refs[x] = refs.get(x, 0) + 1
            for c in conts:
                for x, n in c.items():
                    refs[x] = refs.get(x, 0) + n
            for x, n in pool:
                refs[x] = refs.get(x, 0) + n
        for k in range(nopt):
            x = take(3)
            if len(x) != 3:
                sig.append('harness:short-observation')
                return
            n = refs.get(k, 0)
            if n > 0:
                if x[0] != 1 or x[2] != 0:
                    sig.append('refcount:option-destroyed-while-held')
                elif x[1] != n:
                    sig.append('refcount:count-differs-from-number-of-holders')
            else:
                if x[0] != 0:
                    sig.append('refcount:option-outlives-last-holder')
                elif x[2] != 1:
                    sig.append('refcount:option-destroyed-more-than-once')
        exp_p = []
        for x in slots:
            exp_p += [-1, 0] if (gone or x is None) else [x, refs[x]]
        exp_c = [(0 if gone else sum(c.values())) for c in conts] + [0 if gone else sum(n for _, n in pool)]
        got = take(2 * S + C + 2)
        if got != exp_p + exp_c + [0]:
            if got[0:2 * S:2] != exp_p[0::2]:
                sig.append('refcount:pointer-differs')
            elif got[:2 * S] != exp_p:
                sig.append('refcount:option-destroyed-while-held' if -1 in got[1:2 * S:2] else 'refcount:count-differs-from-number-of-holders')
            elif got[2 * S:2 * S + C + 1] != exp_c:
                sig.append('refcount:container-size-differs')
            else:
                sig.append('refcount:integrity')

    for o in ops:
        k = o[0]
        okp = lambda i: 0 <= i < S
        okc = lambda c: 0 <= c < C
        if k == 1:
            if okp(o[1]):
                slots[o[1]] = nopt
                nopt += 1
        elif k in (2, 3):
            if okp(o[1]) and okp(o[2]):
                slots[o[1]] = slots[o[2]]
        elif k == 4:
            if okp(o[1]):
                slots[o[1]] = None
        elif k == 5:
            if okp(o[1]) and okp(o[2]):
                slots[o[1]], slots[o[2]] = slots[o[2]], slots[o[1]]
        elif k == 6:
            c, i = o[1], o[2]
            if okc(c) and okp(i) and slots[i] is not None:
                x = slots[i]
                if c % 3 == 2:
                    if conts[c].get(x, 0) == 0:
                        conts[c][x] = 2
                else:
                    conts[c][x] = conts[c].get(x, 0) + 1
        elif k == 7:
            if okc(o[1]):
                conts[o[1]] = dict()
        elif k == 8:
            c, i, n = o[1], o[2], o[3]
            if (okc(c) or c == C) and okp(i) and 0 <= n <= BULK_MAX and slots[i] is not None:
                x = slots[i]
                if c == C:
                    if n:
                        pool.append([x, n])
                elif c % 3 == 2:
                    if n and conts[c].get(x, 0) == 0:
                        conts[c][x] = 2
                elif n:
                    conts[c][x] = conts[c].get(x, 0) + n
        elif k == 9:
            n = o[1]
            if 0 <= n <= BULK_MAX:
                while n and pool:
                    t = min(n, pool[-1][1])
                    pool[-1][1] -= t
                    n -= t
                    if pool[-1][1] == 0:
                        pool.pop()
        check(False)
        if sig:
            return sig
    check(True)
    if not sig:
        t = take(1)
        if t not in ([0], [2]) or p != len(obs):
            sig.append('refcount:option-outlives-last-holder' if t == [1] else 'harness:short-observation')
    return sig


def obs_equal(c, impl, model):
    """the trailing LeakSanitizer flag 2 (process already reported a leak for an earlier case) matches anything"""
    return bool(impl) and bool(model) and impl[-1] == 2 and impl[:-1] == model[:-1]


def oracle(c, obs):
    d = decode(c)
    if d is None:
        return [] if obs == [-999] else ['harness:malformed-case-not-rejected']
    if obs and obs[0] in (-999, -998, -997):
        return ['harness:exception-or-rejected-case:%d' % obs[0]]
    try:
        return (oracle_a if d[0] == 'A' else oracle_b)(d, obs)
    except (IndexError, TypeError):
        return ['harness:short-observation']


def nontrivial(c, obs):
    d = decode(c)
    if d is None:
        return False
    if d[0] == 'A':
        ref = RefA(d[1], d[2], d[3])
        for o in d[4]:
            ref.pending_surrender = None
            _, nt = ref.step(o)
            if nt:
                return True
        return False
    for o in d[3]:
        if o[0] in (2, 3, 6, 8):
            return True
    return False


# ------------------------------------------------------------------------------------------------
# generators
# ------------------------------------------------------------------------------------------------
def alias_op(ref, rnd, ne):
    """assign_val that the harness performs through an alias of holder i's current value (whole value or a part of it)"""
    i = rnd.choice(ne)
    ty, v = ref.h[i][0], ref.h[i][1]
    if ty in PART_OF and rnd.random() < 0.5:
        return (3, i, PART_OF[ty], v)
    return (3, i, ty, v)


def gen_a(rnd, flavour):
    H = rnd.choice([1, 2, 2, 3, 4])
    M = rnd.choice([0, 1, 2, 3]) if flavour != 'nomap' else 0
    tys = [rnd.choice(TWIN_TYPES) if flavour == 'twin' and rnd.random() < 0.7 else
           rnd.choice((ADOPT_DERIVED, ADOPT_DERIVED, P_BASE, P_DERIVED)) if flavour == 'poly' and rnd.random() < 0.7 else rnd.randrange(NTY + 1) for _ in range(M)]
    ref = RefA(H, M, tys)
    nops = rnd.randint(3, 30)
    ops = []
    if flavour == 'instr':
        pick_ty = lambda: rnd.choice([0, 1, 2, 3, 4, 5, 11, 12, 13])
    elif flavour == 'mixrep':
        pick_ty = lambda: rnd.choice([0, 2, 3, 4, 6, 9, 12, 15, 17])
    elif flavour == 'odd':
        # sizes between one and two words (9, 12, 15; instrumented and plain) against the controls of exactly one / two words and an in-place int
        pick_ty = lambda: rnd.choice([11, 12, 12, 13, 14, 14, 15, 2, 8, 17, 3, 16, 7])
    elif flavour == 'twin':
        # the two translation units' types of the same spelling against each other (and a few ordinary types)
        pick_ty = lambda: rnd.choice(TWIN_TYPES + TWIN_TYPES + (7, 9, 2, 12))
    elif flavour == 'poly':
        # the polymorphic pair (stored by value) against a few ordinary types; `new` mostly creates a PDerived owned through a PBase* (26)
        pick_ty = lambda: rnd.choice((P_BASE, P_DERIVED, P_BASE, P_DERIVED, 7, 9, 2, 12))
    elif flavour == 'alias':
        # every representation; the types with a part that is itself a payload type (PS, PV, vector<int>) more often
        pick_ty = lambda: rnd.choice([0, 1, 2, 3, 4, 4, 5, 5, 6, 7, 7, 8, 9, 9, 10, 10, 10, 11, 12, 13, 14, 15, 16, 17])
    else:
        pick_ty = lambda: rnd.randrange(NTY)
    # type of a client object: sometimes (flavour poly: mostly) a PDerived object owned through a PBase* - whoever adopts it adopts a PBase
    new_ty = lambda: ADOPT_DERIVED if rnd.random() < (0.55 if flavour == 'poly' else 0.08) else pick_ty()
    near_p = 0.6 if flavour in ('twin', 'poly') else 0.35
    for _ in range(nops):
        r = rnd.random()
        ne = [i for i in range(H) if ref.h[i] is not None]
        hi = lambda: rnd.randrange(H)
        if flavour == 'alias' and ne and rnd.random() < 0.3:
            o = alias_op(ref, rnd, ne)
        elif r < 0.12:
            if ne and rnd.random() < 0.25:
                o = alias_op(ref, rnd, ne)
            elif ne and rnd.random() < 0.15:
                # same type as the current value, another value: an independent argument of the held type
                i = rnd.choice(ne)
                o = (3, i, ref.h[i][0], rnd.randrange(1000))
            else:
                o = (rnd.choice([1, 3]), hi(), pick_ty(), rnd.randrange(1000))
        elif r < 0.26:
            # copy / assign from a non-empty holder (or map entry), sometimes self, sometimes empty source
            if rnd.random() < 0.2:
                i = hi()
                o = (4, i, i)
            else:
                srcs = ne + [H + n for n in range(M) if ref.pres[n]]
                j = rnd.choice(srcs) if srcs and rnd.random() < 0.85 else rnd.randrange(H + M)
                o = (rnd.choice([2, 4, 4]), hi(), j)
        elif r < 0.36:
            # swap, preferring in-place <-> heap, empty <-> full
            i, j = hi(), hi()
            if len(ne) >= 2 and rnd.random() < 0.6:
                inp = [x for x in ne if ref.h[x][0] in INPLACE_TYPES]
                hp = [x for x in ne if ref.h[x][0] in HEAP_TYPES]
                if inp and hp:
                    i, j = rnd.choice(inp), rnd.choice(hp)
                    if rnd.random() < 0.5:
                        i, j = j, i
            o = (5, i, j)
        elif r < 0.42:
            if rnd.random() < 0.4:
                # adopt a null pointer (of a tracked type, of the polymorphic base for tag 26), then leave that state in one of four ways
                o = (18, rnd.choice(ne) if ne and rnd.random() < 0.6 else hi(), new_ty(), rnd.randrange(4))
            else:
                o = (6, rnd.choice(ne) if ne and rnd.random() < 0.8 else hi())
        elif r < 0.52:
            o = (7, new_ty(), rnd.randrange(1000))
        elif r < 0.56:
            o = (8, rnd.randrange(len(ref.cl)) if ref.cl else 0)
        elif r < 0.66:
            if ref.cl:
                o = (9, hi(), rnd.randrange(len(ref.cl)))
            else:
                o = (7, new_ty(), rnd.randrange(1000))
        elif r < 0.73:
            o = (10, rnd.choice(ne) if ne and rnd.random() < 0.85 else hi())
        elif r < 0.79:
            o = (11, rnd.choice(ne) if ne and rnd.random() < 0.85 else hi(), rnd.randrange(1000))
        elif r < 0.86 or M == 0:
            i = rnd.choice(ne) if ne and flavour in ('twin', 'poly') else hi()
            cur = ref.h[i][0] if ref.h[i] is not None else None
            if cur in NEAR and rnd.random() < near_p:
                ty = NEAR[cur]           # the other unit's type of the same name / the other class of the polymorphic pair: must be refused like any other type
            else:
                ty = cur if cur is not None and rnd.random() < 0.5 else rnd.randrange(-1, NTY)
            o = (12, i, ty)
        else:
            n = rnd.randrange(M)
            q = rnd.random()
            if q < 0.25:
                if ref.cl:
                    o = (13, n, rnd.randrange(len(ref.cl)))
                else:
                    o = (7, new_ty(), rnd.randrange(1000))
            elif q < 0.45:
                o = (14, n)
            elif q < 0.5:
                o = (15,)
            elif q < 0.65:
                cur = ref.m[n][0] if ref.m[n] is not None else None
                if cur in NEAR and rnd.random() < 0.4:
                    ty = NEAR[cur]
                else:
                    ty = cur if cur is not None and rnd.random() < 0.6 else rnd.randrange(NTY)
                o = (16, n, ty)
            else:
                o = (17, n, rnd.randrange(1000), 0 if rnd.random() < 0.25 else 1)
        ref.pending_surrender = None
        ref.step(o)
        if o[0] == 10 and ref.pending_surrender is not None and ref.pending_surrender[0] in HEAP_TYPES + tuple():
            ref.cl.append(ref.pending_surrender)
        elif o[0] == 10 and ref.pending_surrender is not None:
            # adopted small objects are on the heap as well; the generator does not track the representation,
            # it only needs an upper bound of the pool size -> keep the pool as is (indices stay valid)
            pass
        ops.append(o)
    return encode(('A', H, M, tys, ops))


def gen_a_wild(rnd):
    H, M = rnd.randint(0, 3), rnd.randint(0, 3)
    tys = [rnd.randint(-3, 30) for _ in range(M)]
    ops = []
    for _ in range(rnd.randint(1, 25)):
        k = rnd.randint(1, 18)
        ops.append(tuple([k] + [rnd.choice([-1, 0, 0, 1, 1, 2, 3, 5, 11, 12, 14, 17, 18, 20, 21, 23, 24, 25, 26, 27, 999, 1000, 1001]) for _ in range(ARITY_A[k])]))
    c = [0, H, M] + tys
    for o in ops:
        c += list(o)
    return c


def gen_b(rnd):
    S, C = rnd.choice([1, 2, 3, 4]), rnd.choice([0, 1, 3, 6])
    ops = []
    for _ in range(rnd.randint(2, 30)):
        r = rnd.random()
        pi = lambda: rnd.randrange(S)
        if r < 0.2:
            ops.append((1, pi()))
        elif r < 0.45:
            i = pi()
            ops.append((rnd.choice([2, 3]), i, i if rnd.random() < 0.2 else pi()))
        elif r < 0.55:
            ops.append((4, pi()))
        elif r < 0.65:
            ops.append((5, pi(), pi()))
        elif r < 0.82 and C:
            ops.append((6, rnd.randrange(C), pi()))
        elif r < 0.88:
            # several holders at once: a container or (index C) the client's pool of handle copies; a few k outside 0..BULK_MAX (no-op)
            ops.append((8, rnd.choice([C, C, rnd.randrange(C + 1)]), pi(), rnd.choice([0, 1, 2, 3, 3, 7, 16, 40, 129, -1, BULK_MAX + 1])))
        elif r < 0.92:
            ops.append((9, rnd.choice([0, 1, 1, 2, 3, 5, 17, 200, -1, BULK_MAX + 1])))
        elif C:
            ops.append((7, rnd.randrange(C)))
        else:
            ops.append((1, pi()))
    return encode(('B', S, C, ops))


# MAGNITUDE: one option with k further holders at once, k around 2^8, 2^15, 2^16 (+-1) and 70000 - the counter must count them all
# (RefCountable::refCount_ and what addRef/release/refCount/count return), the option must survive every drop but the last.
MAGNITUDES = [255, 256, 257, 32767, 32768, 32769, 65533, 65534, 65535, 65536, 65537, 70000]


def gen_magnitude():
    out = []
    for k in MAGNITUDES:
        # the client's pool (C = 3): group + context (2 handles) + variable hold the option too; handles dropped one by one / in blocks
        out.append(([1, 2, 3, 1, 0, 6, 0, 0, 6, 2, 0, 8, 3, 0, k, 9, 1, 9, 5, 2, 1, 0, 9, k // 2, 9, BULK_MAX, 4, 0, 7, 2, 7, 0, 4, 1], 'magnitude-pool'))
        # a ParsedValues object with k entries for one option (one parse of a generated config text / command line with k occurrences,
        # or k direct adds; the harness picks by k), registered in a context; the parse result goes away first, then variable and context
        out.append(([1, 2, 3, 1, 0, 6, 2, 0, 8, 1, 0, k, 2, 1, 0, 7, 1, 4, 0, 7, 2, 4, 1], 'magnitude-parsed-values'))
        out.append(([1, 1, 3, 1, 0, 8, 1, 0, k + 1, 4, 0, 7, 1], 'magnitude-parsed-values'))
        out.append(([1, 1, 3, 1, 0, 8, 1, 0, k + 2, 6, 1, 0, 7, 1, 4, 0], 'magnitude-parsed-values'))
        # an OptionGroup that lists the option k times, the variable goes first
        out.append(([1, 1, 1, 1, 0, 8, 0, 0, k, 4, 0, 7, 0], 'magnitude-group'))
    # two options in the pool, the newest handles go first; a context registers the option once however often it is added
    out.append(([1, 2, 3, 1, 0, 1, 1, 8, 3, 0, 65536, 8, 3, 1, 300, 9, 301, 8, 2, 1, 300, 9, 65535, 4, 0, 4, 1, 7, 2], 'magnitude-pool-two-options'))
    out.append(([1, 2, 0, 1, 0, 8, 0, 0, 40000, 8, 0, 0, 30000, 3, 1, 0, 9, 4465, 4, 0, 9, 65534, 9, 1, 4, 1], 'magnitude-pool-two-runs'))
    return out


def gen_b_parse(rnd):
    """part B histories around the parser: options registered in context containers, then handed to ParsedValues containers (the harness
    obtains that handle from a real parse with --no-<name> lines around it), then every holder dropped in a generated order"""
    S, C = rnd.choice([1, 2, 3, 4]), rnd.choice([3, 3, 6])
    ctxs = [c for c in range(C) if c % 3 == 2]
    pvs = [c for c in range(C) if c % 3 == 1]
    ops = []
    pi = lambda: rnd.randrange(S)
    for i in range(S):
        if rnd.random() < 0.85:
            ops.append((1, i))
    for _ in range(rnd.randint(2, 16)):
        r = rnd.random()
        if r < 0.12:
            ops.append((1, pi()))
        elif r < 0.30:
            ops.append((6, rnd.choice(ctxs), pi()))
        elif r < 0.70:
            ops.append((6, rnd.choice(pvs), pi()))
        elif r < 0.76:
            ops.append((6, rnd.randrange(C), pi()))
        elif r < 0.84:
            ops.append((rnd.choice([2, 3, 5]), pi(), pi()))
        elif r < 0.92:
            ops.append((4, pi()))
        else:
            ops.append((7, rnd.randrange(C)))
    tail = [(4, i) for i in range(S)] + [(7, c) for c in range(C)]
    rnd.shuffle(tail)
    ops += tail[:rnd.randint(0, len(tail))]
    return encode(('B', S, C, ops))


FIXED = [
    # self assignment / self swap on every representation
    ([0, 1, 0, 1, 0, 0, 7, 4, 0, 0, 5, 0, 0, 12, 0, 0], 'fixed-self-assign-inplace'),
    ([0, 1, 0, 1, 0, 4, 7, 4, 0, 0, 5, 0, 0, 12, 0, 4], 'fixed-self-assign-heap'),
    # swap in-place <-> heap, then clear both
    ([0, 2, 0, 1, 0, 0, 7, 1, 1, 4, 9, 5, 0, 1, 12, 0, 4, 12, 1, 0, 6, 0, 6, 1], 'fixed-swap-inplace-heap'),
    ([0, 2, 0, 3, 0, 6, 1, 3, 1, 9, 55, 5, 0, 1, 5, 1, 0, 5, 0, 0], 'fixed-swap-bool-string'),
    # surrender then reuse, in place and heap
    ([0, 1, 0, 1, 0, 2, 5, 10, 0, 3, 0, 3, 6, 10, 0, 3, 0, 0, 1, 9, 0, 0], 'fixed-surrender-reuse'),
    # adopt a small object (heap vtable for an in-place sized type), copy it, surrender the copy
    ([0, 2, 0, 7, 0, 9, 9, 0, 0, 4, 1, 0, 10, 1, 11, 0, 5, 12, 1, 0], 'fixed-adopt-small-copy'),
    # value map: new, same pointer, other pointer, lookup, clear
    ([0, 1, 2, 4, 6, 7, 4, 1, 13, 0, 0, 14, 0, 14, 0, 7, 5, 2, 13, 0, 0, 16, 0, 5, 16, 1, 0, 4, 0, 1, 15], 'fixed-valuemap'),
    # notified value: reject, accept, accept again (same pointer), then another value registered by the client
    ([0, 1, 1, 4, 17, 0, 3, 0, 17, 0, 4, 1, 17, 0, 5, 1, 17, 0, 6, 0, 14, 0, 7, 4, 9, 13, 0, 0, 17, 0, 8, 1], 'fixed-notified-value'),
    ([0, 1, 2, 6, 9, 17, 0, 1, 1, 17, 1, 77, 1, 17, 0, 0, 1, 4, 0, 1, 4, 0, 2, 15, 17, 1, 5, 1], 'fixed-notified-plain'),
    # options shared by group, parsed values and context, dropped in every order
    ([1, 2, 3, 1, 0, 6, 0, 0, 6, 1, 0, 6, 2, 0, 6, 2, 0, 4, 0, 7, 0, 7, 1, 7, 2], 'fixed-share-drop-order'),
    ([1, 2, 3, 1, 0, 2, 1, 0, 2, 0, 0, 3, 1, 1, 5, 0, 1, 5, 0, 0, 4, 0, 4, 1], 'fixed-self-assign-sharedptr'),
    ([1, 1, 6, 1, 0, 6, 0, 0, 6, 3, 0, 6, 4, 0, 6, 5, 0, 6, 5, 0, 1, 0, 7, 5, 7, 0, 7, 3, 7, 4], 'fixed-many-containers'),
    # a ParsedValues container takes its handle from a real parse (harness pushParsed: --no-<name> noise around it), holders dropped in several orders
    ([1, 1, 3, 1, 0, 6, 2, 0, 6, 1, 0, 4, 0, 7, 2, 7, 1], 'fixed-parse-holder-context'),
    ([1, 1, 3, 1, 0, 6, 1, 0, 4, 0, 7, 1], 'fixed-parse-holder-temporary-context'),
    ([1, 1, 3, 1, 0, 6, 1, 0, 7, 1, 4, 0], 'fixed-parse-holder-temporary-context'),
    ([1, 2, 3, 1, 0, 1, 1, 6, 2, 0, 6, 2, 1, 6, 1, 1, 6, 1, 0, 7, 2, 4, 0, 4, 1, 7, 1], 'fixed-parse-holder-negatable'),
    ([1, 2, 3, 1, 0, 1, 1, 6, 2, 0, 6, 2, 1, 6, 1, 0, 6, 1, 1, 6, 1, 0, 4, 1, 7, 1, 7, 2, 4, 0], 'fixed-parse-holder-negatable'),
]


def alias_fixed():
    out = []
    for t in range(NTY):
        v = 101 + 2 * t          # odd: bool stores true
        # store T(v); h = value_cast<T>(h); cast; copy-construct another holder from it; clear the first; cast the copy
        out.append(([0, 2, 0, 3, 0, t, v, 3, 0, t, v, 12, 0, t, 2, 1, 0, 6, 0, 12, 1, t], 'alias-assign-fixed-self'))
        # the same on an adopted object (heap table also for in-place sized types): new, assimilate, h = value_cast<T>(h)
        out.append(([0, 1, 0, 7, t, v, 9, 0, 0, 3, 0, t, v, 12, 0, t, 4, 0, 0, 12, 0, t], 'alias-assign-fixed-adopted'))
        # after a swap (an in-place object was relocated bitwise), on both sides
        u = (t + 4) % NTY
        out.append(([0, 2, 0, 3, 0, t, v, 3, 1, u, v + 1, 5, 0, 1, 3, 1, t, v, 3, 0, u, v + 1, 12, 0, u, 12, 1, t], 'alias-assign-fixed-swapped'))
    # narrowing to a part of the stored value: PS -> std::string -> itself; PV -> vector<int> -> int -> itself
    out.append(([0, 1, 0, 3, 0, 4, 333, 3, 0, 9, 333, 12, 0, 9, 3, 0, 9, 333, 12, 0, 9, 12, 0, 4], 'alias-assign-fixed-part'))
    out.append(([0, 1, 0, 3, 0, 5, 444, 3, 0, 10, 444, 12, 0, 10, 3, 0, 7, 444, 12, 0, 7, 3, 0, 7, 444, 12, 0, 7, 12, 0, 5], 'alias-assign-fixed-part'))
    out.append(([0, 2, 0, 1, 0, 5, 77, 2, 1, 0, 3, 0, 10, 77, 3, 1, 10, 77, 3, 1, 7, 77, 12, 0, 10, 12, 1, 7], 'alias-assign-fixed-part'))
    return out


def odd_fixed():
    """one history per type whose size lies between one and two words (9, 12, 15 bytes; instrumented and plain) and per control of exactly
    one / two words: typed construction, copy construction, swap with an in-place int, holder assignment, self assignment, write through
    value_cast, typed assignment over another type, swap of two such values, surrender + re-adopt, clear - the value is read after every step"""
    out = []
    for t in ODD_TYPES + (2, 8, 17, 3, 16):
        v = 300 + 7 * t
        out.append(([0, 3, 0, 1, 0, t, v, 2, 1, 0, 3, 2, 7, 5, 5, 0, 2, 12, 2, t, 4, 0, 1, 4, 1, 1, 11, 1, v + 1, 12, 1, t, 12, 0, t,
                     3, 2, t, v + 2, 5, 1, 2, 12, 1, t, 10, 0, 9, 0, 0, 12, 0, t, 2, 2, 0, 6, 1, 6, 2, 6, 0], 'odd-size-fixed'))
        # typed operator= over a held value of every representation, then copies of copies
        out.append(([0, 3, 0, 3, 0, 9, 77, 3, 0, t, v, 3, 1, 6, 1, 3, 1, t, v + 1, 4, 2, 0, 4, 0, 1, 2, 1, 2, 12, 0, t, 12, 1, t, 12, 2, t, 5, 0, 1, 5, 2, 2], 'odd-size-fixed'))
    return out


def twin_fixed():
    """the two translation units' types of the same spelling (t, u = TWIN[t]; both directions, in place / 12 bytes / heap): a value of
    type t reaches a holder in every way the case alphabet has - typed construction, typed assignment, copy construction, holder
    assignment, swap, adoption, surrender + re-adoption, ValueMap::add, NotifiedValue::parse, copy out of the map - and after each of
    them the holder is read through u (must be refused) and through t (must yield the value); then u is stored over it and read through t"""
    out = []
    for t in TWIN_TYPES:
        u = TWIN[t]
        v = 40 + 3 * t
        both = lambda i: [12, i, u, 12, i, t]
        out.append(([0, 2, 0, 1, 0, t, v] + both(0) + [2, 1, 0] + both(1) + [3, 1, u, v + 1] + both(1) + [5, 0, 1] + both(0) + both(1)
                    + [4, 0, 1] + both(0) + [4, 0, 0, 5, 1, 1] + both(0) + both(1) + [11, 1, v + 2] + both(1) + [6, 0] + both(0), 'same-name-fixed-store-copy-swap'))
        out.append(([0, 1, 0, 7, t, v, 9, 0, 0] + both(0) + [10, 0] + both(0) + [9, 0, 0] + both(0) + [7, u, v + 1, 9, 0, 0] + both(0), 'same-name-fixed-adopted'))
        out.append(([0, 1, 1, t, 17, 0, v, 1, 16, 0, u, 16, 0, t, 4, 0, 1] + both(0) + [7, u, v + 1, 13, 0, 0, 16, 0, t, 16, 0, u, 14, 0, 16, 0, t, 2, 0, 1] + both(0)
                    + [17, 0, v + 2, 1, 16, 0, u, 16, 0, t, 15], 'same-name-fixed-map'))
        # typed assignment of T(v) over a holder that holds the OTHER unit's type with the same value (the harness looks for an alias through value_cast<T>)
        out.append(([0, 1, 0, 3, 0, t, v, 3, 0, u, v] + both(0) + [3, 0, u, v, 3, 0, t, v] + both(0) + [3, 0, t, v] + both(0), 'same-name-fixed-assign-over'))
    return out


def poly_fixed():
    """the polymorphic pair PBase (24) / PDerived : PBase (25) and the pseudo-tag 26 = a PDerived object owned through a PBase*: such an object
    reaches a holder in every adopting way the alphabet has (assimilate, ValueMap::add, NotifiedValue<PBase> with a creator that returns a new
    PDerived) and the holder is then copied / assigned / swapped / written / surrendered / re-adopted / cleared; after each step it is read
    through PBase (must yield the value: PBase is the type stored) and through PDerived (never stored: must be refused)"""
    B, D, A = P_BASE, P_DERIVED, ADOPT_DERIVED
    both = lambda i: [12, i, B, 12, i, D]
    mboth = lambda n: [16, n, B, 16, n, D]
    out = []
    for v in (5, 412):
        out.append(([0, 3, 0, 7, A, v, 9, 0, 0] + both(0) + [2, 1, 0] + both(1) + [4, 2, 0] + both(2) + [11, 0, v + 1] + both(0) + [4, 0, 0] + both(0)
                    + [5, 0, 1] + both(0) + both(1) + [3, 1, B, v + 1] + both(1) + [10, 0, 9, 0, 0] + both(0) + [6, 1, 6, 0, 6, 2], 'poly-fixed-adopt-copy-swap'))
        out.append(([0, 2, 0, 7, A, v, 9, 0, 0, 10, 0] + both(0) + [9, 1, 0] + both(1) + [2, 0, 1] + both(0) + [10, 1, 8, 0] + both(0), 'poly-fixed-surrender-readopt'))
        out.append(([0, 2, 2, A, B, 17, 0, v, 1] + mboth(0) + [17, 0, v + 1, 1] + mboth(0) + [4, 0, 2] + both(0) + [7, A, v + 2, 13, 1, 0] + mboth(1) + [14, 1] + mboth(1)
                    + [7, A, v + 3, 13, 0, 0] + mboth(0) + [2, 1, 3] + both(1) + [17, 0, v + 4, 0, 17, 0, v + 4, 1] + mboth(0) + [17, 1, v + 5, 1] + mboth(1) + [15], 'poly-fixed-map'))
        # genuine PBase, genuine PDerived (adopted / stored by value AS PDerived: type 25) and the PDerived adopted as PBase side by side
        out.append(([0, 3, 0, 7, B, v, 9, 0, 0, 7, D, v, 9, 1, 0, 7, A, v, 9, 2, 0] + both(0) + both(1) + both(2) + [5, 1, 2] + both(1) + both(2) + [4, 0, 2] + both(0)
                    + [1, 0, D, v + 1] + both(0) + [4, 2, 0] + both(2) + [2, 1, 1] + both(1), 'poly-fixed-genuine-vs-adopted'))
        # typed assignment over the adopted object: T = PDerived with the same value (independent argument), T = PBase with the same value (h = value_cast<PBase>(h): sliced copy of the held object)
        out.append(([0, 1, 0, 7, A, v, 9, 0, 0, 3, 0, D, v] + both(0) + [7, A, v, 9, 0, 0, 3, 0, B, v] + both(0) + [7, A, v + 1, 9, 0, 0] + both(0), 'poly-fixed-assign-over'))
    return out


def null_fixed():
    """adoption of a null pointer (assimilate<T>((T*)0), legal: delete (T*)0 is valid) for every type tag (26 = (PBase*)0) and every way out
    (how 0 clear, 1 surrender, 2 destructor, 3 assignment of an empty holder): over a stored value of another type and over an empty holder;
    afterwards the holder must be empty, typed access through T refused, and only the value stored before may have been destroyed"""
    out = []
    for ty in range(NTY + 1):
        other = 4 if ty != 4 else 3
        for how in range(4):
            out.append(([0, 2, 0, 1, 0, other, 5, 18, 0, ty, how, 12, 0, static_ty(ty), 18, 1, ty, how, 12, 1, static_ty(ty), 18, 1, ty, how, 6, 1, 6, 0,
                         1, 0, static_ty(ty), 9, 12, 0, static_ty(ty)], 'null-adoption'))
    return out


def gen(seed, tier):
    rnd = random.Random(seed * 7919 + 20)
    # thorough is 40k, not the 300k of DESIGN.md: every operation dumps the whole state (~1.5k integers per history), which the driver keeps in memory
    total = {'quick': 5000, 'thorough': 40000, 'search': 8000}.get(tier, 5000)
    out = [(c, {'kind': k}) for c, k in FIXED + alias_fixed() + odd_fixed() + twin_fixed() + poly_fixed() + null_fixed() + gen_magnitude()]
    # one history per ordered pair of types: store a, store b, swap, copy, self-assign, cast both ways, clear
    for a in range(NTY):
        for b in range(NTY):
            out.append(([0, 3, 0, 1, 0, a, 100 + a, 3, 1, b, 200 + b, 5, 0, 1, 4, 2, 0, 4, 2, 2, 11, 2, 7, 12, 0, b, 12, 0, a, 12, 2, b, 10, 1, 6, 0],
                        {'kind': 'pair-swap-copy'}))
    while len(out) < total:
        r = rnd.random()
        if r < 0.04:
            # polymorphic pair: derived objects adopted through a pointer to their base, typed reads through base and derived
            out.append((gen_a(rnd, 'poly'), {'kind': 'A-random-polymorphic-adopted'}))
        elif r < 0.26:
            out.append((gen_a(rnd, 'any'), {'kind': 'A-random-any'}))
        elif r < 0.43:
            out.append((gen_a(rnd, 'instr'), {'kind': 'A-random-instrumented'}))
        elif r < 0.53:
            out.append((gen_a(rnd, 'mixrep'), {'kind': 'A-random-inplace-vs-heap'}))
        elif r < 0.57:
            out.append((gen_a(rnd, 'nomap'), {'kind': 'A-random-no-map'}))
        elif r < 0.61:
            out.append((gen_a(rnd, 'odd'), {'kind': 'A-random-odd-size'}))
        elif r < 0.66:
            # the two translation units' types of the same spelling: stores / copies / swaps / adoptions of one, typed reads through the other
            out.append((gen_a(rnd, 'twin'), {'kind': 'A-random-same-name-types'}))
        elif r < 0.74:
            # typed assignment from inside the holder's own current value (whole value or a part of it), every representation
            out.append((gen_a(rnd, 'alias'), {'kind': 'alias-assign'}))
        elif r < 0.79:
            out.append((gen_a_wild(rnd), {'kind': 'A-arbitrary-operands'}))
        elif r < 0.93:
            out.append((gen_b(rnd), {'kind': 'B-random'}))
        else:
            out.append((gen_b_parse(rnd), {'kind': 'B-parse-holder'}))
    return out


def mutate(case, rnd):
    d = decode(case)
    if d is None:
        return []
    res = []
    ops = list(d[4] if d[0] == 'A' else d[3])
    for _ in range(6):
        t = list(ops)
        if t:
            i = rnd.randrange(len(t))
            if rnd.random() < 0.5:
                del t[i]
            else:
                t.insert(i, t[rnd.randrange(len(t))])
        res.append(encode(d[:4] + (t,) if d[0] == 'A' else d[:3] + (t,)))
    return res


def shrink(case, fails):
    d = decode(case)
    if d is None:
        return case
    idx = 4 if d[0] == 'A' else 3
    ops = list(d[idx])
    mk = lambda t: encode(d[:idx] + (t,))
    # cut behind the failure first
    lo = len(ops)
    for n in range(1, len(ops) + 1):
        if fails(mk(ops[:n])):
            lo = n
            break
    ops = ops[:lo]
    changed = True
    while changed:
        changed = False
        for i in range(len(ops) - 1, -1, -1):
            t = ops[:i] + ops[i + 1:]
            if fails(mk(t)):
                ops = t
                changed = True
    if d[0] == 'B':
        # magnitude: halve the k of push_n while the history still fails (the result is within a factor 2 of the smallest failing k)
        for i, o in enumerate(ops):
            if o[0] == 8 and o[3] > 64:
                k = o[3]
                while k > 1:
                    t = ops[:i] + [(8, o[1], o[2], k // 2)] + ops[i + 1:]
                    if not fails(mk(t)):
                        break
                    ops, k = t, k // 2
    return mk(ops)


LEVEL_TEXT = ('c20_null_adoption_cleared: an adopted null pointer (non-empty, typed, no object) is left by clear() with the holder empty and untyped and nothing destroyed for it. '
              'Machine-checked proofs (Coq) about an executable ownership model of ValueStore/ValueMap::add/NotifiedValue::doParse and of '
              'IntrusiveSharedPtr: for every operation history over any number of holders the model refines plain value semantics '
              '(type and value of each holder, value_cast results; spelled out for every one of the 26 type tags: typed store then typed read / copy / swap partner return the stored value, every other type is refused - '
              'in particular the type of the same NAME that another translation unit declares (c20_typed_same_name_other_unit: the model\'s type test is equality of types, and the translator anchors that both checked '
              'forms of value_cast compare the two std::type_info objects with == and nothing else), and an object the client created under tag T and a holder then adopted is held as T, every other type refused, '
              'also in copies and swap partners (c20_typed_adopted_as_static_type: the type of a holder is the type the value was stored / adopted AS - a PDerived object adopted through a pointer to its polymorphic base PBase '
              'is held as PBase; the translator anchors that type() passes no object to the vtable and VTable<T>::typeinfo answers &typeid(T)), '
              'the in-place rule generated from the header selects the in-place table only for objects that fit into the holder\'s word (all sizes), '
              'copies are distinct objects that later operations on the other side do not touch, '
              'the error flag (double destroy / use after destroy) is never raised, live objects = owned objects after every operation and = the client\'s '
              'objects once all holders are gone (each other object destroyed exactly once, in place or on the heap), ValueMap::add with the held pointer '
              'changes nothing, and - the counter being modelled with the range of its declared C++ type, for every history in which no option has refcount_bound (2^31-1) or more '
              'simultaneous holders - refCount = number of holders without wrap-around, destruction exactly at the last release and exactly once (bulk operations proved to be k-fold iterations). The model is tied to the code by '
              'differential correspondence on instrumented payload types under ASan/UBSan/LSan plus an independent abstract-value / shadow-ledger oracle.')
LEVEL_NOTE = ('Trusted: Coq kernel/vm_compute, extraction+driver (sample cross-checked by vm_compute), harness and its instrumented types, translator; '
              'object identity by ids not addresses; allocator and std containers ideal; client obligations listed under assumptions.')
TECHNIQUE = 'Coq invariant + refinement proofs of an executable ownership model + differential correspondence with the implementation'
DESIGN_REF = 'DESIGN.md section 5, C20'
READY = True
