"""C19 - help text and default command line.   Case layout: see coq/C19/Model.v (run_case) / harness/h_c19.cpp.
The groups of a case are OptionGroups handed to OptionContext::add in this order; captions may repeat (merged by add).

The oracle is an independent python reading of the property: it rebuilds, from the option specs alone, the entry
every visible option must have in the description (name, alias, argument name, negation marker, substituted
description text), checks that each visible option occurs exactly once and no hidden one at all, that the default
command line mentions exactly the visible options with a default, and that the implementation's own
parseCommandString on its own defaults() returned exactly those (option, default) pairs.
"""
import random

PID = 'C19'
HARNESS = 'h_c19'
MODEL_MODULE = 'V.C19.Model'
READY = True
RULE = ('cases = (active level 0..6, prefix size 0..80, 0..4 groups (levels 0..5, captions incl. empty) x 0..6 options: names 1..60 bytes, '
        'alias/no alias, negatable, level 0..5, flag or string value, argument name absent/empty/1..40 bytes, implicit value, default '
        '(command-line safe, or one of the unsafe shapes blank/quote/backslash/empty), description 0..200 bytes with % sequences); '
        '35 % of the contexts are put together with 1..3 adds that are split or REFUSED in between (a piece of a group ending in an option whose long name or alias '
        'clashes with an option registered earlier + 0..3 further options; DuplicateOption caught, remaining pieces/groups added afterwards): the context must '
        'list exactly the options it registered; '
        '30 % of the contexts are 2..6 adds whose CAPTIONS REPEAT with different levels (both orders, other groups in between, the caption-less main group extended later, '
        'equal levels as control, active level at / between / below the levels of the repeated caption): OptionContext::add merges them, the merged group must be shown '
        'iff some part has a level <= the active level (level = minimum) - the model performs the same merge, the oracle computes it on its own; '
        '25 % of the contexts DECLARE their options THROUGH KEY STRINGS name[!][,alias][,@level] handed to the real group.addOptions()(key, value, desc): every subset of the optional '
        'parts, escaped "\\!", alias characters "@" and digits, level numbers with leading zeros, values that carry a level of their own, in groups of non-default level whose level is '
        'lowered (or kept / raised: controls) AFTER the declaration by setDescriptionLevel or by a merge with a same-caption group, active level around these levels; 1/3 of them with '
        'malformed keys (must be refused: observed as a status) or keys from corners the documented syntax does not settle (trailing ",", "@" without number, "," as alias, level number '
        'that wraps the unsigned: correspondence with the model only); the oracle reads the key with its own reference reading of the syntax (omitted @level = level of the declaring '
        'group when the key has a "," part, level of the value for a plain key) and derives the expected visibility from that; '
        'EVERY case also prints its help through the library\'s own printer Application::printHelp (an Application subclass that does not override it; what `--help` runs: FileOut(stdout) + printf) '
        'with fd 1 redirected into a temporary file: the captured bytes must be name/version line, usage, description(), usage, "Default command-line:", "<name> " + defaults(len(name)+1) with the '
        'very description() / defaults() bytes of the observation (application name of prefix-1 characters); 12 % of the defaults are percent shapes (%%, 80%, out%d.lp, %5d, %s ...; "%" is in the '
        'default alphabet anyway), one fixed case has %n; '
        'EVERY case is also run the way a user asks for help: an Application subclass whose initOptions() adds the case\'s context to the root context runs the real Application::main(argc, argv) '
        '7..9 times (--help, -h, --help=N / -hN for every N in 1..max with max = 5 or 6 from getHelpOption(), 1/4 of the cases with the library\'s default flag-style help option, and one N out of '
        'range) with stdout captured: the text must be the frame + description() + defaults() of a reference context (the five "Basic Options" of getOptions written down in the harness + the same '
        'groups) at level N-1, exit code EXIT_SUCCESS, run() not entered; independently of description() the printed entries must obey the level rule (an option has its "  --name" line iff its '
        'own level and the minimum level of its caption are <= min(N-1, 4); fast-exit from N = 2 on); a case whose names / aliases clash with help, version, verbose, time-limit, fast-exit, -h, -v, -V or '
        'whose flag default is not a boolean (1 flag in 16 keeps the library\'s strict parser) must be reported through error() with EXIT_FAILURE and no help; an out-of-range N likewise; '
        '16 fixed cases (a group captioned "Basic Options", one option per level, every clash); '
        'non-trivial = at least one option is visible at the active level; distinct = distinct case tuples')
TRUSTED_BASE = ['sprintf / vector<char> / std::string are modelled (sprintf: the four directives that occur, "write k bytes and a NUL")',
                'props/C19.py reference rendering (oracle on the implementation)',
                'harness/h_c19.cpp: capture of stdout around Application::printHelp (dup2 on fd 1 into a tmpfile) and its byte comparison with the direct description()/defaults() calls',
                'harness/h_c19.cpp: the copy of the "Basic Options" declarations of Application::getOptions (addBasic: keys, value kinds, argument names, implicit values, description texts) that the '
                'reference context of the Application::main("--help=N") runs is built from, and the line scanner of the level rule (headerLines; applied when all option names are [A-Za-z0-9_-]+ and no text has a newline)']
ASSUMPTIONS = ['names, argument names, descriptions, defaults are NUL-free C strings; option names are ASCII without , ! = blank quote backslash and unique',
               'key strings are NUL-free; `unsigned` is 32 bits wide (the level number of a key is accumulated in an unsigned); keys from the corners the documented syntax does not '
               'settle ("name,a,", "name,a,@", "name,,", level numbers of more than 9 digits, group level above 5) are compared with the model but not judged by the oracle',
               'c19_defaults_parse: every visible default is command-line safe (no blank, quote, backslash; non-empty unless the option is implicit)']
ALLOWED_AXIOMS = []
TECHNIQUE = 'Coq proof about an executable model of the three formatters, description(), defaults() and the command-string reader + differential correspondence under ASan'
DESIGN_REF = 'DESIGN.md section 5, C19'
LEVEL_TEXT = ('Machine-checked proofs (Coq): no sprintf of DefaultFormat::format writes outside the bufSize-sized vector for any name/argument/alias/flag '
              'combination and any maxW; the description lists exactly the visible options once with their decorations and substituted placeholders; '
              'defaults() mentions exactly the visible options with a default; for a context put together by any sequence of OptionContext::add calls (groups with equal '
              'captions merged, level = minimum) an option is listed at level L iff its own level <= L and some group of its caption was given a level <= L, in any order of the adds; '
              'the key syntax name[!][,alias][,@level] of the option-init helper accepts exactly the keys of a declaratively given form and declares exactly the option each denotes (an omitted '
              '@level = the level of the declaring group at declaration time as soon as the key has a "," part), refuses every other byte string, and reads back what is rendered. '
              'The model is tied to the code by differential correspondence (ASan/UBSan build) '
              'and an independent python oracle that also runs the real parseCommandString on the real defaults(). The help printed by Application::printHelp (FileOut + printf path behind --help) is '
              'captured on every case and must consist of exactly the description() and defaults() bytes the proofs are about (tested, not proved: printf itself is outside the model). '
              'The user-facing path Application::main("--help[=N]" / "-h[N]") - getOptions with its own Basic Options group, parsing, assignDefaults, level N-1, setActiveDescLevel, printHelp, return value - is '
              'run on every case for every N and must print exactly description()/defaults() of the same options at level N-1 and obey the level rule on the printed lines (tested, not proved).')
LEVEL_NOTE = 'The default command line parses back only for command-line safe defaults (known findings for blank / quote / backslash / empty defaults).'

LEVEL_ALL = 4


def s2t(b):
    return bytes(x & 255 for x in b).decode('latin-1')


# ---------------------------------------------------------------- decoding
def decode(c):
    return _decode(c)[:3]


def directives(c):
    """the trailer behind the groups: how the harness splits the groups into pieces and which pieces end in refused options.
    [(group, k, kind, target, ntail)]; kind 0 long-name clash, 1 alias clash, 2 plain split, 3 long-name clash + unused alias"""
    return _decode(c)[3]


def _decode(c):
    p = [0]

    def nx():
        v = c[p[0]] if p[0] < len(c) else 0
        p[0] += 1
        return v

    def st():
        n = nx()
        s = c[p[0]:p[0] + n]
        p[0] += n
        return list(s)

    def ost():
        return st() if nx() != 0 else None
    active, prefix, ng = nx(), nx(), nx()
    groups = []
    for _ in range(ng):
        cap = st()
        raw = nx()
        # level >= 8: created with level raw/8-1 (the level the options are DECLARED under), setDescriptionLevel(raw%8) before the add
        decl, lvl = (raw, raw) if raw < 8 else (raw // 8 - 1, raw % 8)
        no = nx()
        opts = []
        for _ in range(no):
            name = st()
            alias, neg, level, fl = nx(), nx() != 0, nx(), nx()
            flag, keyed = (fl & 1) != 0, (fl & 2) != 0
            arg, impl, dflt = ost(), ost(), ost()
            desc = st()
            o = {'arg_raw': arg, 'impl_raw': impl,
                 'name': name, 'alias': alias, 'neg': neg, 'level': level, 'flag': flag,
                 'arg': arg if arg is not None else ([] if flag else list(b'<arg>')),
                 'implicit': flag or impl is not None,
                 'impstr': impl if impl else [49],
                 'dflt': dflt, 'desc': desc, 'kstat': None}
            if keyed:
                # declared through its key string: what the key denotes is worked out by the reference reading of the syntax (ref_key)
                o.update(key=name, vlevel=level, alias=0, neg=False)
                r = ref_key(name, decl, level)
                o['kstat'] = r[0]
                if r[0] == 'ok':
                    o.update(name=r[1], neg=r[2], alias=r[3], level=r[4])
            opts.append(o)
        groups.append({'cap': cap, 'level': lvl, 'decl': decl, 'level_raw': raw, 'opts': opts})
    dirs = []
    if p[0] < len(c):
        for _ in range(nx()):
            if p[0] >= len(c):
                break
            dirs.append((nx(), nx(), nx(), nx(), nx() % 5))
    return active, prefix, groups, dirs


def ref_key(key, gl, vl):
    """Reference reading of the key syntax  name[!][,alias][,@level]  (independent of the Coq model and of the C++: split at the commas).
    gl = level of the group at the time of the declaration, vl = level the value carries.
    -> ('ok', name, negatable, alias, level) | ('refused',) | ('unjudged',)
    name: non-empty, not starting with '!'; a trailing '!' marks the option negatable unless written "\\!" (then the name ends in '!');
    alias: exactly one character, in front of the level; level: '@' + decimal number 0..5 (desc_level_hidden).
    An omitted @level means: the level of the GROUP the option is declared in when the key has a ',' part (alias), the value's own level
    for a plain key.  Everything else must be refused, except the corners the documented syntax does not settle, which are not judged
    (correspondence with the model only): a ',' as alias character ("name,,"), a trailing ',' behind the alias, '@' without digits behind an
    alias, a level number of more than 9 digits (unsigned wrap-around), a group level above 5."""
    if 0 in key:
        return ('unjudged',)
    parts, cur = [], []
    for b in key:
        if b == 44:
            parts.append(cur)
            cur = []
        else:
            cur.append(b)
    parts.append(cur)
    head, tail = parts[0], parts[1:]
    if not head or head[0] == 33:
        return ('refused',)
    if head[-1] == 33:
        name, neg = (head[:-2] + [33], False) if (len(head) >= 2 and head[-2] == 92) else (head[:-1], True)
    else:
        name, neg = head, False
    if not tail:
        return ('ok', name, neg, 0, vl)

    def is_level(p_):
        return len(p_) >= 2 and p_[0] == 64 and all(48 <= b <= 57 for b in p_[1:])
    alias, digits = 0, None
    if len(tail) >= 2 and tail[0] == [] and tail[1] == []:
        return ('unjudged',)                                   # "name,,...": the alias character is a ','
    if len(tail) == 1:
        if len(tail[0]) == 1:
            alias = tail[0][0]
        elif is_level(tail[0]):
            digits = tail[0][1:]
        else:
            return ('refused',)
    elif len(tail) == 2:
        if len(tail[0]) != 1:
            return ('refused',)
        alias = tail[0][0]
        if is_level(tail[1]):
            digits = tail[1][1:]
        elif tail[1] in ([], [64]):
            return ('unjudged',)                               # "name,a," / "name,a,@"
        else:
            return ('refused',)
    else:
        return ('refused',)
    if digits is None:
        if gl > 5:
            return ('unjudged',)
        return ('ok', name, neg, alias, gl)
    if len(digits) > 9:
        return ('unjudged',)
    lv = int(bytes(digits))
    return ('ok', name, neg, alias, lv) if lv <= 5 else ('refused',)


def describe(c):
    active, prefix, groups = decode(c)
    out = []
    for g in groups:
        os_ = []
        for o in g['opts']:
            if o['kstat'] is not None:
                os_.append('key %r (value level %d)%s arg=%r%s%s desc=%r' % (s2t(o['key']), o['vlevel'], ' flag' if o['flag'] else '', s2t(o['arg']),
                                                                         ' implicit=%r' % s2t(o['impstr']) if o['implicit'] else '',
                                                                         '' if o['dflt'] is None else ' default=%r' % s2t(o['dflt']), s2t(o['desc'])[:40]))
                continue
            os_.append('%s%s%s@%d%s arg=%r%s%s desc=%r' % (s2t(o['name']), '!' if o['neg'] else '', (',' + chr(o['alias'])) if o['alias'] else '',
                                                       o['level'], ' flag' if o['flag'] else '', s2t(o['arg']),
                                                       ' implicit=%r' % s2t(o['impstr']) if o['implicit'] else '',
                                                       '' if o['dflt'] is None else ' default=%r' % s2t(o['dflt']), s2t(o['desc'])[:40]))
        lv = '%d' % g['level'] if g['level_raw'] < 8 else '%d, setDescriptionLevel(%d) before the add' % (g['decl'], g['level'])
        out.append('group %r@%s {%s}' % (s2t(g['cap']), lv, '; '.join(os_)))
    dn = {0: 'refused(duplicate name of #%d)', 1: 'refused(duplicate alias of #%d)', 2: 'split', 3: 'refused(duplicate name of #%d, alias #)'}
    ds = ['group %d after %d option(s): %s%s' % (g, k, (dn.get(kind, 'refused(duplicate name of #%d)') % t) if kind != 2 else 'split',
                                               ' + %d more option(s)' % nt if kind != 2 else '') for g, k, kind, t, nt in directives(c)]
    return 'level=%d prefix=%d %s%s' % (active, prefix, ' '.join(out), (' | built with: ' + '; '.join(ds) + ' (target index modulo the options registered so far)') if ds else '')


# ---------------------------------------------------------------- reference rendering
def subst(o):
    d, out, i = o['desc'], [], 0
    while i < len(d):
        ch = d[i]
        if ch != 37:
            out.append(ch)
            i += 1
            continue
        if i + 1 >= len(d):
            break                                  # trailing % is dropped
        x = d[i + 1]
        if x == 68:
            out += o['dflt'] or []
        elif x == 65:
            out += o['arg']
        elif x == 73:
            out += o['impstr'] if o['implicit'] else []
        else:
            out.append(x)                          # %% -> %, %x -> x
        i += 2
    return out


def header(o):
    h = list(b'  --')
    arg = o['arg']
    if o['neg'] and not arg:
        h += list(b'[no-]')
    h += o['name']
    no = list(b'|no') if (o['neg'] and arg) else []
    if o['implicit'] and arg:
        h += [91, 61] + arg + no + [93]
    if o['alias']:
        h += [44, 45, o['alias']]
    if not o['implicit']:
        h += [61 if not o['alias'] else 32] + arg + no
    return h


def width(o):
    w = 4 + len(o['name']) + (3 if o['alias'] else 0)
    if o['arg']:
        w += len(o['arg']) + 1 + (2 if o['implicit'] else 0) + (3 if o['neg'] else 0)
    elif o['neg']:
        w += 5
    return w


def order(groups):
    return list(range(1, len(groups))) + ([0] if groups else [])


def merged(pieces):
    """The groups of the case are handed to OptionContext::add one after the other; groups with EQUAL CAPTIONS are one group of the
    context.  What the property demands of it (independent of the model): the group appears where its caption was added first, lists
    the options of all its parts in the order of the adds, and is shown at active level L iff SOME part was given a level <= L
    (an option is listed iff its own level <= L and the level of its group <= L) - i.e. the group's level is the minimum."""
    out = []
    for g in pieces:
        for m in out:
            if m['cap'] == g['cap']:
                m['opts'] = m['opts'] + g['opts']
                m['levels'].append(g['level'])
                break
        else:
            out.append({'cap': g['cap'], 'opts': list(g['opts']), 'levels': [g['level']]})
    for m in out:
        m['level'] = min(m['levels'])
    return out


def safe_default(o):
    d = o['dflt']
    if not d and not o['implicit']:
        return 'empty-default-of-required-argument'
    if 32 in d:
        return 'blank-in-default'
    if 39 in d or 34 in d:
        return 'quote-in-default'
    if 92 in d:
        return 'backslash-in-default'
    return None


def oracle(c, obs):
    active, prefix, groups = decode(c)
    if obs and obs[0] == -998:
        return ['harness:option-set-rejected']
    if obs and obs[0] == -997:
        # after an add that was refused with DuplicateOption the groups of the context (what description()/defaults() walk) list an option the
        # context never registered (not in begin()..end() / not found by tryFind), or a refused name is known, or an add was not refused
        # (the rest of the observation is still judged: the help text and the default command line must list the registered options only)
        return (oracle(c, obs[1:]) + ['context-inconsistent-after-refused-add'])
    if obs and obs[0] == -995:
        # the help a USER gets - Application::main(argc, argv) with --help / --help=N / -h / -hN, i.e. getOptions: the application's own "Basic Options" group +
        # the case's groups, parseCommandLine, assignDefaults, level = N-1, setActiveDescLevel, printHelp, return - is not the frame + description() + defaults() of the
        # same options at level N-1, or breaks the level rule: obs = -995 flags form N rest (form 0 --help=N, 1 -hN, 2 --help, 3 -h, 4 N out of range; first failing run)
        fl = obs[1] if len(obs) >= 4 else 1
        extra = []
        if fl & 1:
            extra.append('main-help-differs-from-context-description')
        if fl & 2:
            extra.append('main-help-level-differs')             # an option above level N-1 has an entry in the printed help, or one at / below it has none
        if fl & 4:
            extra.append('main-help-not-printed')
        if fl & 8:
            extra.append('main-help-exit-code-differs')
        if fl & 16:
            extra.append('main-help-runs-application')
        if fl & 32:
            extra.append('main-help-level-out-of-range-accepted')
        return oracle(c, obs[4:]) + (extra or ['main-help-differs-from-context-description'])
    if obs and obs[0] == -996:
        # the help printed by the library's own printer Application::printHelp (what `--help` of an Application shows: FileOut(stdout) + printf) is not
        # "<name> version ..", usage, description(), usage, "Default command-line:", "<name> " + defaults(len(name)+1): obs = -996 flags len bytes.. rest
        fl, n = (obs[1], obs[2]) if len(obs) >= 3 else (3, 0)
        shown = obs[3:3 + n]
        extra = []
        if fl & 1:
            extra.append('application-help-differs-from-context-description')
        if fl & 2 or not extra:
            # `shown` = what was printed behind "Default command-line:\n"
            extra.append('application-default-command-line-differs')
        return oracle(c, obs[3 + n:]) + extra
    dl = min(active, LEVEL_ALL)
    pos = [0]

    def take(k):
        v = obs[pos[0]:pos[0] + k]
        pos[0] += k
        return v

    def tstr():
        n = take(1)
        return take(n[0]) if n else None
    # every declaration is echoed: the registered option (name, alias, level, negatable) or -1 = the init helper refused the key
    for g in groups:
        kept = []
        for o in g['opts']:
            st = o['kstat']
            first = take(1)
            if first == [-1]:
                if st in (None, 'ok'):
                    return ['key-syntax:well-formed-key-refused']
                continue
            nm = take(first[0]) if first else None
            rest = take(3)
            if nm is None or len(rest) != 3:
                return ['observation-too-short']
            if st == 'refused':
                return ['key-syntax:malformed-key-accepted']
            if st == 'unjudged':
                o.update(name=nm, alias=rest[0], level=rest[1], neg=rest[2] != 0)     # a corner the syntax does not settle: taken as observed
            elif nm != o['name'] or rest != [o['alias'], o['level'], 1 if o['neg'] else 0]:
                if st == 'ok' and nm == o['name'] and rest[0] == o['alias'] and rest[2] == (1 if o['neg'] else 0) and 64 not in o['key']:
                    # only the level differs and the key has no @level part: the default was taken from the wrong place
                    return ['key-syntax:omitted-level-is-not-the-level-of-the-declaring-group' if 44 in o['key']
                            else 'key-syntax:plain-key-changed-the-level-of-its-value']
                return ['key-syntax:option-differs-from-key']
            kept.append(o)
        g['opts'] = kept
    allopts = [o for g in groups for o in g['opts']]          # registration order = order of the adds
    pieces, groups = groups, merged(groups)
    text = tstr()
    take(1)
    defs = tstr()
    if text is None or defs is None:
        return ['observation-too-short']
    sig = []
    # ---- description: each visible option exactly once with its decorations, none above the level
    maxw = max([23] + [width(o) for o in allopts if o['level'] <= dl])
    expected = []
    for gi in order(groups):
        g = groups[gi]
        if g['level'] > dl:
            continue
        if g['cap']:
            expected += [10] + g['cap'] + [58, 10, 10]
        for o in g['opts']:
            if o['level'] > dl:
                continue
            h = header(o)
            h += [32] * (maxw - len(h))
            expected += h + [58, 32] + subst(o) + [10]
    if text != expected:
        # classify
        t = bytes(x & 255 for x in text)
        kind = 'description-differs'
        for gi in order(groups):
            g = groups[gi]
            for o in g['opts']:
                vis = g['level'] <= dl and o['level'] <= dl
                h = bytes(x & 255 for x in header(o))
                entry = bytes(x & 255 for x in (header(o) + [32] * (maxw - len(header(o))) + [58, 32] + subst(o) + [10]))
                if vis and t.count(entry) == 0:
                    if t.count(h) == 0:
                        kind = 'description:visible-option-missing-or-decoration-differs'
                    else:
                        kind = 'description:placeholder-or-padding-differs'
        if len(text) > len(expected):
            kind = 'description:more-text-than-visible-options' if kind == 'description-differs' else kind
        sig.append(kind)
    # ---- defaults(): mentions exactly the visible options with a default
    exp_defs, line, want = [], prefix, []
    idx = {id(o): k for k, o in enumerate(allopts)}
    for gi in order(groups):
        g = groups[gi]
        if g['level'] > dl:
            continue
        for o in g['opts']:
            if o['dflt'] is None or o['level'] > dl:
                continue
            opt = [45, 45] + o['name'] + [61] + o['dflt']
            if line + len(opt) > 78:
                exp_defs += [10] + [32] * prefix
                line = prefix
            exp_defs += opt + [32]
            line += len(opt) + 1
            want.append((idx[id(o)], o['dflt'], o))
    if defs != exp_defs:
        sig.append('defaults:text-differs')
    # ---- parsing the default command line against the same context yields each option with its default
    r = take(1)
    ok = False
    if r == [0]:
        n = take(1)[0]
        got = []
        for _ in range(n):
            i = take(1)[0]
            got.append((i, tstr()))
        ok = got == [(i, d) for i, d, _ in want]
    if not ok:
        shapes = [safe_default(o) for _, _, o in want]
        shapes = [s for s in shapes if s]
        sig.append('defaults-do-not-parse-back:' + shapes[0] if shapes else 'defaults-do-not-parse-back')
    return sig


def nontrivial(c, obs):
    active, prefix, groups = decode(c)
    dl = min(active, LEVEL_ALL)
    for g in groups:
        g['opts'] = [o for o in g['opts'] if o['kstat'] in (None, 'ok')]
    return any(g['level'] <= dl and o['level'] <= dl for g in merged(groups) for o in g['opts'])


# ---------------------------------------------------------------- generation
NAME_CH = 'abcdefghijklmnopqrstuvwxyz0123456789_-'
SAFE_CH = 'abcxyzABC0123456789,.:;+-_=/<>[]{}|%#@!~^&*()?'
# defaults with percent signs (printf-style templates, percentages): legal, command-line safe, and poison for a help printer that lets them reach a printf FORMAT
PCT_DEFAULTS = ['%%', '80%', '100%%', 'out%d.lp', '%d', '%5d', 'a%%b', '%', '%i-%u', 'log-%x.txt', '%c', '%%%%', '%ld', '%08.3f', 'x%', '%%d', '50%,25%', '%s']
UNSAFE = ['a b', 'a  b', ' a', 'a ', "'a'", '"a b"', 'a\\"b', 'a\\\\b', "a'b", '', '\\\\', "a\\'", 'x y z']


def enc_str(s):
    b = list(s.encode('latin-1')) if isinstance(s, str) else list(s)
    return [len(b)] + b


def rand_name(rnd, used):
    while True:
        n = rnd.choice([1, 1, 2, 3, 5, 8, 13, 20, 22, 23, 30, 59, 60])
        s = rnd.choice(NAME_CH[:36]) + ''.join(rnd.choice(NAME_CH) for _ in range(n - 1))
        if rnd.random() < 0.15 and used:
            base = rnd.choice(sorted(used))
            s = rnd.choice([base + 'x', base[:max(1, len(base) - 1)], 'no-' + base])[:60]
        if s not in used and '=' not in s:
            used.add(s)
            return s


def rand_text(rnd, n, pct=True):
    chars = 'abc de.,fg-XYZ019' + ('%%%' if pct else '')
    out = []
    for _ in range(n):
        r = rnd.random()
        if pct and r < 0.12:
            out.append('%' + rnd.choice('DAI%DAIxq'))
        elif r < 0.15:
            out.append(chr(rnd.choice([9, 200, 255, 1, 39, 34, 92])))
        else:
            out.append(rnd.choice(chars))
    return ''.join(out)[:n] if n else ''


def merge_plan(rnd):
    """captions and levels of 2..6 adds in which captions REPEAT: same caption with different levels in both orders (low first / high
    first), other groups in between, the caption-less main group extended later by a part of another level, equal levels as control,
    and an active level chosen around the levels of a repeated caption (below the lowest, between, at / above the highest)."""
    pool = rnd.choice([['', 'Search'], ['', 'Search', 'Other'], ['Search', 'Other'], ['Search', '', 'Other'], ['A', 'A ', 'a']])
    ng = rnd.choice([2, 2, 3, 3, 4, 5, 6])
    caps = [rnd.choice(pool) for _ in range(ng)]
    if rnd.random() < 0.5:
        caps[0] = ''                                        # caption-less main group first ...
        if ng > 2 and rnd.random() < 0.7:
            caps[rnd.randrange(2, ng)] = ''                 # ... extended later, another group in between
    if len(set(caps)) == len(caps):
        caps[-1] = caps[rnd.randrange(ng - 1)]              # at least one caption repeats
    levels, seen = [], {}
    for cp in caps:
        if cp in seen:
            r = rnd.random()
            lv = seen[cp][-1] if r < 0.2 else rnd.choice([x for x in range(6) if x != seen[cp][-1]])   # 20 % equal levels (control)
        else:
            lv = rnd.choice([0, 0, 1, 2, 3, 4, 5])
        seen.setdefault(cp, []).append(lv)
        levels.append(lv)
    rep = [v for v in seen.values() if len(v) > 1]
    lv = rnd.choice(rep)
    active = rnd.choice([min(lv), min(lv), max(min(lv), max(lv) - 1), max(lv), max(0, min(lv) - 1), rnd.choice([0, 1, 2, 3, 4, 5, 6])])
    return active, caps, levels


def gen_case(rnd, p_unsafe, p_refused=False, p_merge=False):
    active = rnd.choice([0, 0, 1, 2, 3, 4, 4, 5, 6])
    prefix = rnd.choice([0, 0, 1, 8, 20, 40, 60, 77, 78, 79, 80])
    ng = rnd.choice([0, 1, 1, 2, 2, 3, 4])
    plan = None
    if p_merge:
        active, pcaps, plevels = merge_plan(rnd)
        ng, plan = len(pcaps), (pcaps, plevels)
    enc = [active, prefix, ng]
    used, aliases, caps = set(), set(), set()
    counts = []
    for g in range(ng):
        while plan is None:
            cap = rnd.choice(['', 'Basic Options', 'G%d' % g, rand_text(rnd, rnd.randint(1, 30), False)])
            if cap not in caps:
                caps.add(cap)
                break
        if plan is None:
            enc += enc_str(cap) + [rnd.choice([0, 0, 1, 2, 3, 4, 5])]
            no = rnd.choice([0, 1, 2, 3, 4, 6])
        else:
            enc += enc_str(plan[0][g]) + [plan[1][g]]
            no = rnd.choice([0, 1, 1, 2, 2, 3])
        enc += [no]
        counts.append(no)
        for _ in range(no):
            name = rand_name(rnd, used)
            alias = 0
            if rnd.random() < 0.4:
                a = rnd.choice('abcdefghijklmnopqrstuvwxyzABCDEFGHIJKLMNOPQRSTUVWXYZ0123456789@?')
                if a not in aliases:
                    aliases.add(a)
                    alias = ord(a)
            neg = 1 if rnd.random() < 0.35 else 0
            level = rnd.choice([0, 0, 0, 1, 2, 3, 4, 5] if plan is None else [0, 0, 0, 0, 0, 1, 2, min(active, 5), 5])
            flag = 1 if rnd.random() < 0.35 else 0
            enc += enc_str(name) + [alias, neg, level, flag]
            r = rnd.random()
            if r < 0.45:
                enc += [0]
            elif r < 0.6:
                enc += [1, 0]
            else:
                enc += [1] + enc_str(rand_text(rnd, rnd.choice([1, 2, 5, 10, 39, 40]), False))
            if rnd.random() < 0.3:
                enc += [1] + enc_str(rnd.choice(['', '1', 'yes', 'auto', rand_text(rnd, 6, False)]))
            else:
                enc += [0]
            if rnd.random() < 0.55:
                if rnd.random() < p_unsafe:
                    d = rnd.choice(UNSAFE)
                elif rnd.random() < 0.12:
                    d = rnd.choice(PCT_DEFAULTS)
                else:
                    d = ''.join(rnd.choice(SAFE_CH) for _ in range(rnd.choice([1, 1, 2, 4, 8, 30, 70, 76, 90])))
                    if d.startswith('-'):
                        d = 'x' + d[1:]
                enc += [1] + enc_str(d)
            else:
                enc += [0]
            enc += enc_str(rand_text(rnd, rnd.choice([0, 0, 1, 2, 10, 40, 199, 200])))
    if p_refused and ng and sum(counts):
        # the same context, but put together with adds that are refused (DuplicateOption, caught) or split in between
        ds = []
        for _ in range(rnd.choice([1, 1, 2, 3])):
            g = rnd.randrange(ng)
            ds.append((g, rnd.randint(0, counts[g]), rnd.choice([0, 0, 1, 1, 2, 3]), rnd.randrange(64), rnd.choice([0, 1, 1, 2, 3])))
        enc += enc_dirs(ds)
    return enc


ALIAS_CH = 'abcdefghijklmnopqrstuvwxyzABCDEFGHIJKLMNOPQRSTUVWXYZ0123456789?#+'
# keys the init helper must refuse ({n} = a fresh name, {a} = a fresh alias character) ...
BAD_KEYS = ['', ',{n}', '!{n}', '!', ',', '{n},', '{n},{a}b', '{n},{a},b', '{n},{a},{a}', '{n},@6', '{n},@12', '{n},@2,{a}', '{n},{a}@2', '{n},@2x', '{n},@x',
            '{n},{a},@2,', '{n},{a},@2,@3', '{n},@-1', '{n},@ 1', '{n},{a},@6', '{n},{a},@2 ', '{n}!,{a}b', '{n},@1@2', '{n},{a},2', '{n},@9', '{n},{a},@55',
            '{n},{a},x', '{n},ab,@1']
# ... and the corners the documented syntax does not settle (accepted or refused by the code; correspondence with the model, not judged by the oracle)
ODD_KEYS = ['{n},{a},', '{n},{a},@', '{n},,', '{n},,,@3', '{n},,,', '{n},@4294967296', '{n},@4294967301', '{n},@4294967302', '{n},@00000000002', '{n},{a},@0000000005',
            '{n}!,{a},', '{n},{a},@4294967297']


def rand_value_fields(rnd, p_default=0.75):
    """arg? impl? dflt? desc of an option (command-line safe defaults)"""
    e = []
    r = rnd.random()
    if r < 0.5:
        e += [0]
    elif r < 0.6:
        e += [1, 0]
    else:
        e += [1] + enc_str(rand_text(rnd, rnd.choice([1, 2, 5, 10]), False))
    e += ([1] + enc_str(rnd.choice(['1', 'yes', 'auto']))) if rnd.random() < 0.25 else [0]
    if rnd.random() < p_default:
        d = ''.join(rnd.choice(SAFE_CH) for _ in range(rnd.choice([1, 1, 2, 4, 8])))
        if rnd.random() < 0.1:
            d = rnd.choice(PCT_DEFAULTS)
        e += [1] + enc_str('x' + d[1:] if d.startswith('-') else d)
    else:
        e += [0]
    return e + enc_str(rand_text(rnd, rnd.choice([0, 1, 2, 10, 40])))


def gen_keyed_case(rnd, p_bad=0.0, p_odd=0.0):
    """Options DECLARED THROUGH KEY STRINGS  name[!][,alias][,@level]  (group.addOptions()(key, value, desc)): every subset of the optional
    parts (negation mark, alias, @level), escaped "\\!", alias characters '@' and digits, level numbers with leading zeros, values that carry a
    level of their own; in groups of NON-DEFAULT level whose level is LOWERED afterwards - by setDescriptionLevel before the add or by a merge
    with a same-caption group of a lower level - (or raised, or kept: controls), with the active level chosen around these levels.
    p_bad: share of keys the init helper must refuse; p_odd: share of keys from the corners the syntax does not settle."""
    ng = rnd.choice([1, 2, 2, 3, 3, 4])
    pool = rnd.choice([['Solving'], ['Solving', 'Basic'], ['', 'Solving'], ['Solving', '', 'Other'], ['Solving', 'Solving ', 'Basic']])
    caps = [rnd.choice(pool) for _ in range(ng)]
    if ng >= 2 and rnd.random() < 0.6:
        caps[-1] = caps[0]                                  # a later part of the first group (merge)
    levels = []
    for g in range(ng):
        decl = rnd.choice([0, 1, 2, 2, 3, 3, 4, 5])
        r = rnd.random()
        add = decl if r < 0.45 else rnd.randint(0, decl) if r < 0.9 else rnd.randint(decl, 5)
        levels.append((decl, add))
    around = sorted({x for d, a in levels for x in (d, a, d - 1, a - 1, d + 1) if 0 <= x <= 6})
    active = rnd.choice(around) if rnd.random() < 0.85 else rnd.choice([0, 1, 2, 3, 4, 5, 6])
    enc = [active, rnd.choice([0, 0, 4, 20, 70]), ng]
    used, aliases = set(), set()

    def fresh_alias(pool_=ALIAS_CH):
        for _ in range(20):
            a = rnd.choice(pool_)
            if a not in aliases:
                aliases.add(a)
                return a
        return None
    for g in range(ng):
        decl, add = levels[g]
        raw = decl if (add == decl and rnd.random() < 0.5) else 8 * (decl + 1) + add
        no = rnd.choice([1, 1, 2, 2, 3, 4])
        enc += enc_str(caps[g]) + [raw, no]
        for _ in range(no):
            fresh = rand_name(rnd, used)
            name = fresh[:rnd.choice([3, 8, 20, 60])]
            while name in used and len(name) < 60:
                name += rnd.choice(NAME_CH[:26])
            while name != fresh and name in used:           # grown to 60 characters onto an earlier name (false alarm of the fifth thorough run,
                name = name[:59] + rnd.choice(NAME_CH[:26]) # DESIGN.md section 6): keep the length, change the last character
            used.add(name)
            flag = 1 if rnd.random() < 0.3 else 0
            if rnd.random() < 0.12:
                # the harness writes the key itself (explicit level): control
                a = fresh_alias() if rnd.random() < 0.4 else None
                enc += enc_str(name) + [ord(a) if a else 0, 1 if rnd.random() < 0.3 else 0, rnd.choice([0, 0, 1, 2, 3, 5]), flag] + rand_value_fields(rnd)
                continue
            vl = 0 if rnd.random() < 0.7 else rnd.choice([1, 2, 3, 4, 5])
            q = rnd.random()
            if q < p_bad:
                a = fresh_alias() or 'a'
                key = rnd.choice(BAD_KEYS).replace('{n}', name).replace('{a}', a)
            elif q < p_bad + p_odd:
                t = rnd.choice(ODD_KEYS)
                if ',,' in t:
                    if ',' in aliases:
                        t = '{n},{a},'
                    aliases.add(',')
                a = fresh_alias() or 'a'
                key = t.replace('{n}', name).replace('{a}', a)
            else:
                key = name
                r = rnd.random()
                if r < 0.3:
                    key += '!'
                elif r < 0.4:
                    key += '\\!'                            # the name ends in '!'
                    used.add(name + '!')
                if rnd.random() < 0.6:
                    a = fresh_alias(ALIAS_CH + '@@@00') if rnd.random() < 0.9 else None
                    if a:
                        key += ',' + a
                if rnd.random() < 0.4:
                    lv = rnd.choice([0, 1, 2, 3, 4, 5])
                    key += ',@' + rnd.choice(['', '', '', '0', '00']) + str(lv)
            enc += enc_str(key) + [0, 0, vl, flag | 2] + rand_value_fields(rnd)
    return enc


def enc_dirs(ds):
    e = [len(ds)]
    for d in ds:
        e += list(d)
    return e


def gen(seed, tier):
    rnd = random.Random(seed * 104729 + 19)
    total = {'quick': 3000, 'thorough': 100000, 'search': 6000}.get(tier, 3000)
    out = [(c, {'kind': 'fixed'}) for c in FIXED]
    while len(out) < total:
        if rnd.random() < 0.25:
            # options declared through key strings, groups whose level is lowered after the declaration; 1/3 with malformed / unsettled keys
            q = rnd.random()
            bad, odd = (0.0, 0.0) if q < 0.65 else (0.35, 0.0) if q < 0.85 else (0.15, 0.3)
            out.append((gen_keyed_case(rnd, bad, odd), {'kind': 'declared-through-keys' + ('-malformed' if bad and not odd else '-unsettled' if odd else '')}))
            continue
        unsafe = rnd.random() < 0.15
        refused = rnd.random() < 0.35
        merge = rnd.random() < 0.3
        out.append((gen_case(rnd, 0.5 if unsafe else 0.0, refused, merge),
                    {'kind': ('random-unsafe-defaults' if unsafe else 'random-safe-defaults') + ('-refused-adds' if refused else '')
                     + ('-equal-captions' if merge else '')}))
    return out


def _opt(name, alias=0, neg=0, level=0, flag=0, arg=None, impl=None, dflt=None, desc=''):
    e = enc_str(name) + [alias, neg, level, flag]
    for x in (arg, impl, dflt):
        e += [0] if x is None else [1] + enc_str(x)
    return e + enc_str(desc)


FIXED = [
    # the probed finding: default with a blank
    [0, 0, 1] + enc_str('') + [0, 2] + _opt('other', dflt='a b', desc='x') + _opt('num', dflt='3', desc='y'),
    # empty default on a required-argument option
    [0, 0, 1] + enc_str('') + [0, 2] + _opt('n', dflt='', desc='') + _opt('m', dflt='1', desc=''),
    # every decoration: alias + negatable + implicit + arg, empty arg on a non-implicit option, long names vs maxW
    [4, 3, 1] + enc_str('') + [0, 2] + _opt('a', alias=97, neg=1, arg='<n>', impl='2', dflt='1', desc='A %A %D %I %% %x %') + _opt('b' * 60, neg=1, flag=1, desc='%D%'),
    [4, 0, 1] + enc_str('G') + [0, 3] + _opt('e', arg='', desc='empty arg') + _opt('f', alias=102, arg='', neg=1, desc='') + _opt('hidden', level=5, dflt='1', desc='never'),
    # level filtering across groups
    [1, 0, 3] + enc_str('Main') + [0, 1] + _opt('x', level=1, dflt='1', desc='d') + enc_str('Sub') + [2, 1] + _opt('y', dflt='2', desc='d') + enc_str('Sub2') + [1, 2] + _opt('z', level=2, dflt='3', desc='d') + _opt('w', level=1, dflt='4', desc='%D'),
    # wrapping at 78 with prefix
    [0, 70, 1] + enc_str('') + [0, 3] + _opt('p', dflt='1', desc='') + _opt('q', dflt='2', desc='') + _opt('r', dflt='x' * 80, desc=''),
    # refused adds in between (trailer: nDirectives {group k kind target ntail}): Base{alpha,beta}; Extra{gamma} + refused 'beta' + 1 more; then Extra{delta}
    [0, 0, 2] + enc_str('Base') + [0, 2] + _opt('alpha', arg='<n>', dflt='1', desc='first [%D]') + _opt('beta', alias=98, arg='<n>', dflt='2', desc='second [%D]')
    + enc_str('Extra') + [0, 2] + _opt('gamma', arg='<n>', dflt='3', desc='third [%D]') + _opt('delta', arg='<n>', dflt='4', desc='fourth [%D]') + [1, 1, 1, 0, 1, 1],
    # the same with a clashing alias, a refused piece that opens a new (then empty) group, and a plain split
    [0, 0, 3] + enc_str('Base') + [0, 2] + _opt('alpha', arg='<n>', dflt='1', desc='first [%D]') + _opt('beta', alias=98, arg='<n>', dflt='2', desc='second [%D]')
    + enc_str('Empty') + [0, 0] + enc_str('Extra') + [0, 2] + _opt('gamma', arg='<n>', dflt='3', desc='third [%D]') + _opt('delta', arg='<n>', dflt='4', desc='fourth [%D]')
    + [4, 1, 0, 1, 1, 2, 2, 1, 2, 0, 0, 2, 2, 3, 0, 1, 0, 1, 0, 0, 3],
]


# defaults with percent signs, printed through Application::printHelp by the harness (seeded C19-r15: the default command line spliced into a printf format):
# the demonstration (a progress template '%%', a file-name template, a percentage), every level; '%s'; and - ONE case only - '%n'
FIXED += [[lv, 5, 2] + enc_str('Output') + [0, 3] + _opt('progress', arg='<fmt>', dflt='%%', desc='Progress format [%D]') + _opt('out', alias=111, arg='<file>', dflt='out%d.lp', desc='Output file %A')
          + _opt('limit', level=1, arg='<p>', dflt='80%', desc='Limit (%D)') + enc_str('Expert') + [2, 1] + _opt('ratio', dflt='50%,25%', desc='%D%%') for lv in (0, 1, 2)]
FIXED += [[0, 0, 1] + enc_str('') + [0, 2] + _opt('template', dflt='%s', desc='string template, never to be handed to printf as a format: a %%s there reads a pointer that is not there')
          + _opt('count', dflt='%5d', desc='')]
FIXED += [[0, 3, 1] + enc_str('G') + [0, 1] + _opt('written', dflt='a%nb', desc='never to be handed to printf as a format: a %%n there WRITES through a pointer that is not there (this is the only case with it)')]


def _merge_fixed():
    """adds with EQUAL captions and different levels (merged by OptionContext::add: level = the smaller one), every active level 0..5"""
    def o(name, level=0, **kw):
        return _opt(name, level=level, arg='<n>', dflt=kw.get('dflt', '1'), desc='value of %A, default %D')
    shapes = [
        # hidden part first, visible part second / the reverse / another group in between / the main group extended later / equal levels
        [('Search', 2, [o('deep')]), ('Search', 0, [o('fast'), o('slow', 1)])],
        [('Search', 0, [o('fast'), o('slow', 1)]), ('Search', 2, [o('deep')])],
        [('Search', 3, [o('deep')]), ('Other', 1, [o('misc')]), ('Search', 1, [o('fast', 0), o('slow', 2)])],
        [('', 0, [o('help')]), ('Search', 1, [o('fast')]), ('', 2, [o('verbose'), o('quiet', 3)])],
        [('', 2, [o('verbose')]), ('Search', 1, [o('fast')]), ('', 0, [o('help')]), ('Search', 3, [o('deep')]), ('Search', 0, [])],
        [('Search', 1, [o('fast')]), ('Search', 1, [o('deep')])],
    ]
    out = []
    for sh in shapes:
        for active in range(6):
            e = [active, 4, len(sh)]
            for cap, lv, os_ in sh:
                e += enc_str(cap) + [lv, len(os_)]
                for x in os_:
                    e += x
            out.append(e)
    return out


FIXED += _merge_fixed()


def _kopt(key, vl=0, flag=0, arg='<n>', dflt='1', desc='%D'):
    e = enc_str(key) + [0, 0, vl, flag | 2]
    for x in (arg, None, dflt):
        e += [0] if x is None else [1] + enc_str(x)
    return e + enc_str(desc)


def _keyed_fixed():
    out = []
    # the demonstration of seeded C19-r8: an expert group "Solving" (level 2) declares restarts,r / seed-mode,s / luby,@1 / depth; a basic group with the same
    # caption (level 0) declares threads,t; merged by add -> level 0.  restarts and seed-mode keep level 2, luby 1, depth 0 (plain key: level of the value).
    expert = [_kopt('restarts,r', dflt='100', desc='Restart interval (%D)'), _kopt('seed-mode,s', arg='<m>', dflt='fixed', desc='Seed mode %A'),
              _kopt('luby,@1', dflt='7', desc='Luby unit'), _kopt('depth', dflt='3', desc='Depth')]
    basic = [_kopt('threads,t', dflt='1', desc='Number of threads')]
    for active in range(5):
        e = [active, 4, 2] + enc_str('Solving') + [2, len(expert)]
        for x in expert:
            e += x
        e += enc_str('Solving') + [0, len(basic)]
        for x in basic:
            e += x
        out.append(e)
        # the same group lowered by setDescriptionLevel(0) before its add instead of by a merge
        e = [active, 4, 1] + enc_str('Solving') + [8 * (2 + 1) + 0, len(expert)]
        for x in expert:
            e += x
        out.append(e)
    # every subset of the optional parts (negation mark, alias, @level), declared in a group of level 3 that is lowered to 1, values of level 0 and 4
    keys = ['p0', 'p1!', 'p2,a', 'p3!,b', 'p4,@2', 'p5!,@2', 'p6,c,@2', 'p7!,d,@2', 'p8\\!', 'p9\\!,e', 'q0,+', 'q1,@,@4', 'q2,0', 'q3,@05', 'q4!,@000']
    for vl in (0, 4):
        for active in (0, 1, 2, 3, 4):
            e = [active, 0, 1] + enc_str('Expert') + [8 * (3 + 1) + 1, len(keys)]
            for k in keys:
                e += _kopt(k, vl=vl)
            out.append(e)
    # malformed keys: every one must be refused, the options around them are declared as usual
    bad = [k.replace('{n}', 'bad%d' % i).replace('{a}', 'z') for i, k in enumerate(BAD_KEYS)]
    e = [2, 0, 1] + enc_str('G') + [2, len(bad) + 2] + _kopt('first,@')
    for k in bad:
        e += _kopt(k)
    e += _kopt('last,l,@1')
    out.append(e)
    # the corners the syntax does not settle (correspondence with the model)
    odd = [k.replace('{n}', 'odd%d' % i).replace('{a}', 'ABCDEFGHIJKLMNOP'[i]) for i, k in enumerate(ODD_KEYS) if ',,' not in k] + ['oddc,,,@3']
    e = [5, 0, 1] + enc_str('G') + [8 * (4 + 1) + 0, len(odd)]
    for k in odd:
        e += _kopt(k)
    out.append(e)
    return out


FIXED += _keyed_fixed()
# Application::main("--help=N") (run by the harness on every case, see h_c19.cpp MainApp): shapes aimed at getOptions - a group that carries the caption of the application's
# own "Basic Options" group (merged into it: level 0 whatever the case says), one option per level 0..5 in groups of level 0..3, a name / an alias that the application
# itself declares (help, version, verbose, time-limit, fast-exit; -h -v -V: the add is refused, main reports and prints no help), flags with a default
FIXED += [[lv, 4, 3] + enc_str('Basic Options') + [2, 2] + _opt('extra', arg='<n>', dflt='1', desc='joins the basic options [%D]') + _opt('extra2', level=2, arg='<n>', dflt='2', desc='level 2 [%D]')
          + enc_str('Solving') + [1, 3] + _opt('models', alias=110, arg='<n>', dflt='1', desc='Compute at most %A models') + _opt('opt-mode', level=3, arg='<m>', dflt='opt', desc='expert')
          + _opt('secret', level=5, dflt='x', desc='never shown')
          + enc_str('Expert') + [3, 2] + _opt('tweak', flag=1, desc='flag at level 0 of a level 3 group') + _opt('deep', level=4, neg=1, flag=1, dflt='no', desc='only with all')
          for lv in (0, 1, 2, 3, 4, 5)]
FIXED += [[0, 0, 1] + enc_str('App') + [0, 2] + _opt('quiet', alias=113, flag=1, desc='') + _opt(nm, alias=al, arg='<n>', dflt='0', desc='clashes with a basic option')
          for nm, al in (('help', 0), ('version', 0), ('verbose', 0), ('time-limit', 0), ('fast-exit', 0), ('hh', 104), ('vv', 118), ('VV', 86), ('helper', 0), ('hel', 0))]


def encode(active, prefix, groups, dirs=()):
    e = [active, prefix, len(groups)]
    for g in groups:
        e += [len(g['cap'])] + list(g['cap']) + [g.get('level_raw', g['level']), len(g['opts'])]
        for o in g['opts']:
            if o.get('kstat') is not None:
                e += [len(o['key'])] + list(o['key']) + [0, 0, o['vlevel'], (1 if o['flag'] else 0) | 2]
            else:
                e += [len(o['name'])] + list(o['name']) + [o['alias'], 1 if o['neg'] else 0, o['level'], 1 if o['flag'] else 0]
            for x in (o['arg_raw'], o['impl_raw'], o['dflt']):
                e += [0] if x is None else [1, len(x)] + list(x)
            e += [len(o['desc'])] + list(o['desc'])
    if dirs:
        e += enc_dirs(dirs)
    return e


def shrink(case, fails):
    import copy
    active, prefix, groups, dirs = _decode(case)
    if encode(active, prefix, groups, dirs) != list(case):
        return case
    changed = True
    while changed:
        changed = False
        for di in range(len(dirs) - 1, -1, -1):
            t = dirs[:di] + dirs[di + 1:]
            if fails(encode(active, prefix, groups, t)):
                dirs, changed = t, True
        for di, d in enumerate(dirs):
            if d[4] > 1:
                t = list(dirs)
                t[di] = d[:4] + (1,)
                if fails(encode(active, prefix, groups, t)):
                    dirs, changed = t, True
        if prefix and fails(encode(active, 0, groups, dirs)):
            prefix, changed = 0, True
        for gi in range(len(groups) - 1, 0, -1):          # keep group 0 (it is special)
            t = groups[:gi] + groups[gi + 1:]
            td = [((g - 1 if g > gi else g),) + tuple(r) for g, *r in dirs if g != gi]
            if fails(encode(active, prefix, t, td)):
                groups, dirs, changed = t, td, True
        for gi in range(len(groups)):
            for oi in range(len(groups[gi]['opts']) - 1, -1, -1):
                t = copy.deepcopy(groups)
                del t[gi]['opts'][oi]
                td = [(g, (k - 1 if (g == gi and k > oi) else k)) + tuple(r) for g, k, *r in dirs]
                if fails(encode(active, prefix, t, td)):
                    groups, dirs, changed = t, td, True
        for gi in range(len(groups)):
            for oi in range(len(groups[gi]['opts'])):
                for fld, val in (('desc', []), ('impl_raw', None), ('arg_raw', None), ('alias', 0), ('neg', False)):
                    if groups[gi]['opts'][oi][fld] in (val, None, 0, False, []):
                        continue
                    if groups[gi]['opts'][oi].get('kstat') is not None and fld in ('alias', 'neg'):
                        continue                       # part of the key string
                    t = copy.deepcopy(groups)
                    t[gi]['opts'][oi][fld] = val
                    if fails(encode(active, prefix, t, dirs)):
                        groups, changed = t, True
    return encode(active, prefix, groups, dirs)


def mutate(case, rnd):
    return [gen_case(rnd, 0.0, rnd.random() < 0.35, rnd.random() < 0.4) for _ in range(40)]
