"""C19 - help text and default command line.   Case layout: see coq/C19/Model.v (run_case) / harness/h_c19.cpp.
The groups of a case are OptionGroups handed to OptionContext::add in this order; captions may repeat (merged by add).

The oracle is an independent python reading of the property: it rebuilds, from the option specs alone, the entry
every visible option must have in the description (name, alias, argument name, negation marker, substituted
description text), checks that each visible option occurs exactly once and no hidden one at all, that the default
command line mentions exactly the visible options with a default, and that the implementation's own
parseCommandString on its own defaults() returned exactly those (option, default) pairs.
"""
import random

PID = 'C19'
HARNESS = 'h_c19'
MODEL_MODULE = 'V.C19.Model'
READY = True
RULE = ('cases = (active level 0..6, prefix size 0..80, 0..4 groups (levels 0..5, captions incl. empty) x 0..6 options: names 1..60 bytes, '
        'alias/no alias, negatable, level 0..5, flag or string value, argument name absent/empty/1..40 bytes, implicit value, default '
        '(command-line safe, or one of the unsafe shapes blank/quote/backslash/empty), description 0..200 bytes with % sequences); '
        '35 % of the contexts are put together with 1..3 adds that are split or REFUSED in between (a piece of a group ending in an option whose long name or alias '
        'clashes with an option registered earlier + 0..3 further options; DuplicateOption caught, remaining pieces/groups added afterwards): the context must '
        'list exactly the options it registered; '
        '30 % of the contexts are 2..6 adds whose CAPTIONS REPEAT with different levels (both orders, other groups in between, the caption-less main group extended later, '
        'equal levels as control, active level at / between / below the levels of the repeated caption): OptionContext::add merges them, the merged group must be shown '
        'iff some part has a level <= the active level (level = minimum) - the model performs the same merge, the oracle computes it on its own; '
        'non-trivial = at least one option is visible at the active level; distinct = distinct case tuples')
TRUSTED_BASE = ['sprintf / vector<char> / std::string are modelled (sprintf: the four directives that occur, "write k bytes and a NUL")',
                'props/C19.py reference rendering (oracle on the implementation)']
ASSUMPTIONS = ['names, argument names, descriptions, defaults are NUL-free C strings; option names are ASCII without , ! = blank quote backslash and unique',
               'c19_defaults_parse: every visible default is command-line safe (no blank, quote, backslash; non-empty unless the option is implicit)']
ALLOWED_AXIOMS = []
TECHNIQUE = 'Coq proof about an executable model of the three formatters, description(), defaults() and the command-string reader + differential correspondence under ASan'
DESIGN_REF = 'DESIGN.md section 5, C19'
LEVEL_TEXT = ('Machine-checked proofs (Coq): no sprintf of DefaultFormat::format writes outside the bufSize-sized vector for any name/argument/alias/flag '
              'combination and any maxW; the description lists exactly the visible options once with their decorations and substituted placeholders; '
              'defaults() mentions exactly the visible options with a default; for a context put together by any sequence of OptionContext::add calls (groups with equal '
              'captions merged, level = minimum) an option is listed at level L iff its own level <= L and some group of its caption was given a level <= L, in any order of the adds. '
              'The model is tied to the code by differential correspondence (ASan/UBSan build) '
              'and an independent python oracle that also runs the real parseCommandString on the real defaults().')
LEVEL_NOTE = 'The default command line parses back only for command-line safe defaults (known findings for blank / quote / backslash / empty defaults).'

LEVEL_ALL = 4


def s2t(b):
    return bytes(x & 255 for x in b).decode('latin-1')


# ---------------------------------------------------------------- decoding
def decode(c):
    return _decode(c)[:3]


def directives(c):
    """the trailer behind the groups: how the harness splits the groups into pieces and which pieces end in refused options.
    [(group, k, kind, target, ntail)]; kind 0 long-name clash, 1 alias clash, 2 plain split, 3 long-name clash + unused alias"""
    return _decode(c)[3]


def _decode(c):
    p = [0]

    def nx():
        v = c[p[0]] if p[0] < len(c) else 0
        p[0] += 1
        return v

    def st():
        n = nx()
        s = c[p[0]:p[0] + n]
        p[0] += n
        return list(s)

    def ost():
        return st() if nx() != 0 else None
    active, prefix, ng = nx(), nx(), nx()
    groups = []
    for _ in range(ng):
        cap = st()
        lvl = nx()
        no = nx()
        opts = []
        for _ in range(no):
            name = st()
            alias, neg, level, flag = nx(), nx() != 0, nx(), nx() != 0
            arg, impl, dflt = ost(), ost(), ost()
            desc = st()
            opts.append({'arg_raw': arg, 'impl_raw': impl,
                         'name': name, 'alias': alias, 'neg': neg, 'level': level, 'flag': flag,
                         'arg': arg if arg is not None else ([] if flag else list(b'<arg>')),
                         'implicit': flag or impl is not None,
                         'impstr': impl if impl else [49],
                         'dflt': dflt, 'desc': desc})
        groups.append({'cap': cap, 'level': lvl, 'opts': opts})
    dirs = []
    if p[0] < len(c):
        for _ in range(nx()):
            if p[0] >= len(c):
                break
            dirs.append((nx(), nx(), nx(), nx(), nx() % 5))
    return active, prefix, groups, dirs


def describe(c):
    active, prefix, groups = decode(c)
    out = []
    for g in groups:
        os_ = []
        for o in g['opts']:
            os_.append('%s%s%s@%d%s arg=%r%s%s desc=%r' % (s2t(o['name']), '!' if o['neg'] else '', (',' + chr(o['alias'])) if o['alias'] else '',
                                                       o['level'], ' flag' if o['flag'] else '', s2t(o['arg']),
                                                       ' implicit=%r' % s2t(o['impstr']) if o['implicit'] else '',
                                                       '' if o['dflt'] is None else ' default=%r' % s2t(o['dflt']), s2t(o['desc'])[:40]))
        out.append('group %r@%d {%s}' % (s2t(g['cap']), g['level'], '; '.join(os_)))
    dn = {0: 'refused(duplicate name of #%d)', 1: 'refused(duplicate alias of #%d)', 2: 'split', 3: 'refused(duplicate name of #%d, alias #)'}
    ds = ['group %d after %d option(s): %s%s' % (g, k, (dn.get(kind, 'refused(duplicate name of #%d)') % t) if kind != 2 else 'split',
                                               ' + %d more option(s)' % nt if kind != 2 else '') for g, k, kind, t, nt in directives(c)]
    return 'level=%d prefix=%d %s%s' % (active, prefix, ' '.join(out), (' | built with: ' + '; '.join(ds) + ' (target index modulo the options registered so far)') if ds else '')


# ---------------------------------------------------------------- reference rendering
def subst(o):
    d, out, i = o['desc'], [], 0
    while i < len(d):
        ch = d[i]
        if ch != 37:
            out.append(ch)
            i += 1
            continue
        if i + 1 >= len(d):
            break                                  # trailing % is dropped
        x = d[i + 1]
        if x == 68:
            out += o['dflt'] or []
        elif x == 65:
            out += o['arg']
        elif x == 73:
            out += o['impstr'] if o['implicit'] else []
        else:
            out.append(x)                          # %% -> %, %x -> x
        i += 2
    return out


def header(o):
    h = list(b'  --')
    arg = o['arg']
    if o['neg'] and not arg:
        h += list(b'[no-]')
    h += o['name']
    no = list(b'|no') if (o['neg'] and arg) else []
    if o['implicit'] and arg:
        h += [91, 61] + arg + no + [93]
    if o['alias']:
        h += [44, 45, o['alias']]
    if not o['implicit']:
        h += [61 if not o['alias'] else 32] + arg + no
    return h


def width(o):
    w = 4 + len(o['name']) + (3 if o['alias'] else 0)
    if o['arg']:
        w += len(o['arg']) + 1 + (2 if o['implicit'] else 0) + (3 if o['neg'] else 0)
    elif o['neg']:
        w += 5
    return w


def order(groups):
    return list(range(1, len(groups))) + ([0] if groups else [])


def merged(pieces):
    """The groups of the case are handed to OptionContext::add one after the other; groups with EQUAL CAPTIONS are one group of the
    context.  What the property demands of it (independent of the model): the group appears where its caption was added first, lists
    the options of all its parts in the order of the adds, and is shown at active level L iff SOME part was given a level <= L
    (an option is listed iff its own level <= L and the level of its group <= L) - i.e. the group's level is the minimum."""
    out = []
    for g in pieces:
        for m in out:
            if m['cap'] == g['cap']:
                m['opts'] = m['opts'] + g['opts']
                m['levels'].append(g['level'])
                break
        else:
            out.append({'cap': g['cap'], 'opts': list(g['opts']), 'levels': [g['level']]})
    for m in out:
        m['level'] = min(m['levels'])
    return out


def safe_default(o):
    d = o['dflt']
    if not d and not o['implicit']:
        return 'empty-default-of-required-argument'
    if 32 in d:
        return 'blank-in-default'
    if 39 in d or 34 in d:
        return 'quote-in-default'
    if 92 in d:
        return 'backslash-in-default'
    return None


def oracle(c, obs):
    active, prefix, groups = decode(c)
    if obs and obs[0] == -998:
        return ['harness:option-set-rejected']
    if obs and obs[0] == -997:
        # after an add that was refused with DuplicateOption the groups of the context (what description()/defaults() walk) list an option the
        # context never registered (not in begin()..end() / not found by tryFind), or a refused name is known, or an add was not refused
        # (the rest of the observation is still judged: the help text and the default command line must list the registered options only)
        return (oracle(c, obs[1:]) + ['context-inconsistent-after-refused-add'])
    dl = min(active, LEVEL_ALL)
    pos = [0]

    def take(k):
        v = obs[pos[0]:pos[0] + k]
        pos[0] += k
        return v

    def tstr():
        n = take(1)
        return take(n[0]) if n else None
    allopts = [o for g in groups for o in g['opts']]          # registration order = order of the adds
    pieces, groups = groups, merged(groups)
    for o in allopts:
        nm = tstr()
        rest = take(3)
        if nm != o['name'] or rest != [o['alias'], o['level'], 1 if o['neg'] else 0]:
            return ['key-syntax:option-differs-from-key']
    text = tstr()
    take(1)
    defs = tstr()
    if text is None or defs is None:
        return ['observation-too-short']
    sig = []
    # ---- description: each visible option exactly once with its decorations, none above the level
    maxw = max([23] + [width(o) for o in allopts if o['level'] <= dl])
    expected = []
    for gi in order(groups):
        g = groups[gi]
        if g['level'] > dl:
            continue
        if g['cap']:
            expected += [10] + g['cap'] + [58, 10, 10]
        for o in g['opts']:
            if o['level'] > dl:
                continue
            h = header(o)
            h += [32] * (maxw - len(h))
            expected += h + [58, 32] + subst(o) + [10]
    if text != expected:
        # classify
        t = bytes(x & 255 for x in text)
        kind = 'description-differs'
        for gi in order(groups):
            g = groups[gi]
            for o in g['opts']:
                vis = g['level'] <= dl and o['level'] <= dl
                h = bytes(x & 255 for x in header(o))
                entry = bytes(x & 255 for x in (header(o) + [32] * (maxw - len(header(o))) + [58, 32] + subst(o) + [10]))
                if vis and t.count(entry) == 0:
                    if t.count(h) == 0:
                        kind = 'description:visible-option-missing-or-decoration-differs'
                    else:
                        kind = 'description:placeholder-or-padding-differs'
        if len(text) > len(expected):
            kind = 'description:more-text-than-visible-options' if kind == 'description-differs' else kind
        sig.append(kind)
    # ---- defaults(): mentions exactly the visible options with a default
    exp_defs, line, want = [], prefix, []
    idx = {id(o): k for k, o in enumerate(allopts)}
    for gi in order(groups):
        g = groups[gi]
        if g['level'] > dl:
            continue
        for o in g['opts']:
            if o['dflt'] is None or o['level'] > dl:
                continue
            opt = [45, 45] + o['name'] + [61] + o['dflt']
            if line + len(opt) > 78:
                exp_defs += [10] + [32] * prefix
                line = prefix
            exp_defs += opt + [32]
            line += len(opt) + 1
            want.append((idx[id(o)], o['dflt'], o))
    if defs != exp_defs:
        sig.append('defaults:text-differs')
    # ---- parsing the default command line against the same context yields each option with its default
    r = take(1)
    ok = False
    if r == [0]:
        n = take(1)[0]
        got = []
        for _ in range(n):
            i = take(1)[0]
            got.append((i, tstr()))
        ok = got == [(i, d) for i, d, _ in want]
    if not ok:
        shapes = [safe_default(o) for _, _, o in want]
        shapes = [s for s in shapes if s]
        sig.append('defaults-do-not-parse-back:' + shapes[0] if shapes else 'defaults-do-not-parse-back')
    return sig


def nontrivial(c, obs):
    active, prefix, groups = decode(c)
    dl = min(active, LEVEL_ALL)
    return any(g['level'] <= dl and o['level'] <= dl for g in merged(groups) for o in g['opts'])


# ---------------------------------------------------------------- generation
NAME_CH = 'abcdefghijklmnopqrstuvwxyz0123456789_-'
SAFE_CH = 'abcxyzABC0123456789,.:;+-_=/<>[]{}|%#@!~^&*()?'
UNSAFE = ['a b', 'a  b', ' a', 'a ', "'a'", '"a b"', 'a\\"b', 'a\\\\b', "a'b", '', '\\\\', "a\\'", 'x y z']


def enc_str(s):
    b = list(s.encode('latin-1')) if isinstance(s, str) else list(s)
    return [len(b)] + b


def rand_name(rnd, used):
    while True:
        n = rnd.choice([1, 1, 2, 3, 5, 8, 13, 20, 22, 23, 30, 59, 60])
        s = rnd.choice(NAME_CH[:36]) + ''.join(rnd.choice(NAME_CH) for _ in range(n - 1))
        if rnd.random() < 0.15 and used:
            base = rnd.choice(sorted(used))
            s = rnd.choice([base + 'x', base[:max(1, len(base) - 1)], 'no-' + base])[:60]
        if s not in used and '=' not in s:
            used.add(s)
            return s


def rand_text(rnd, n, pct=True):
    chars = 'abc de.,fg-XYZ019' + ('%%%' if pct else '')
    out = []
    for _ in range(n):
        r = rnd.random()
        if pct and r < 0.12:
            out.append('%' + rnd.choice('DAI%DAIxq'))
        elif r < 0.15:
            out.append(chr(rnd.choice([9, 200, 255, 1, 39, 34, 92])))
        else:
            out.append(rnd.choice(chars))
    return ''.join(out)[:n] if n else ''


def merge_plan(rnd):
    """captions and levels of 2..6 adds in which captions REPEAT: same caption with different levels in both orders (low first / high
    first), other groups in between, the caption-less main group extended later by a part of another level, equal levels as control,
    and an active level chosen around the levels of a repeated caption (below the lowest, between, at / above the highest)."""
    pool = rnd.choice([['', 'Search'], ['', 'Search', 'Other'], ['Search', 'Other'], ['Search', '', 'Other'], ['A', 'A ', 'a']])
    ng = rnd.choice([2, 2, 3, 3, 4, 5, 6])
    caps = [rnd.choice(pool) for _ in range(ng)]
    if rnd.random() < 0.5:
        caps[0] = ''                                        # caption-less main group first ...
        if ng > 2 and rnd.random() < 0.7:
            caps[rnd.randrange(2, ng)] = ''                 # ... extended later, another group in between
    if len(set(caps)) == len(caps):
        caps[-1] = caps[rnd.randrange(ng - 1)]              # at least one caption repeats
    levels, seen = [], {}
    for cp in caps:
        if cp in seen:
            r = rnd.random()
            lv = seen[cp][-1] if r < 0.2 else rnd.choice([x for x in range(6) if x != seen[cp][-1]])   # 20 % equal levels (control)
        else:
            lv = rnd.choice([0, 0, 1, 2, 3, 4, 5])
        seen.setdefault(cp, []).append(lv)
        levels.append(lv)
    rep = [v for v in seen.values() if len(v) > 1]
    lv = rnd.choice(rep)
    active = rnd.choice([min(lv), min(lv), max(min(lv), max(lv) - 1), max(lv), max(0, min(lv) - 1), rnd.choice([0, 1, 2, 3, 4, 5, 6])])
    return active, caps, levels


def gen_case(rnd, p_unsafe, p_refused=False, p_merge=False):
    active = rnd.choice([0, 0, 1, 2, 3, 4, 4, 5, 6])
    prefix = rnd.choice([0, 0, 1, 8, 20, 40, 60, 77, 78, 79, 80])
    ng = rnd.choice([0, 1, 1, 2, 2, 3, 4])
    plan = None
    if p_merge:
        active, pcaps, plevels = merge_plan(rnd)
        ng, plan = len(pcaps), (pcaps, plevels)
    enc = [active, prefix, ng]
    used, aliases, caps = set(), set(), set()
    counts = []
    for g in range(ng):
        while plan is None:
            cap = rnd.choice(['', 'Basic Options', 'G%d' % g, rand_text(rnd, rnd.randint(1, 30), False)])
            if cap not in caps:
                caps.add(cap)
                break
        if plan is None:
            enc += enc_str(cap) + [rnd.choice([0, 0, 1, 2, 3, 4, 5])]
            no = rnd.choice([0, 1, 2, 3, 4, 6])
        else:
            enc += enc_str(plan[0][g]) + [plan[1][g]]
            no = rnd.choice([0, 1, 1, 2, 2, 3])
        enc += [no]
        counts.append(no)
        for _ in range(no):
            name = rand_name(rnd, used)
            alias = 0
            if rnd.random() < 0.4:
                a = rnd.choice('abcdefghijklmnopqrstuvwxyzABCDEFGHIJKLMNOPQRSTUVWXYZ0123456789@?')
                if a not in aliases:
                    aliases.add(a)
                    alias = ord(a)
            neg = 1 if rnd.random() < 0.35 else 0
            level = rnd.choice([0, 0, 0, 1, 2, 3, 4, 5] if plan is None else [0, 0, 0, 0, 0, 1, 2, min(active, 5), 5])
            flag = 1 if rnd.random() < 0.35 else 0
            enc += enc_str(name) + [alias, neg, level, flag]
            r = rnd.random()
            if r < 0.45:
                enc += [0]
            elif r < 0.6:
                enc += [1, 0]
            else:
                enc += [1] + enc_str(rand_text(rnd, rnd.choice([1, 2, 5, 10, 39, 40]), False))
            if rnd.random() < 0.3:
                enc += [1] + enc_str(rnd.choice(['', '1', 'yes', 'auto', rand_text(rnd, 6, False)]))
            else:
                enc += [0]
            if rnd.random() < 0.55:
                if rnd.random() < p_unsafe:
                    d = rnd.choice(UNSAFE)
                else:
                    d = ''.join(rnd.choice(SAFE_CH) for _ in range(rnd.choice([1, 1, 2, 4, 8, 30, 70, 76, 90])))
                    if d.startswith('-'):
                        d = 'x' + d[1:]
                enc += [1] + enc_str(d)
            else:
                enc += [0]
            enc += enc_str(rand_text(rnd, rnd.choice([0, 0, 1, 2, 10, 40, 199, 200])))
    if p_refused and ng and sum(counts):
        # the same context, but put together with adds that are refused (DuplicateOption, caught) or split in between
        ds = []
        for _ in range(rnd.choice([1, 1, 2, 3])):
            g = rnd.randrange(ng)
            ds.append((g, rnd.randint(0, counts[g]), rnd.choice([0, 0, 1, 1, 2, 3]), rnd.randrange(64), rnd.choice([0, 1, 1, 2, 3])))
        enc += enc_dirs(ds)
    return enc


def enc_dirs(ds):
    e = [len(ds)]
    for d in ds:
        e += list(d)
    return e


def gen(seed, tier):
    rnd = random.Random(seed * 104729 + 19)
    total = {'quick': 3000, 'thorough': 100000, 'search': 6000}.get(tier, 3000)
    out = [(c, {'kind': 'fixed'}) for c in FIXED]
    while len(out) < total:
        unsafe = rnd.random() < 0.15
        refused = rnd.random() < 0.35
        merge = rnd.random() < 0.3
        out.append((gen_case(rnd, 0.5 if unsafe else 0.0, refused, merge),
                    {'kind': ('random-unsafe-defaults' if unsafe else 'random-safe-defaults') + ('-refused-adds' if refused else '')
                     + ('-equal-captions' if merge else '')}))
    return out


def _opt(name, alias=0, neg=0, level=0, flag=0, arg=None, impl=None, dflt=None, desc=''):
    e = enc_str(name) + [alias, neg, level, flag]
    for x in (arg, impl, dflt):
        e += [0] if x is None else [1] + enc_str(x)
    return e + enc_str(desc)


FIXED = [
    # the probed finding: default with a blank
    [0, 0, 1] + enc_str('') + [0, 2] + _opt('other', dflt='a b', desc='x') + _opt('num', dflt='3', desc='y'),
    # empty default on a required-argument option
    [0, 0, 1] + enc_str('') + [0, 2] + _opt('n', dflt='', desc='') + _opt('m', dflt='1', desc=''),
    # every decoration: alias + negatable + implicit + arg, empty arg on a non-implicit option, long names vs maxW
    [4, 3, 1] + enc_str('') + [0, 2] + _opt('a', alias=97, neg=1, arg='<n>', impl='2', dflt='1', desc='A %A %D %I %% %x %') + _opt('b' * 60, neg=1, flag=1, desc='%D%'),
    [4, 0, 1] + enc_str('G') + [0, 3] + _opt('e', arg='', desc='empty arg') + _opt('f', alias=102, arg='', neg=1, desc='') + _opt('hidden', level=5, dflt='1', desc='never'),
    # level filtering across groups
    [1, 0, 3] + enc_str('Main') + [0, 1] + _opt('x', level=1, dflt='1', desc='d') + enc_str('Sub') + [2, 1] + _opt('y', dflt='2', desc='d') + enc_str('Sub2') + [1, 2] + _opt('z', level=2, dflt='3', desc='d') + _opt('w', level=1, dflt='4', desc='%D'),
    # wrapping at 78 with prefix
    [0, 70, 1] + enc_str('') + [0, 3] + _opt('p', dflt='1', desc='') + _opt('q', dflt='2', desc='') + _opt('r', dflt='x' * 80, desc=''),
    # refused adds in between (trailer: nDirectives {group k kind target ntail}): Base{alpha,beta}; Extra{gamma} + refused 'beta' + 1 more; then Extra{delta}
    [0, 0, 2] + enc_str('Base') + [0, 2] + _opt('alpha', arg='<n>', dflt='1', desc='first [%D]') + _opt('beta', alias=98, arg='<n>', dflt='2', desc='second [%D]')
    + enc_str('Extra') + [0, 2] + _opt('gamma', arg='<n>', dflt='3', desc='third [%D]') + _opt('delta', arg='<n>', dflt='4', desc='fourth [%D]') + [1, 1, 1, 0, 1, 1],
    # the same with a clashing alias, a refused piece that opens a new (then empty) group, and a plain split
    [0, 0, 3] + enc_str('Base') + [0, 2] + _opt('alpha', arg='<n>', dflt='1', desc='first [%D]') + _opt('beta', alias=98, arg='<n>', dflt='2', desc='second [%D]')
    + enc_str('Empty') + [0, 0] + enc_str('Extra') + [0, 2] + _opt('gamma', arg='<n>', dflt='3', desc='third [%D]') + _opt('delta', arg='<n>', dflt='4', desc='fourth [%D]')
    + [4, 1, 0, 1, 1, 2, 2, 1, 2, 0, 0, 2, 2, 3, 0, 1, 0, 1, 0, 0, 3],
]


def _merge_fixed():
    """adds with EQUAL captions and different levels (merged by OptionContext::add: level = the smaller one), every active level 0..5"""
    def o(name, level=0, **kw):
        return _opt(name, level=level, arg='<n>', dflt=kw.get('dflt', '1'), desc='value of %A, default %D')
    shapes = [
        # hidden part first, visible part second / the reverse / another group in between / the main group extended later / equal levels
        [('Search', 2, [o('deep')]), ('Search', 0, [o('fast'), o('slow', 1)])],
        [('Search', 0, [o('fast'), o('slow', 1)]), ('Search', 2, [o('deep')])],
        [('Search', 3, [o('deep')]), ('Other', 1, [o('misc')]), ('Search', 1, [o('fast', 0), o('slow', 2)])],
        [('', 0, [o('help')]), ('Search', 1, [o('fast')]), ('', 2, [o('verbose'), o('quiet', 3)])],
        [('', 2, [o('verbose')]), ('Search', 1, [o('fast')]), ('', 0, [o('help')]), ('Search', 3, [o('deep')]), ('Search', 0, [])],
        [('Search', 1, [o('fast')]), ('Search', 1, [o('deep')])],
    ]
    out = []
    for sh in shapes:
        for active in range(6):
            e = [active, 4, len(sh)]
            for cap, lv, os_ in sh:
                e += enc_str(cap) + [lv, len(os_)]
                for x in os_:
                    e += x
            out.append(e)
    return out


FIXED += _merge_fixed()


def encode(active, prefix, groups, dirs=()):
    e = [active, prefix, len(groups)]
    for g in groups:
        e += [len(g['cap'])] + list(g['cap']) + [g['level'], len(g['opts'])]
        for o in g['opts']:
            e += [len(o['name'])] + list(o['name']) + [o['alias'], 1 if o['neg'] else 0, o['level'], 1 if o['flag'] else 0]
            for x in (o['arg_raw'], o['impl_raw'], o['dflt']):
                e += [0] if x is None else [1, len(x)] + list(x)
            e += [len(o['desc'])] + list(o['desc'])
    if dirs:
        e += enc_dirs(dirs)
    return e


def shrink(case, fails):
    import copy
    active, prefix, groups, dirs = _decode(case)
    if encode(active, prefix, groups, dirs) != list(case):
        return case
    changed = True
    while changed:
        changed = False
        for di in range(len(dirs) - 1, -1, -1):
            t = dirs[:di] + dirs[di + 1:]
            if fails(encode(active, prefix, groups, t)):
                dirs, changed = t, True
        for di, d in enumerate(dirs):
            if d[4] > 1:
                t = list(dirs)
                t[di] = d[:4] + (1,)
                if fails(encode(active, prefix, groups, t)):
                    dirs, changed = t, True
        if prefix and fails(encode(active, 0, groups, dirs)):
            prefix, changed = 0, True
        for gi in range(len(groups) - 1, 0, -1):          # keep group 0 (it is special)
            t = groups[:gi] + groups[gi + 1:]
            td = [((g - 1 if g > gi else g),) + tuple(r) for g, *r in dirs if g != gi]
            if fails(encode(active, prefix, t, td)):
                groups, dirs, changed = t, td, True
        for gi in range(len(groups)):
            for oi in range(len(groups[gi]['opts']) - 1, -1, -1):
                t = copy.deepcopy(groups)
                del t[gi]['opts'][oi]
                td = [(g, (k - 1 if (g == gi and k > oi) else k)) + tuple(r) for g, k, *r in dirs]
                if fails(encode(active, prefix, t, td)):
                    groups, dirs, changed = t, td, True
        for gi in range(len(groups)):
            for oi in range(len(groups[gi]['opts'])):
                for fld, val in (('desc', []), ('impl_raw', None), ('arg_raw', None), ('alias', 0), ('neg', False)):
                    if groups[gi]['opts'][oi][fld] in (val, None, 0, False, []):
                        continue
                    t = copy.deepcopy(groups)
                    t[gi]['opts'][oi][fld] = val
                    if fails(encode(active, prefix, t, dirs)):
                        groups, changed = t, True
    return encode(active, prefix, groups, dirs)


def mutate(case, rnd):
    return [gen_case(rnd, 0.0, rnd.random() < 0.35, rnd.random() < 0.4) for _ in range(40)]
