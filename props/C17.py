"""C17 - StringBuilder: content equals the appended text and never leaves its buffer.

Case:  kind cap ilen ini... ops...
  kind 0 StringBuilder()   1 StringBuilder(std::string&) with initial content ini
       2 StringBuilder(buf, cap, Fixed)   3 StringBuilder(buf, cap, Dynamic)
  ops: 1 n b1..bn        append(const char*, n)
       2 n b1..bn        append(const char*)            (NUL-terminated)
       3 n c             append(size_t n, char c)       (n is taken modulo 2^64: -1 = SIZE_MAX)
       4 v               append(long long v)
       5 v               append(unsigned long long v)   (v modulo 2^64)
       6 pl pre.. spec.. appendFormat(pre + spec + suf): spec 0 -> fmt = pre;  1 al a.. sl suf.. -> "%s";
                         2 v sl suf.. -> "%d";  3 sl suf.. -> "%%";  4 c sl suf.. -> "%c"
       7 n c             resize(n, c)
       8                 clear()
       9 m off n         append a slice of the builder's OWN current text (off, n clamped to the text): m = 0 append(c_str()+off, n);
                         1 append(toSpan().first+off, n);  2 append(c_str()+off) (n ignored, up to the first NUL);
                         3 append(caller's string .data()+off, n) (kind 1; other kinds as m = 0)
       10 m bits n t1..tn  the double whose 64-bit pattern is bits (two's complement): m = 0 append(double); 1 append(float) of the value
                         narrowed to float (out of float range: as m = 0); 2 xconvert(std::string& tmp, double) and 3 toString(double), the
                         resulting string then appended with append(ptr, n).  t = the "%g" text of the value, computed by the generator
                         (g_text below): the Coq model has no floating point and treats the op as the formatted piece t; the harness
                         ignores t and calls the real overload; the oracle ignores t and computes the text from bits itself
Observation: one record after the constructor and after every op:
  exc size bytes.. terminator maxSize(-1 unbounded) errno==ERANGE guards-intact
The implementation runs every case twice on fresh builders: the records of a CLEAN pass (errno = 0 before every call; this
is what the Coq model predicts, errno field = "this call signalled a truncation"), the marker -99, then the records of a
STALE-ERRNO pass (errno = ERANGE before the constructor and before every call, as for a caller who never resets errno after
an earlier truncation; the errno field of these records is not compared, everything else is judged against the shadow string).

The oracle is a shadow string in python (independent of the Coq model): it replays the operations on a python
list, truncating only for the fixed kind, and compares every record of the implementation.
"""
import math
import random
import struct

PID = 'C17'
HARNESS = 'h_c17'
MODEL_MODULE = 'V.C17.Model'
SBO = 63
TWO64 = 2 ** 64
RULE = ('cases = (kind in {sbo, std::string, fixed array, spilling array}, capacity 0..70, initial string, <= 9 ops over '
        'append(bytes)/append(cstr)/append(n,c)/append(number)/appendFormat(literal,%s,%d,%%,%c with literal prefix/suffix)/resize/clear); '
        'piece lengths drawn from {0,1,room-1,room,room+1,62,63,64,65,200} where room = free space of the current representation '
        '(63-used inline, cap-1-used for arrays), format bodies padded to those lengths, run lengths 2^64-1.. only for the fixed kind; '
        'plus a fixed stream "length-wraps" (~3000 cases of <= 3 ops): ONE piece of length 255..257, 318..320, 511..513, 575, 576, 1000, '
        '4095..4097, 65535..65537 and 256*j + room (+-1) for j in {1,2,16,256}, for every builder kind (inline with 0/1/7/62/63 chars used, '
        'std::string, fixed and spilling arrays of capacity 0/1/8/64/L..L+2) and every flavour (bytes, cstr, run, resize, literal format, '
        '%s, literal+%s, %d, %c, %%), and 2^16/2^31/2^32/2^63 + room (+-1) runs/resizes on fixed arrays; the random stream draws a length '
        'from {255..257, 300, 319, 320, 511..513, 575, 576, 256+room(+-1), 512+room(+1)} with probability 0.06; '
        'appends whose SOURCE is the builder\'s own text (op 9: append(c_str()+off, n) / toSpan() / append(c_str()+off) / the caller\'s str.data()): stream '
        '"self-append" (~1700 cases: caller\'s string of 1..300 chars around the SSO limit 15/16 and the doubling points of the capacity, inline builders that stay '
        'inline / fill up / spill, builders that already spilled, spilling and fixed arrays; slices = whole text, halves, one char, room-1..room+1 of the current '
        'storage) and 10 % of the operations of the random stream; '
        'floating-point appends (op 10: append(double), append(float), xconvert(std::string&, double), toString(double); the value is given by its 64-bit pattern, '
        'its "%g" text is computed by the generator for the model and independently by the oracle, cross-checked against libc snprintf): stream "double-*" '
        '(~4500 cases: ~110 values with a "%g" text of every length 1..13 - negative with six significant digits and a three-digit exponent (13 chars), '
        '+-DBL_MAX, +-DBL_MIN, denormals, +-0, integers, the 1e-5/1e-4 and 999999.5/1e6 notation switches, FLT_MAX/FLT_MIN, +-inf, +-nan - on inline builders '
        '(empty, text that fits exactly, spills by one char, already spilled), std::string, fixed and spilling arrays of text length +1 / +0 / +2 cells and 0/1/2/64 cells, '
        'and sequences of three numbers) and 5 % of the operations of the random stream (random 13/12-char values, random bit patterns, decimals, small integers); '
        'EVERY case is run twice on the implementation: with errno = 0 before each call (compared with the model, errno flag judged) and with a '
        'STALE errno = ERANGE before the constructor and each call (text, size, terminator, maxSize, canaries, exceptions judged; errno flag not); '
        'non-trivial = at least one op changed the text or was truncated; distinct = distinct case tuples')
TRUSTED_BASE = ['std::string (append/resize/reserve/c_str/operator[]) modelled as an unbounded list',
                'vsnprintf modelled on the already formatted text: writes min(len, cap-1) chars + NUL when cap > 0, returns len',
                'props/C17.py shadow string (oracle on the implementation); the stale-errno pass of the harness is judged by this oracle only '
                '(the model has no errno input: a correct builder never reads errno)',
                'printf("%g") of a double: not modelled in Coq - the text is an input of the case (python\'s \'%g\' % v, nan/-nan/inf/-inf spelled as glibc does; '
                'equal to libc snprintf on 200000 random bit patterns); the oracle recomputes it from the bit pattern and never reads the text in the case',
                'tools/consts/C17.py (layout constants of StringBuilder)']
ASSUMPTIONS = ['memory does not run out (builders that may spill: text lengths far below std::string::max_size())',
               'a formatted expansion is shorter than INT_MAX and its literal parts contain neither % nor NUL',
               'LP64 layout: the pointer / size_t members occupy cells [0,24) of the 64-byte union',
               'size()==strlen(c_str()) is claimed only when no NUL byte was appended (resize(n) with the default fill appends NULs)',
               'append(ptr, n) / append(ptr) may be given (part of) the builder\'s own text (value semantics, exercised and proved); an argument of appendFormat '
               'must not alias the builder\'s text (printf contract: the output range starts at the text\'s terminating NUL)']
ALLOWED_AXIOMS = []


# ------------------------------------------------------------------------------------------------
def take(c, p):
    n = c[p]
    return list(c[p + 1:p + 1 + n]), p + 1 + n


def cut0(b):
    return b[:b.index(0)] if 0 in b else list(b)


def decode(c):
    kind, cap = c[0], c[1]
    ini, p = take(c, 2)
    ops = []
    while p < len(c):
        o = c[p]
        p += 1
        if o in (1, 2):
            d, p = take(c, p)
            ops.append((o, d))
        elif o in (3, 7):
            ops.append((o, c[p], c[p + 1]))
            p += 2
        elif o in (4, 5):
            ops.append((o, c[p]))
            p += 1
        elif o == 6:
            pre, p = take(c, p)
            spec = c[p]
            p += 1
            if spec == 0:
                ops.append((6, pre, 0, None, []))
            elif spec == 1:
                a, p = take(c, p)
                suf, p = take(c, p)
                ops.append((6, pre, 1, a, suf))
            elif spec in (2, 4):
                v = c[p]
                p += 1
                suf, p = take(c, p)
                ops.append((6, pre, spec, v, suf))
            elif spec == 3:
                suf, p = take(c, p)
                ops.append((6, pre, 3, None, suf))
            else:
                break
        elif o == 8:
            ops.append((8,))
        elif o == 10:
            if p + 3 > len(c):
                break
            t, q = take(c, p + 2)
            ops.append((10, c[p], c[p + 1], t))
            p = q
        elif o == 9:
            if p + 3 > len(c):
                break
            ops.append((9, c[p], c[p + 1], c[p + 2]))
            p += 3
        else:
            break
    return kind, cap, ini, ops


def encode(kind, cap, ini, ops):
    e = [kind, cap, len(ini)] + list(ini)
    for o in ops:
        if o[0] in (1, 2):
            e += [o[0], len(o[1])] + list(o[1])
        elif o[0] in (3, 7):
            e += [o[0], o[1], o[2]]
        elif o[0] in (4, 5):
            e += [o[0], o[1]]
        elif o[0] == 6:
            e += [6, len(o[1])] + list(o[1]) + [o[2]]
            if o[2] == 1:
                e += [len(o[3])] + list(o[3])
            elif o[2] in (2, 4):
                e += [o[3]]
            if o[2] != 0:
                e += [len(o[4])] + list(o[4])
        elif o[0] == 8:
            e += [8]
        elif o[0] == 9:
            e += [9, o[1], o[2], o[3]]
        elif o[0] == 10:
            e += [10, o[1], o[2], len(o[3])] + list(o[3])
    return e


# ---- append(double): the reference text of "%g" ------------------------------------------------------------
FLT_MAX = 3.4028234663852886e+38


def dbl_of(bits):
    return struct.unpack('<d', struct.pack('<Q', bits % TWO64))[0]


def bits_of(v):
    b = struct.unpack('<Q', struct.pack('<d', v))[0]
    return b - TWO64 if b >= 2 ** 63 else b


def g_text(m, bits):
    """what printf("%g") prints for the value the harness passes: python's %g is C's for finite values; glibc prints
    nan / -nan (sign bit) and inf / -inf"""
    v = dbl_of(bits)
    neg = (bits % TWO64) >> 63
    if math.isnan(v):
        return [ord(ch) for ch in ('-nan' if neg else 'nan')]
    if math.isinf(v):
        return [ord(ch) for ch in ('-inf' if neg else 'inf')]
    if m == 1 and abs(v) <= FLT_MAX:
        v = struct.unpack('<f', struct.pack('<f', v))[0]      # static_cast<float>: round to nearest even
    return [ord(ch) for ch in '%g' % v]


def dbl_op(m, v):
    b = bits_of(v) if isinstance(v, float) else v
    return (10, m, b, g_text(m, b))


def sx32(v):
    return (v + 2 ** 31) % 2 ** 32 - 2 ** 31


def body_of(o):
    """expansion of the part of the format behind the literal prefix; None when there is none"""
    spec = o[2]
    if spec == 0:
        return None
    if spec == 1:
        return cut0(o[3]) + list(o[4])
    if spec == 2:
        return [ord(ch) for ch in str(sx32(o[3]))] + list(o[4])
    if spec == 3:
        return [37] + list(o[4])
    return [o[3] % 256] + list(o[4])


class Shadow:
    """The abstract builder: kind, capacity, text."""

    def __init__(self, kind, cap, ini):
        self.kind = kind
        self.limit = max(cap - 1, 0) if kind == 2 else None
        self.text = list(ini) if kind == 1 else []

    def max_size(self):
        return self.limit if self.kind == 2 else -1

    def room(self):
        return None if self.limit is None else self.limit - len(self.text)

    def append_run(self, n, c):
        """append n copies of c (n may be astronomically large for the fixed kind)"""
        r = self.room()
        if r is None:
            self.text += [c] * n
            return False
        self.text += [c] * min(n, r)
        return n > r

    def append(self, piece):
        r = self.room()
        if r is None:
            self.text += piece
            return False
        self.text += piece[:r]
        return len(piece) > r

    def own_slice(self, o):
        """the bytes a self-append (9, m, off, n) passes in: a slice of the text as it is BEFORE the call"""
        sz = len(self.text)
        off = min(max(o[2], 0), sz)
        if o[1] == 2:
            return cut0(self.text[off:])
        n = min(max(o[3], 0), sz - off)
        return list(self.text[off:off + n])

    def apply(self, o):
        """returns (exception code, truncated?)"""
        k = o[0]
        if k == 1:
            return 0, self.append(list(o[1]))
        if k == 2:
            return 0, self.append(cut0(o[1]))
        if k == 3:
            return 0, self.append_run(o[1] % TWO64, o[2] % 256)
        if k == 4:
            return 0, self.append([ord(ch) for ch in str(o[1])])
        if k == 5:
            return 0, self.append([ord(ch) for ch in str(o[1] % TWO64)])
        if k == 6:
            cut = self.append(list(o[1]))
            b = body_of(o)
            if b is not None:
                cut = self.append(b) or cut
            return 0, cut
        if k == 9:
            return 0, self.append(self.own_slice(o))
        if k == 10:
            return 0, self.append(g_text(o[1], o[2]))      # NOT o[3]: the text in the case is the model's input
        if k in (7, 8):
            n, c = (o[1] % TWO64, o[2] % 256) if k == 7 else (0, 0)
            if n > len(self.text):
                if self.limit is not None and n > self.limit:
                    return 1, False
                self.append_run(n - len(self.text), c)
            else:
                del self.text[n:]
            return 0, False
        return 0, False


STALE_MARK = -99      # harness/h_c17.cpp: separates the records of the clean pass from those of the stale-errno pass


def records(obs, nrec, p=0):
    """parse nrec records of the implementation's observation starting at p -> (records, end position) or None"""
    out = []
    for _ in range(nrec):
        if p + 2 > len(obs):
            return None
        exc, n = obs[p], obs[p + 1]
        if n < 0 or p + 2 + n + 4 > len(obs):
            return None
        out.append((exc, n, obs[p + 2:p + 2 + n], obs[p + 2 + n], obs[p + 3 + n], obs[p + 4 + n], obs[p + 5 + n]))
        p += 6 + n
    return out, p


def split_obs(obs, nrec):
    """-> (records of the clean pass, records of the stale-errno pass) or None"""
    r = records(obs, nrec)
    if r is None:
        return None
    clean, p = r
    if p >= len(obs) or obs[p] != STALE_MARK:
        return None
    r = records(obs, nrec, p + 1)
    if r is None or r[1] != len(obs):
        return None
    return clean, r[0]


def obs_equal(case, impl, model):
    """The model predicts the records of the clean pass (errno = 0 on entry of every operation).  The records of the
    stale-errno pass behind the marker are judged by the oracle only: their errno field says nothing (errno was ERANGE
    before the call) and is excluded from every comparison; text, size, terminator, maxSize, canaries and exceptions
    of that pass must equal the shadow string's - and therefore, by the oracle on the clean pass plus this
    correspondence, the model's."""
    m = len(model)
    return len(impl) > m and impl[m] == STALE_MARK and impl[:m] == model


OPN = {1: 'append', 2: 'append-cstr', 3: 'append-run', 4: 'append-int', 5: 'append-uint', 6: 'format', 7: 'resize', 8: 'clear', 9: 'append-self', 10: 'append-double', 0: 'ctor'}
KINDN = {0: 'sbo', 1: 'string', 2: 'fixed', 3: 'spill'}


def oracle(c, obs):
    kind, cap, ini, ops = decode(c)
    parts = split_obs(obs, len(ops) + 1)
    if parts is None:
        return ['observation-malformed']
    sig = judge_pass(kind, cap, ini, ops, parts[0], False)
    if not sig:
        sig = judge_pass(kind, cap, ini, ops, parts[1], True)
    return sig


def judge_pass(kind, cap, ini, ops, recs, stale):
    """stale: the pass in which errno was ERANGE before every call.  The content of a builder must not depend on what
    an EARLIER operation (of this or another builder) left in errno, so everything but the errno field is judged as in
    the clean pass; signatures get the suffix :stale-errno."""
    sfx = ':stale-errno' if stale else ''
    sh = Shadow(kind, cap, ini)
    kn = KINDN.get(kind, 'spill')
    for i, rec in enumerate(recs):
        exc, n, bs, term, mx, er, guard = rec
        if i == 0:
            wexc, cut, on = 0, False, 'ctor'
        else:
            wexc, cut = sh.apply(ops[i - 1])
            on = OPN[ops[i - 1][0]]
        tagk = '%s-%s%s' % (kn, on, sfx)
        if guard != 1:
            return ['wrote-outside-buffer:' + tagk]
        if exc != wexc:
            return ['exception-differs:' + tagk]
        if bs != sh.text or n != len(sh.text):
            if on == 'append-double':
                # the text of a number is wrong (a digit of the exponent lost, ...): never a mere "truncation"
                return ['text-differs:' + tagk]
            if kind != 2 and n < len(sh.text) and bs == sh.text[:n]:
                return ['truncated-on-unbounded-kind:' + tagk]
            if kind == 2 and bs == sh.text[:len(bs)] and len(bs) < len(sh.text):
                return ['fixed-holds-less-than-fits:' + tagk]
            if bs == sh.text[:len(bs)] or sh.text == bs[:len(sh.text)]:
                return ['size-differs:' + tagk]
            return ['text-differs:' + tagk]
        if term != 0:
            return ['not-terminated:' + tagk]
        if 0 not in sh.text and (bs + [term]).index(0) != n:
            return ['size-is-not-strlen:' + tagk]
        if mx != sh.max_size():
            return ['maxsize-differs:' + tagk]
        if not stale and er != (1 if cut else 0):
            return [('erange-missing:' if cut else 'erange-spurious:') + tagk]
    return []


def nontrivial(c, obs):
    kind, cap, ini, ops = decode(c)
    sh = Shadow(kind, cap, ini)
    for o in ops:
        before = list(sh.text)
        _, cut = sh.apply(o)
        if cut or sh.text != before:
            return True
    return False


def _s(b):
    return bytes(x & 255 for x in b).decode('latin-1').encode('unicode_escape').decode()


def _short(b):
    t = _s(b)
    return repr(t) if len(b) <= 24 else '%r..(%d bytes)' % (_s(b[:12]), len(b))


def describe(c):
    kind, cap, ini, ops = decode(c)
    hd = {0: 'StringBuilder()', 1: 'StringBuilder(str=%s)' % _short(ini), 2: 'StringBuilder(buf,%d,Fixed)' % cap,
          3: 'StringBuilder(buf,%d,Dynamic)' % cap}.get(kind, '?')
    ps = []
    for o in ops:
        if o[0] == 1:
            ps.append('append(%s,%d)' % (_short(o[1]), len(o[1])))
        elif o[0] == 2:
            ps.append('append(%s)' % _short(o[1]))
        elif o[0] == 3:
            ps.append('append(%d,%r)' % (o[1] % TWO64, chr(o[2] % 256)))
        elif o[0] == 4:
            ps.append('append(%dLL)' % o[1])
        elif o[0] == 5:
            ps.append('append(%dULL)' % (o[1] % TWO64))
        elif o[0] == 6:
            sp = {0: '', 1: '%s', 2: '%d', 3: '%%', 4: '%c'}[o[2]]
            arg = '' if o[2] in (0, 3) else (', ' + (_short(o[3]) if o[2] == 1 else str(o[3])))
            ps.append('appendFormat("%s%s%s"%s)' % (_s(o[1]) if len(o[1]) <= 24 else '<%d chars>' % len(o[1]), sp,
                                                    _s(o[4]) if len(o[4]) <= 24 else '<%d chars>' % len(o[4]), arg))
        elif o[0] == 7:
            ps.append('resize(%d,%r)' % (o[1] % TWO64, chr(o[2] % 256)))
        elif o[0] == 10:
            fn = {1: 'append((float)%s)', 2: 'xconvert(tmp, %s); append(tmp)', 3: 'append(toString(%s))'}.get(o[1], 'append(%s)')
            ps.append(fn % ('double{0x%016x = %r}' % (o[2] % TWO64, dbl_of(o[2]))) + ' [%%g text %s]' % _short(g_text(o[1], o[2])))
        elif o[0] == 9:
            src = {1: 'sb.toSpan().first', 3: 'str.data()' if kind == 1 else 'sb.c_str()'}.get(o[1], 'sb.c_str()')
            ps.append('append(%s+%d)' % (src, max(o[2], 0)) if o[1] == 2 else 'append(%s+%d,%d) [own text, clamped]' % (src, max(o[2], 0), max(o[3], 0)))
        else:
            ps.append('clear()')
    return hd + ': ' + '; '.join(ps) + '   [run twice: errno = 0 / stale errno = ERANGE before every call]'


# ------------------------------------------------------------------------------------------------
LIT = [c for c in range(97, 123)] + [c for c in range(48, 58)] + [45, 95, 32, 200]


class Gen:
    def __init__(self, rnd):
        self.rnd = rnd
        self.ctr = 0

    def piece(self, n):
        """distinguishable NUL- and %-free bytes"""
        k = len(LIT)
        st = self.ctr % k
        out = (LIT * ((st + n) // k + 1))[st:st + n]      # same bytes as one-by-one, fast for 65537-byte pieces
        self.ctr += n
        return out

    def target_len(self, room, big=True):
        r = self.rnd
        c = [0, 1, 2, 5]
        if room is not None:
            c += [room - 1, room, room + 1, room, room + 1, room - 1, room + 2]
        if big:
            c += [62, 63, 64, 65, 200]
            if r.random() < 0.06:
                c = [255, 256, 257, 300, 319, 320, 511, 512, 513, 575, 576]
                if room is not None:
                    c += [256 + room - 1, 256 + room, 256 + room + 1, 512 + room, 512 + room + 1]
        n = r.choice(c)
        return max(0, n)

    def fmt_op(self, room):
        r = self.rnd
        # where the literal prefix ends relative to the room
        pl = r.choice([0, 0, 0, 1, 3] + ([room - 1, room, room + 1] if room is not None and r.random() < 0.5 else []))
        pl = max(0, min(pl, 210))
        pre = self.piece(pl)
        room2 = None if room is None else max(0, room - pl)
        spec = r.choice([0, 1, 1, 1, 2, 2, 3, 4])
        if spec == 0:
            return (6, pre, 0, None, [])
        L = self.target_len(room2)
        if spec == 1:
            sl = r.choice([0, 0, 1, 3])
            sl = min(sl, L)
            a = self.piece(L - sl)
            if r.random() < 0.03:
                a = a[:len(a) // 2] + [0] + a[len(a) // 2:]   # %s stops at the NUL
            return (6, pre, 1, a, self.piece(sl))
        if spec == 2:
            v = r.choice([0, 7, -1, 42, 2147483647, -2147483648, 123456, -99999, r.randint(-10 ** 9, 10 ** 9)])
            dl = len(str(v))
            return (6, pre, 2, v, self.piece(max(0, L - dl)))
        if spec == 3:
            return (6, pre, 3, None, self.piece(max(0, L - 1)))
        return (6, pre, 4, r.choice([65, 122, 255, 1, 37]), self.piece(max(0, L - 1)))

    def dbl_op(self, room):
        """append(double) & co. of a value with a 13/12-character text, a random bit pattern, a random decimal, a small integer"""
        r = self.rnd
        x = r.random()
        if x < 0.35:
            v = float('%s%d.%05de%s%d' % (r.choice(['-', '-', '']), r.randint(1, 9), r.randint(1, 99999), r.choice(['+', '-']), r.randint(100, 307)))
            b = bits_of(v)
        elif x < 0.55:
            b = r.randint(-2 ** 63, 2 ** 63 - 1)
        elif x < 0.8:
            b = bits_of(float('%s%d.%se%d' % (r.choice(['-', '']), r.randint(0, 9), r.randint(0, 10 ** r.randint(1, 8)), r.randint(-12, 12))))
        else:
            b = bits_of(float(r.randint(-10 ** 7, 10 ** 7)) / r.choice([1, 1, 2, 10, 1000]))
        m = r.choice([0, 0, 0, 1, 2, 3])
        return (10, m, b, g_text(m, b))

    def self_op(self, sh, kind, room, spilled):
        """append a slice of the builder's own text; lengths aimed at the room that is left (an inline / array builder
        that spills, a std::string that reallocates) and at the whole text"""
        r = self.rnd
        used = len(sh.text)
        m = r.choice([0, 0, 1, 2, 3])
        cand = [1, used, used, used // 2, used - 1]
        if room is not None:
            cand += [room - 1, room, room + 1, room + 2]
        n = min(max(r.choice(cand), 0), used)
        off = r.choice([0, 0, used - n, r.randint(0, used - n)])
        if r.random() < 0.05:
            off, n = r.choice([(-1, used + 3), (used, 1), (used + 5, 2), (0, -1), (1, 2 ** 40)])   # clamped by the caller
        o = (9, m, off, n)
        if kind == 0 and not spilled and not SBO_SELF_SPILL and room is not None and len(sh.own_slice(o)) > room:
            o = (9, 0, 0, min(room, used))
        return o

    def case(self, kind, cap, nops, flavour):
        r = self.rnd
        ini = self.piece(r.choice([0, 0, 1, 5, 62, 63, 64, 100])) if kind == 1 else []
        sh = Shadow(kind, cap, ini)
        spilled = False
        ops = []
        for _ in range(nops):
            used = len(sh.text)
            if kind == 2:
                room = sh.room()
            elif kind == 0 and not spilled:
                room = SBO - used
            elif kind == 3 and not spilled:
                room = max(cap - 1, 0) - used
            else:
                room = None
            if room is not None and room < 0:
                room = None
            big = used < 450
            if used and r.random() < 0.10:
                o = self.self_op(sh, kind, room, spilled)
                sh.apply(o)
                if room is not None and kind in (0, 3) and len(sh.text) > used + room:
                    spilled = True
                ops.append(o)
                continue
            if r.random() < 0.05:
                o = self.dbl_op(room)
                sh.apply(o)
                if room is not None and kind in (0, 3) and len(sh.text) > used + room:
                    spilled = True
                ops.append(o)
                continue
            x = r.random()
            if flavour == 'format':
                x = 0.5 + x * 0.3
            elif flavour == 'append':
                x = x * 0.5
            if x < 0.18:
                d = self.piece(self.target_len(room, big))
                if r.random() < 0.04 and d:
                    d[r.randrange(len(d))] = 0
                o = (1, d)
            elif x < 0.30:
                d = self.piece(self.target_len(room, big))
                if r.random() < 0.05 and len(d) > 1:
                    d[r.randrange(len(d))] = 0
                o = (2, d)
            elif x < 0.42:
                n = self.target_len(room, big)
                if kind == 2 and r.random() < 0.12:
                    n = r.choice([-1, -2, 2 ** 63 - 1, -2 ** 63, 2 ** 32, -used, -used - 1, -(used + 1) + 1])
                o = (3, n, r.choice([120, 121, 46, 255, 1]))
            elif x < 0.47:
                o = (4, r.choice([0, 9, 10, -1, -10, 2 ** 63 - 1, -2 ** 63, 99999, -100000, r.randint(-2 ** 63, 2 ** 63 - 1), r.randint(-10 ** 6, 10 ** 6)]))
            elif x < 0.50:
                o = (5, r.choice([0, -1, 2 ** 63 - 1, -2 ** 63, 10 ** 19 - 2 ** 64, 12345, r.randint(-2 ** 63, 2 ** 63 - 1)]))
            elif x < 0.80:
                o = self.fmt_op(room)
            elif x < 0.94:
                lim = sh.limit
                cand = [0, 1, used - 1, used, used + 1, used + 2, max(0, used // 2)]
                if room is not None:
                    cand += [used + room - 1, used + room, used + room + 1]
                if kind in (0, 3):
                    cand += [62, 63, 64]
                if lim is not None:
                    cand += [lim, lim + 1, lim - 1]
                    if r.random() < 0.1:
                        cand = [-1, 2 ** 63 - 1, 2 ** 40]
                n = r.choice(cand)
                if n < 0 and lim is None:
                    n = 0
                if lim is None:
                    n = min(n, 700)
                o = (7, n, r.choice([0, 0, 35, 36, 255]))
            else:
                o = (8,)
            sh.apply(o)
            if room is not None and kind in (0, 3) and len(sh.text) > used + room:
                spilled = True
            if kind in (0, 3) and not spilled and o[0] == 6:
                # a format whose total output exceeded the room spills
                pass
            ops.append(o)
        return encode(kind, cap, ini, ops)


def boundary_cases():
    """fixed regression shapes: exact fits at 62/63/64 inline, cap-1/cap/cap+1 on arrays, formatted and plain"""
    out = []
    g = Gen(random.Random(7))
    for L in (61, 62, 63, 64, 65):
        out.append((encode(0, 0, [], [(1, g.piece(L)), (1, g.piece(1)), (1, g.piece(1))]), 'sbo-plain-%d' % L))
        out.append((encode(0, 0, [], [(6, [], 1, g.piece(L), []), (6, [], 1, g.piece(1), []), (6, [], 2, 7, [])]), 'sbo-format-%d' % L))
        out.append((encode(0, 0, [], [(1, g.piece(60)), (6, [], 1, g.piece(L - 60), []), (6, g.piece(1), 3, None, [])]), 'sbo-format-tail-%d' % L))
        out.append((encode(0, 0, [], [(3, L, 120), (7, 63, 35), (7, 62, 35), (7, 64, 35), (8,), (4, -5)]), 'sbo-resize-%d' % L))
        out.append((encode(1, 0, g.piece(L), [(6, [], 1, g.piece(63), []), (6, [], 1, g.piece(64), []), (7, 3, 0), (2, g.piece(2))]), 'string-format-%d' % L))
    for cap in list(range(0, 9)) + [16, 63, 64, 65, 70]:
        for kind in (2, 3):
            kn = KINDN[kind]
            for d in (-2, -1, 0, 1, 2):
                L = max(0, cap - 1 + d)
                out.append((encode(kind, cap, [], [(1, g.piece(L)), (1, g.piece(1)), (4, 12)]), '%s-plain-cap%+d' % (kn, d)))
                out.append((encode(kind, cap, [], [(6, [], 1, g.piece(L), []), (6, [], 2, 5, []), (6, g.piece(2), 0, None, [])]), '%s-format-cap%+d' % (kn, d)))
                out.append((encode(kind, cap, [], [(3, max(0, L - 2), 46), (6, g.piece(1), 2, 7, []), (6, [], 3, None, []), (6, [], 4, 65, [])]), '%s-format-tail-cap%+d' % (kn, d)))
                out.append((encode(kind, cap, [], [(3, L, 46), (7, max(0, cap - 1), 35), (7, cap, 35), (8,), (2, g.piece(L))]), '%s-resize-cap%+d' % (kn, d)))
            out.append((encode(kind, cap, [], [(1, g.piece(1)), (3, -1, 120), (1, g.piece(1))] if kind == 2 else [(1, g.piece(1)), (3, 200, 120)]), '%s-huge-run' % kn))
            out.append((encode(kind, cap, [], [(3, -1, 120), (8,), (3, -2 ** 63, 121)] if kind == 2 else [(3, 64, 120), (8,), (3, 65, 121)]), '%s-huge-run' % kn))
    return out


# ---- lengths around the representation boundaries of the size arithmetic ('length-wraps') ----------
# A piece length n that is narrowed somewhere (uint8_t tag arithmetic of the inline buffer, a 16/32-bit
# temporary, int n of vsnprintf) behaves differently only when n >= 2^8 / 2^16 / .. AND the low part of n
# fits the remaining room, so every length is tried absolutely and relative to the room that is left.
WRAP_ABS = [255, 256, 257, 318, 319, 320, 511, 512, 513, 575, 576, 1000, 4095, 4096, 4097, 65535, 65536, 65537]
WRAP_FLAVOURS = ['bytes', 'cstr', 'run', 'resize', 'fmt-lit', 'fmt-s', 'fmt-pre-s', 'fmt-d', 'fmt-c', 'fmt-pct']
WRAP_FEW = ['bytes', 'run', 'resize', 'fmt-s', 'fmt-d']
HEAVY = 8000      # texts longer than this: few cases, and never a case of <= 400 integers (the driver's vm_compute
                  # sample takes those; Coq's printer overflows its stack on a 65537-element list)


def wrap_case(g, kind, cap, ini, used, L, flavour):
    """<= 3 ops: [bring the builder to `used` chars]; ONE piece of length L in the given flavour; a short append"""
    ops = []
    if used and flavour != 'fmt-pre-s':
        ops.append((1, g.piece(used)))
    if flavour == 'bytes':
        ops.append((1, g.piece(L)))
    elif flavour == 'cstr':
        ops.append((2, g.piece(L)))
    elif flavour == 'run':
        ops.append((3, L, 120))
    elif flavour == 'resize':
        ops.append((7, len(ini) + used + L, 35))
    elif flavour == 'fmt-lit':
        ops.append((6, g.piece(L), 0, None, []))
    elif flavour == 'fmt-s':
        ops.append((6, [], 1, g.piece(L), []))
    elif flavour == 'fmt-pre-s':          # the literal prefix is appended by appendFormat itself, then the %s body of length L
        ops.append((6, g.piece(used), 1, g.piece(max(0, L - 2)), g.piece(min(L, 2))))
    elif flavour == 'fmt-d':
        ops.append((6, [], 2, -7, g.piece(max(0, L - 2))))
    elif flavour == 'fmt-c':
        ops.append((6, [], 4, 65, g.piece(max(0, L - 1))))
    else:
        ops.append((6, [], 3, None, g.piece(max(0, L - 1))))
    text = len(ini) + used + L if kind != 2 else min(len(ini) + used + L, max(cap - 1, 0))
    short = len(encode(kind, cap, ini, ops)) <= 398
    if text > HEAVY and short:
        ops.append((1, g.piece(401)))      # keeps the case out of the vm_compute sample (see HEAVY)
    elif text <= HEAVY:
        ops.append((1, g.piece(1)))        # the builder goes on from the right text
    return encode(kind, cap, ini, ops)


def length_wrap_cases():
    g = Gen(random.Random(17))
    seen = set()
    out = []

    def add(kind, cap, ini, used, L, flavours):
        if L < 0:
            return
        for f in flavours:
            key = (kind, cap, len(ini), used, L, f)
            if key not in seen:
                seen.add(key)
                out.append(wrap_case(g, kind, cap, ini, used, L, f))

    for L in WRAP_ABS:
        if L < 4000:
            for u in (0, 7):
                add(0, 0, [], u, L, WRAP_FLAVOURS)
            for il in (0, 5):
                add(1, 0, g.piece(il), 0, L, WRAP_FLAVOURS)
            for cap, u in ((8, 0), (64, 3), (L, 0), (L + 1, 0), (L + 2, 0)):
                add(2, cap, [], u, L, WRAP_FLAVOURS)
            for cap, u in ((0, 0), (1, 0), (8, 0), (64, 0), (64, 3)):
                add(3, cap, [], u, L, WRAP_FLAVOURS)
        elif L < 60000:
            for u in (0, 7):
                add(0, 0, [], u, L, WRAP_FLAVOURS)
            add(1, 0, [], 0, L, WRAP_FLAVOURS)
            add(2, L + 1, [], 0, L, WRAP_FEW)
            add(2, 64, [], 3, L, WRAP_FLAVOURS)
            add(3, 8, [], 0, L, WRAP_FLAVOURS)
        else:
            add(0, 0, [], 0, L, WRAP_FLAVOURS)
            add(0, 0, [], 7, L, ['bytes', 'run'])
            add(1, 0, [], 0, L, ['run', 'resize', 'fmt-s'])
            add(2, L + 1, [], 0, L, ['bytes', 'run', 'fmt-s'])
            add(2, 64, [], 3, L, WRAP_FLAVOURS)
            add(3, 8, [], 0, L, ['bytes', 'run', 'resize', 'fmt-s'])
    # relative to the room that is left: 256*j + room (+-1); room = 63 - used inline, cap - 1 - used in an array
    for j in (1, 2, 16, 256):
        for d in (-1, 0, 1):
            for u in (0, 1, 7, 62, 63):
                L = 256 * j + (SBO - u) + d
                if j < 256:
                    add(0, 0, [], u, L, WRAP_FLAVOURS)
                elif u in (0, 63):
                    add(0, 0, [], u, L, ['bytes', 'run'])
            for cap in (1, 8, 64):
                for u in sorted({0, cap - 1}):
                    L = 256 * j + (cap - 1 - u) + d
                    if j < 256:
                        add(3, cap, [], u, L, WRAP_FEW)
                        add(2, cap, [], u, L, WRAP_FEW)
                    elif cap == 8:
                        add(3, cap, [], u, L, ['bytes', 'run'])
                        add(2, cap, [], u, L, ['bytes', 'run'])
    # fixed array: run / resize lengths are never materialised, so the 2^16 / 2^32 / 2^63 neighbourhoods are cheap
    for cap, u in ((8, 0), (8, 3), (64, 0), (300, 7)):
        room = cap - 1 - u
        for base in (2 ** 16, 2 ** 31, 2 ** 32, 2 ** 63):
            for d in (-1, 0, 1):
                add(2, cap, [], u, base + room + d, ['run', 'resize'])
                add(2, cap, [], u, base + d, ['run', 'resize'])
    return out


# ---- appends whose source is the builder's own text ('self-append') ---------------------------------------------
# An append must have value semantics: the bytes the argument denotes when the call is made.  The interesting cases are
# those in which the append moves or overwrites the storage the argument points into: an inline builder that spills (the
# union is overwritten by the string pointer), a std::string (the caller's, or the one a builder owns after spilling) that
# reallocates - around the SSO limit 15/16 and at every doubling of the capacity -, a caller's array that spills.
SBO_SELF_SPILL = True     # an INLINE builder whose self-append makes it spill: before /repo 230fbe6 it copied pointer bytes
                          # (the union is overwritten by the string pointer before the memcpy; patches/C17-self-append-spill.*)


def string_cap(cap, size):
    """libstdc++ std::string capacity after growing to `size` chars"""
    return cap if size <= cap else max(size, 2 * cap)


def self_append_cases():
    g = Gen(random.Random(19))
    out = []
    seen = set()

    def add(kind, cap, ini, ops, tag):
        c = encode(kind, cap, ini, ops)
        if tuple(c) not in seen:
            seen.add(tuple(c))
            out.append((c, tag))

    def flavours(kind, used, off, n):
        fl = [(9, 0, off, n), (9, 1, off, n)]
        if kind == 1:
            fl.append((9, 3, off, n))
        if off + n >= used:
            fl.append((9, 2, off, 0))
        return fl

    def slices(used, room):
        """(off, n) pairs: whole text, halves, one char, and lengths at room-1 / room / room+1 of the current storage"""
        sl = {(0, used), (0, 1), (used - 1, 1), (used // 2, used - used // 2), (0, used // 2), (1, used - 1)}
        if room is not None:
            for n in (room - 1, room, room + 1, room + 2):
                if 0 < n <= used:
                    sl.add((0, n))
                    sl.add((used - n, n))
        return sorted((o, n) for o, n in sl if n > 0 and o >= 0)

    tail = [(1, [35]), (4, 42)]
    # caller's std::string: the harness copies ini, capacity = max(15, len)
    for L in (1, 7, 8, 10, 14, 15, 16, 17, 24, 30, 31, 32, 40, 63, 64, 100, 300):
        ini = g.piece(L)
        cap0 = max(15, L)
        for off, n in slices(L, cap0 - L if cap0 > L else None):
            for o in flavours(1, L, off, n):
                add(1, 0, ini, [o] + tail, 'string')
        # one foreign char first: the string reallocates (doubling), then self-appends that just fit / just do not
        c1 = string_cap(cap0, L + 1)
        for off, n in slices(L + 1, c1 - (L + 1)):
            for o in flavours(1, L + 1, off, n)[:2]:
                add(1, 0, ini, [(1, g.piece(1)), o] + tail, 'string-doubling')
        # twice in a row: the second self-append reads the buffer the first one allocated
        add(1, 0, ini, [(9, 0, 0, L), (9, 0, 0, 2 * L), (9, 2, L, 0)] + tail, 'string-doubling')
        add(1, 0, ini, [(9, 2, 0, 0), (9, 1, L // 2, L), (7, 3, 0), (9, 0, 0, 3)], 'string-doubling')
    # self-contained builder: inline (63 chars) and after it spilled
    for u in (1, 7, 8, 9, 20, 31, 32, 40, 62, 63):
        pre = [(1, g.piece(u))]
        for off, n in slices(u, SBO - u):
            if n <= SBO - u or SBO_SELF_SPILL:
                for o in flavours(0, u, off, n):
                    add(0, 0, [], pre + [o] + tail, 'sbo-inline' if n <= SBO - u else 'sbo-spilling')
    for u in (64, 65, 70, 100, 127, 128, 129):
        pre = [(1, g.piece(u))]            # spills: capacity = u (reserve(used + n)); every further append reallocates
        for off, n in slices(u, None):
            for o in flavours(0, u, off, n):
                add(0, 0, [], pre + [o] + tail, 'sbo-spilled')
        add(0, 0, [], pre + [(9, 0, 0, u), (9, 0, u - 1, u + 1), (9, 2, 2 * u, 0)] + tail, 'sbo-spilled')
        k = string_cap(u, u + 1) - (u + 1)       # after one more char the capacity doubled: room k
        for n in (k - 1, k, k + 1):
            if 0 < n <= u + 1:
                add(0, 0, [], pre + [(1, g.piece(1)), (9, 0, 0, n), (9, 1, 1, n)] + tail, 'sbo-spilled')
    # caller's array that may spill: source in the caller's array while the builder switches to a std::string, and afterwards
    for cap in (2, 8, 16, 17, 33, 64):
        for u in sorted({1, cap // 2, cap - 2, cap - 1}):
            if u < 1 or u > cap - 1:
                continue
            pre = [(1, g.piece(u))]
            for off, n in slices(u, cap - 1 - u):
                for o in flavours(3, u, off, n):
                    add(3, cap, [], pre + [o] + tail, 'spill-array')
            add(3, cap, [], pre + [(9, 0, 0, u), (9, 0, 0, 2 * u), (9, 2, 0, 0), (9, 1, 3, 4 * u)] + tail, 'spill-array')
    # caller's fixed array: fits / exact / cut (ERANGE), source and destination in the same array
    for cap in (2, 3, 8, 16, 64, 70):
        for u in sorted({1, (cap - 1) // 2, cap - 2, cap - 1}):
            if u < 1 or u > cap - 1:
                continue
            pre = [(1, g.piece(u))]
            for off, n in slices(u, cap - 1 - u):
                for o in flavours(2, u, off, n):
                    add(2, cap, [], pre + [o] + tail, 'fixed')
            add(2, cap, [], pre + [(9, 0, 0, u), (9, 2, 0, 0), (8,), (9, 0, 0, 1), (1, g.piece(2)), (9, 1, 1, 1)], 'fixed')
    return out


def int_values():
    """integer appends at every boundary of the digit loop and of any narrower intermediate type: 2^k - 1, 2^k, 2^k + 1 (k = 0..64),
    10^k - 1, 10^k, 10^k + 1 (k = 0..19), numbers whose decimal text STARTS with the digits of 2^32 / 2^31 / 2^16 (a quotient that hits the
    boundary inside the loop - seeded C17-r8: `n > 2^32` instead of `>=` before narrowing to 32 bits), and their negations"""
    vs = set()
    for k in range(0, 65):
        vs.update((2 ** k - 1, 2 ** k, 2 ** k + 1))
    for k in range(0, 20):
        vs.update((10 ** k - 1, 10 ** k, 10 ** k + 1))
    for b in (2 ** 32, 2 ** 31, 2 ** 16, 2 ** 32 - 1, 2 ** 32 + 1):
        for tail in ('7', '123', '0', '00', '9999999'):
            vs.add(int(str(b) + tail))
    return sorted(vs)


def int_append_cases():
    out = []
    for v in int_values():
        for kind, cap in ((0, 0), (2, 24), (2, 5)):
            if v < 2 ** 64:
                out.append((encode(kind, cap, [], [(5, v - 2 ** 64 if v >= 2 ** 63 else v)]), 'unsigned'))
            if v < 2 ** 63:
                out.append((encode(kind, cap, [], [(4, v)]), 'signed'))
            if 0 < v <= 2 ** 63:
                out.append((encode(kind, cap, [], [(1, [120]), (4, -v)]), 'signed-negative'))
    return out


# ---- append(double) / append(float) / xconvert(std::string&, double) / toString(double) ('double-...') -----------
# "%g" prints at most 13 characters: sign, six significant digits with the point, e, sign, THREE exponent digits
# (seeded C17-r15: a local buffer sized for 'd.ddddde+ddd' forgot the sign and cut the last exponent digit of exactly those).
def double_values():
    vs = [
        # 13 characters: negative, six significant digits, three-digit exponent
        -1.23457e+100, -9.87654e-200, -5e-324, -1.7976931348623157e+308, -2.2250738585072014e-308, -2.2250738585072009e-308,
        -1.11111e+300, -6.02214e+123, -3.14159e-100, -9.99999e+99 * 10.0, -1.00001e+100, -1.00001e-100, -9.99999e+307,
        # their positive twins (12 characters) and other three-digit exponents
        1.23457e+100, 9.87654e-200, 5e-324, 1.7976931348623157e+308, 2.2250738585072014e-308, 2.2250738585072009e-308, 1e+100, -1e+100,
        1e-100, -1e-100, 1.5e+100, -1.5e+100, 1.25e+100, -1.25e+100, 1.125e-300, -1.125e-300, 1.2345e+200, -1.2345e+200,
        # two-digit exponents, the e-05 / e+06 switches of the notation, rounding into the next decade
        1e+99, -1e+99, 9.99999e+99, -9.99999e+99, 9.999995e+99, -9.999995e+99, 9.9999949e-100, 1e+10, -1e+10, 1.5e+10, -1.5e+10, 1.23457e+10,
        -1.23457e+10, 1e5, 1e6, -1e6, 999999.0, 999999.4, 999999.5, -999999.5, 123456.0, 1234567.0, -123456.0, 123456.5, 100000.5,
        0.0001, 0.00001, -0.0001, -0.00001, 0.000123456, 0.0000123456, 0.00012345678, 0.000099999949, 0.00009999996,
        # signed zeros, integers, short fractions
        0.0, -0.0, 1.0, -1.0, 7.0, 42.0, -42.0, 1.5, -1.5, 0.5, -0.25, 3.14159, -3.14159, 3.1415926535, 2.5e-5, 1234.5, -1234.56, 65536.0,
        4294967296.0, 9007199254740993.0, 0.1, 1.0 / 3.0, -2.0 / 3.0,
        # float range limits (append(float))
        3.4028234663852886e+38, -3.4028234663852886e+38, 1.1754943508222875e-38, -1.401298464324817e-45, 3.5e+38, -1e+39,
    ]
    bits = [bits_of(v) for v in vs]
    # non-finite: inf, -inf, quiet nan with either sign
    bits += [0x7ff0000000000000, 0xfff0000000000000 - TWO64, 0x7ff8000000000000, 0xfff8000000000000 - TWO64]
    seen, out = set(), []
    for b in bits:
        if b not in seen:
            seen.add(b)
            out.append(b)
    lens = {len(g_text(0, b)) for b in out}
    assert lens == set(range(1, 14)), lens          # a value at every text length 1..13
    return out


def double_cases():
    g = Gen(random.Random(23))
    out = []
    for b in double_values():
        for m in (0, 1, 2, 3):
            t = g_text(m, b)
            L = len(t)
            o = (10, m, b, t)
            tail = [(1, [35])]
            if m == 0 or L >= 12:
                shapes = [(0, 0, [], []), (1, 0, [], []), (1, 0, g.piece(20), []), (0, 0, [], [(1, g.piece(SBO - L))]),
                          (0, 0, [], [(1, g.piece(SBO - L + 1))]), (0, 0, [], [(1, g.piece(70))]),
                          (2, L + 1, [], []), (2, L, [], []), (2, L + 2, [], []), (2, L + 4, [], [(1, g.piece(3))]), (2, L + 3, [], [(1, g.piece(3))]),
                          (2, 64, [], []), (2, 0, [], []), (2, 1, [], []), (2, 2, [], []),
                          (3, L + 1, [], []), (3, L, [], []), (3, 64, [], []), (3, 0, [], []), (3, L + 3, [], [(1, g.piece(3))])]
            else:
                shapes = [(0, 0, [], []), (1, 0, g.piece(3), []), (2, L + 1, [], []), (2, L, [], []), (3, L, [], [])]
            for kind, cap, ini, pre in shapes:
                out.append((encode(kind, cap, ini, pre + [o] + tail), 'double-%s-len%d' % (('double', 'float', 'xconvert', 'tostring')[m], L)))
    # several numbers in a row (the text is the concatenation of what was appended)
    vs = double_values()
    for i in range(0, len(vs) - 2, 3):
        ops = [(10, 0, b, g_text(0, b)) for b in vs[i:i + 3]]
        for kind, cap in ((0, 0), (1, 0), (2, 30), (2, 40), (3, 20)):
            out.append((encode(kind, cap, [], ops + [(4, -7)]), 'double-sequence'))
    return out


def gen(seed, tier):
    rnd = random.Random(seed * 1000003 + 17)
    total = {'quick': 6000, 'thorough': 300000, 'search': 6000}.get(tier, 6000)
    out = [(c, {'kind': 'boundary-' + k.rsplit('-cap', 1)[0] if '-cap' in k else 'boundary-' + k}) for c, k in boundary_cases()]
    wraps = length_wrap_cases()
    out += [(c, {'kind': 'length-wraps'}) for c in wraps]
    total += len(wraps)               # on top of the random stream, not instead of it
    selfs = self_append_cases()
    out += [(c, {'kind': 'self-append-' + k}) for c, k in selfs]
    total += len(selfs)
    ints = int_append_cases()
    out += [(c, {'kind': 'int-boundary-' + k}) for c, k in ints]
    total += len(ints)
    dbls = double_cases()
    out += [(c, {'kind': k}) for c, k in dbls]
    total += len(dbls)
    g = Gen(rnd)
    while len(out) < total:
        kind = rnd.choice([0, 1, 2, 2, 2, 3, 3])
        cap = rnd.choice([0, 1, 2, 3] + list(range(0, 71))) if kind >= 2 else 0
        flavour = rnd.choice(['mixed', 'mixed', 'format', 'append'])
        nops = rnd.randint(1, 9)
        out.append((g.case(kind, cap, nops, flavour), {'kind': 'random-%s-%s' % (KINDN[kind], flavour)}))
    return out


def shrink(case, fails):
    kind, cap, ini, ops = decode(case)
    changed = True
    while changed:
        changed = False
        for i in range(len(ops) - 1, -1, -1):
            t = ops[:i] + ops[i + 1:]
            if fails(encode(kind, cap, ini, t)):
                ops = t
                changed = True
        if ini and fails(encode(kind, cap, [], ops)):
            ini = []
            changed = True
    return encode(kind, cap, ini, ops)


def mutate(case, rnd):
    kind, cap, ini, ops = decode(case)
    out = []
    for k in (0, 1, 2, 3):
        out.append(encode(k, cap, ini if k == 1 else [], ops))
    for d in (-1, 1):
        if cap + d >= 0:
            out.append(encode(kind, cap + d, ini, ops))
    return out


LEVEL_TEXT = ('Machine-checked refinement proof (Coq): a cell-level model of StringBuilder (64-byte union with the tag in cell 63, '
              'caller array with out-of-range stores as Fault, std::string and vsnprintf modelled) refines an abstract builder '
              '(kind, capacity, text) for every operation sequence, all four kinds and every capacity >= 0; the fixed kind never '
              'faults, keeps the longest prefix that fits and raises ERANGE iff something was cut; the others never lose a byte; '
              'an append whose source is a slice of the builder\'s own text behaves in every reachable state exactly like a foreign append of the same bytes. '
              'append(double)/append(float) are the formatted piece "%g" (text supplied with the case, the model has no floating point; the implementation\'s text '
              'is compared with python\'s %g by the oracle). '
              'The model is tied to the code by differential correspondence (extracted model vs. ASan/UBSan build of the real class, '
              'caller arrays between canary blocks) plus an independent shadow-string oracle on the implementation.')
LEVEL_NOTE = ('Trusted: Coq kernel/vm_compute, extraction+driver (sample cross-checked by vm_compute), harness, translator; '
              'std::string and vsnprintf modelled; memory exhaustion and INT_MAX-long expansions excluded.')
TECHNIQUE = 'Coq refinement proof of an executable model + differential correspondence with the implementation'
DESIGN_REF = 'DESIGN.md section 5, C17'
READY = True
