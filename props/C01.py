"""C01 - aspif writer and reader are inverses.

Case (see coq/C01/Model.v):
  mode 0/1:  mode N call...        calls -> real AspifOutput -> text -> real AspifInput (0 = readProgram, 1 = incremental caller loop)
             observation: |text| text... accepted line reports delivered-calls...
  mode 2/3:  mode N len byte...    text -> reader; if accepted: delivered calls -> writer -> text2 -> reader again
             observation: accepted line reports |enc| calls... [|text2| text2... accepted line reports calls...]

Oracle (implementation alone): for a call sequence inside the documented ranges the calls read back must be exactly
norm(p) (only weight-0 pairs removed) in every read mode and for every buffer size; for an accepted text, writing what
was read and reading it again must reproduce the identical calls.
"""
import random
from props import calls as C
from props import aspif_ref as R
from props import C03 as T

PID = 'C01'
HARNESS = 'h_c01'
HARNESS_EXTRA = ('c01_read.h', 'rec.h', 'reuse.h')
MODEL_MODULE = 'V.C01.Model'
SIZES = [4096, 16, 32, 67]
VARIANTS = {('N%d' % n): ({} if n == 4096 else {'POTASSCO_VERIF_BUF_SIZE': n}) for n in SIZES}
INT_MAX, INT_MIN, UINT_MAX = R.INT_MAX, R.INT_MIN, R.UINT_MAX


def variant_of(c):
    return 'N%d' % c[1]


def mk(mode, n, calls):
    return [mode, n] + C.enc_all(calls)


def mk_text(mode, n, text):
    return [mode, n, len(text)] + list(text)


def program_of(c):
    cs, rest = C.dec_all(c[2:])
    return cs


def describe(c):
    rd = T.reader(c)    # harness/reuse.h: every other case reads with a reader object that read / refused a primer text before
    if T.primed(c):     # ... and writes with an AspifOutput object that has written another (incremental, abandoned) program before; that text is discarded
        rd += ' writer=reused'
    if c[0] < 2:
        p = program_of(c)
        s = C.pretty(p)
        return 'mode=%s N=%d reader=%s program=[%s]' % ('complete' if c[0] == 0 else 'incremental', c[1], rd, s[:900] + ('...' if len(s) > 900 else ''))
    t = bytes(x & 255 for x in c[3:3 + c[2]])
    return 'reread mode=%s N=%d reader=%s text=%r' % ('complete' if c[0] == 2 else 'incremental', c[1], rd, t[:400])


def wf_program(p):
    return R.wf_trace(p) and all(R.wf_call(c) for c in p)


def oracle(c, obs):
    if obs and obs[0] == -999:
        return ['harness:buffer-size-variant-mismatch']
    if obs and obs[0] < 0 and len(obs) == 1:
        return ['writer-threw']
    sig = []
    if c[0] < 2:
        p = program_of(c)
        n = obs[0]
        acc, line, rep, cs, rest = R.dec_obs_read(obs[1 + n:])
        if acc < 0:
            return ['exception-escaped-the-error-handler']
        if wf_program(p):
            if acc != 1 or rep != 0:
                sig.append('roundtrip-rejected')
            elif R.canon(cs) != R.canon(R.norm(p)) or rest:
                sig.append('roundtrip-differs')
        else:
            # outside the documented ranges nothing is claimed about acceptance, but an accepted text must still denote what was read
            if acc == 1 and R.canon(cs) != R.canon(R.norm(p)):
                sig.append('ill-formed-program-read-back-as-a-different-program')
    else:
        acc, line, rep = obs[0], obs[1], obs[2]
        k = obs[3]
        cs1, rest1 = C.dec_all(obs[4:4 + k])
        if acc < 0:
            return ['exception-escaped-the-error-handler']
        if acc == 1:
            o2 = obs[4 + k:]
            if not o2 or o2[0] < 0:
                return ['writer-threw-on-delivered-calls']
            n2 = o2[0]
            acc2, line2, rep2, cs2, rest2 = R.dec_obs_read(o2[1 + n2:])
            if acc2 != 1 or rep2 != 0:
                sig.append('reread-rejected')
            elif R.canon(cs2) != R.canon(cs1):
                sig.append('reread-differs')
    return sig


def nontrivial(c, obs):
    if c[0] < 2:
        return len(program_of(c)) >= 4
    return obs[0] == 1 and obs[3] > 6


# ------------------------------------------------------------------------------------------------------
# generators
# ------------------------------------------------------------------------------------------------------
def each_directive(rnd):
    """one program per directive kind with extreme arguments"""
    A, I = INT_MAX, INT_MIN
    big = 2 ** 31
    ds = [
        (4, 0, [], []), (4, 1, [1, A], [-A, A, 1, -1]), (4, 0, [A] * 5, []),
        (5, 0, [], 0, []), (5, 1, [1], I, [(1, 0), (-A, A), (2, 0), (3, 1)]), (5, 0, [2], A, [(A, A)]), (5, 0, [2], -1, [(1, 0)]),
        (6, I, []), (6, A, [(1, I), (-1, A), (2, 0), (A, -1)]), (6, 0, [(1, 0)]),
        (7, []), (7, [1, A, 2]),
        (8, b'', []), (8, b'a b\nc\r\n 12 0\t', [1, -A]), (8, bytes(range(1, 256)), []), (8, b' ', [A]), (8, b'0', []), (8, b'\n', []), (8, b'\r', []), (8, b'\r\n', [1]),
        (9, 1, 0), (9, A, 3), (9, 2, 1), (9, 3, 2),
        (10, []), (10, [A, -A]),
        (11, 1, 0, 0, 0, []), (11, A, 5, I, A, [-A]), (11, 2, 3, A, 1, [1, 2]),
        (12, 0, 0, []), (12, A, A, [A, -1]),
        (13, 0, 0), (13, UINT_MAX, I), (13, big, A), (13, big - 1, -1),
        (14, 0, b''), (14, UINT_MAX, b'x y'), (14, big, b'\n0\n'),
        (15, 0, -3, []), (15, UINT_MAX, A, [0, UINT_MAX, big]), (15, 1, -1, [1]), (15, 1, 0, [big]),
        (16, 0, [], []), (16, UINT_MAX, [UINT_MAX, 0], [A, -A]), (16, big, [big], []),
        (17, 0, 0, []), (17, UINT_MAX, UINT_MAX, [UINT_MAX, big, 0]), (17, A, big, [1]),
        (18, 0, 0, [], 0, 0), (18, UINT_MAX, UINT_MAX, [UINT_MAX], UINT_MAX, UINT_MAX), (18, big, big, [big], big, big),
    ]
    out = []
    for d in ds:
        out.append([(1, False), (2,), d, (3,)])
    out.append([(1, True), (2,)] + ds + [(3,), (2,), (3,), (2,)] + ds[:8] + [(3,)])
    out.append([(1, False), (2,), (3,)])
    out.append([(1, True), (2,), (3,)])
    out.append([(1, True), (2,), (3,), (2,), (3,), (2,), (3,)])
    return out


def invalid_program(rnd):
    """a valid program with one argument pushed outside its documented range (no claim about acceptance)"""
    p = C.r_program(rnd, small=6)
    idx = [i for i, c in enumerate(p) if c[0] > 3]
    if not idx:
        return p
    i = rnd.choice(idx)
    c = list(p[i])
    t = c[0]
    A = INT_MAX
    if t == 4:
        c = rnd.choice([(4, c[1], [0], c[3]), (4, c[1], c[2], [0]), (4, c[1], [2 ** 31], c[3]), (4, c[1], c[2], [INT_MIN]), (4, c[1], [UINT_MAX], [])])
    elif t == 5:
        c = rnd.choice([(5, c[1], c[2], c[3], [(1, -1)]), (5, c[1], c[2], c[3], [(0, 1)]), (5, c[1], c[2], c[3], [(INT_MIN, 1)])])
    elif t == 6:
        c = (6, c[1], [(0, 1)])
    elif t == 7:
        c = (7, [0])
    elif t == 9:
        c = rnd.choice([(9, 2 ** 31, 1), (9, UINT_MAX, 0)])
    elif t == 11:
        c = rnd.choice([(11, c[1], c[2], c[3], 2 ** 31, c[5]), (11, c[1], c[2], c[3], UINT_MAX, c[5]), (11, 2 ** 31 + 5, c[2], c[3], 1, c[5])])
    elif t == 12:
        c = rnd.choice([(12, -1, 0, c[3]), (12, 0, INT_MIN, c[3])])
    elif t == 15:
        c = (15, c[1], rnd.choice([-4, INT_MIN]), c[3])
    else:
        return p
    p[i] = tuple(c)
    return p


def trace_variants(rnd):
    """call sequences that are not a wf trace (no claim; correspondence only)"""
    d = (4, 0, [1], [])
    return [[(1, False), (2,), d, (3,), (2,), d, (3,)],       # two steps, not incremental
            [(1, False), (2,), d],                            # no endStep
            [(2,), d, (3,)],                                  # no initProgram
            [(1, False)], [],
            [(1, True), (2,), d, (3,), (1, True), (2,), (3,)]]


def gen(seed, tier):
    rnd = random.Random(seed * 1000003 + 1)
    total = {'quick': 2600, 'thorough': 100000, 'search': 4000}.get(tier, 2600)
    out = []
    for p in each_directive(rnd):
        for mode in (0, 1):
            for n in SIZES:
                out.append((mk(mode, n, p), {'kind': 'each-directive-extreme'}))
    for p in trace_variants(rnd):
        for n in (4096, 16):
            out.append((mk(0, n, p), {'kind': 'ill-formed-trace'}))
    # strings whose length is around the buffer size / crossing refills
    for n in SIZES:
        for ln in sorted(set([n - 12, n - 2, n - 1, n, n + 1, 2 * n - 1, 2 * n + 3, 3 * n])):
            s = bytes(rnd.choice([97, 32, 10, 13, 48, 57, 200, 9]) for _ in range(max(0, ln)))
            p = [(1, False), (2,), (8, s, [1]), (14, 2 ** 31 + 1, s), (3,)]
            out.append((mk(rnd.choice([0, 1]), n, p), {'kind': 'string-around-buffer'}))
    nbig = {'quick': 16, 'thorough': 400, 'search': 8}.get(tier, 16)
    for _ in range(nbig):
        p = C.r_program(rnd, steps=rnd.choice([1, 2, 4]), ndir=rnd.choice([100, 300, 900]), small=rnd.choice([6, 1000]))
        out.append((mk(rnd.choice([0, 1]), rnd.choice(SIZES), p), {'kind': 'program-big'}))
    while len(out) < total:
        r = rnd.random()
        n = rnd.choice(SIZES)
        if r < 0.6:
            p = C.r_program(rnd, small=rnd.choice([3, 6, 6, 50]))
            out.append((mk(rnd.choice([0, 1]), n, p), {'kind': 'program-random'}))
        elif r < 0.7:
            out.append((mk(rnd.choice([0, 1]), n, invalid_program(rnd)), {'kind': 'program-one-argument-out-of-range'}))
        else:
            t = T.valid_text(rnd) if rnd.random() < 0.8 else T.fault_text(rnd)[0]
            if R.cheap(t):
                out.append((mk_text(rnd.choice([2, 3]), n, t), {'kind': 'reread-text'}))
    return out


def shrink(case, fails):
    if case[0] >= 2:
        return case
    mode, n = case[0], case[1]
    p = program_of(case)
    changed = True
    while changed:
        changed = False
        for i in range(len(p) - 1, -1, -1):
            if p[i][0] <= 3:
                continue
            q = p[:i] + p[i + 1:]
            if fails(mk(mode, n, q)):
                p = q
                changed = True
        # shrink list arguments
        for i, c in enumerate(p):
            for j, f in enumerate(c):
                if isinstance(f, list) and f:
                    for k in range(len(f) - 1, -1, -1):
                        g = f[:k] + f[k + 1:]
                        q = p[:i] + [tuple(list(c[:j]) + [g] + list(c[j + 1:]))] + p[i + 1:]
                        if fails(mk(mode, n, q)):
                            p = q
                            changed = True
                            break
                    if changed:
                        break
            if changed:
                break
    return mk(mode, n, p)


def mutate(case, rnd):
    if case[0] >= 2:
        return T.mutate([case[0] - 2] + case[1:], rnd)
    out = []
    for _ in range(6):
        out.append(mk(case[0], case[1], C.r_program(rnd, small=rnd.choice([3, 6, 50]))))
    return out


RULE = ('cases = (read mode, BUF_SIZE in {4096,16,32,67}, call sequence | text); streams: one program per directive kind with extreme arguments (1, 2^31-1, +-(2^31-1), INT_MIN, '
        '0, 2^31, 2^32-1, empty lists, strings with blanks/newlines/CR/digits/all byte values), strings around k*BUF_SIZE, random programs of 1-4 steps (props/calls.py), '
        'programs of 3-40 KiB, programs with one argument out of range and ill-formed traces (correspondence only), accepted/faulty texts for write-what-was-read; '
        ''
        'every other case (hash of the case) is read by a reader OBJECT that before read or REFUSED one of the 8 aspif primer texts of harness/reuse.h (accepted incremental ones; refused inside a rule / theory atom / string / second step / problem line, as extra input) and written by an AspifOutput OBJECT that has written another (incremental, abandoned) program before; '
        'non-trivial = at least two directives written or an accepted text with directives; distinct = distinct case tuples')
TRUSTED_BASE = ['props/aspif_ref.py norm/wf_call/wf_trace (python statement of the round-trip claim used as oracle on the implementation)',
                'coq/C09/Spec.v abstract stream (C09 proves the real BufferedStream refines it; not re-proved here)',
                'std::ostream operator<< for int / unsigned / size_t modelled by Lib/Dec.v print_Z / print_nat']
ASSUMPTIONS = ['strings without NUL bytes and of at most 2^31-1 bytes; lists of at most 2^32-1 elements (the count fields of the format)',
               'RuleBuilder memory modelled as unbounded lists (no 2^30-byte rule)']
LEVEL_TEXT = ('Machine-checked proofs (Coq) about executable models of AspifOutput and AspifInput/ProgramReader over the abstract stream: see notes/C01.md for the theorem list; '
              'models tied to the code by differential correspondence (writer bytes byte for byte; reader in both read modes at four buffer sizes).')
LEVEL_NOTE = 'Trusted: Coq kernel, extraction (cross-checked by vm_compute on a sample), harness, python oracle; C09 stream refinement assumed from C09.'
TECHNIQUE = 'Coq proof about an executable model + differential correspondence with the implementation'
DESIGN_REF = 'DESIGN.md section 5, C01'
READY = True
