"""C16 - string <-> value conversion round-trips and rejects what does not fit.

Case protocol (coq/C16/Model.v run_case, harness/h_c16.cpp):
  0 ty e len bytes   xconvert + string_cast of a scalar        -> tok val consumed errno cast_ok cast_val
  1 ty v             toString(v) then stringTo                 -> |s| s ok back
  2 ta tb e len bytes  pair parse                              -> sum first second consumed cast_ok
  3 ta tb a b        pair print + back                         -> |s| s ok a' b'
  4 ty e len bytes   vector parse                              -> t consumed elems.. cast_ok
  5 ty n v1..vn      vector print + back                       -> |s| s ok m elems..
  6 k                platform limits / enum class meta data
  7 ty lo hi         implementation-side sweep of stringTo(toString(v)) over lo..hi -> #failures first
  8 k ...            lists written into NON-EMPTY accumulators (appending xconvert(std::string&, ...)):
      8 0 ta a ty n v..           toString(A(a), vector<T>)            -> |s| s tok a' consumed [lok m elems.. | 0 0]
      8 1 ta a tb b ty n v..      toString(A(a), B(b), vector<T>)      -> |s| s tok a' k [tok b' k [lok m elems.. | 0 0] | 0 0 0 0 0]
      8 2 ty sep plen bytes n v.. accu = bytes; xconvert(accu, begin, end, char(sep)); xconvert(accu.c_str()+plen, vector<T>&, &end, sep)
                                                                       -> |accu| accu t consumed elems..
      8 3 ty d n v.. m w..        accu = ""; xconvert(accu, l1); accu += char(d); xconvert(accu, l2) -> |accu| accu |part1| ok1 m1 e.. ok2 m2 e..
      8 4 ty n v..                accu = "["; xconvert(accu, vec); accu += "]"; string_cast(accu)    -> |accu| accu ok m elems..
  9 k ...            the STREAM-PARSED types (30 signed char, 31 unsigned char, 32 short, 33 unsigned short): no typed overload, served by
                     the fall back template xconvert(const char*, T&, const char**, double) (std::istream over the string, end from tellg())
      9 0 ty e len bytes      scalar                                   -> tok val end errno cast_ok cast_val
      9 1 ta tb e len bytes   pair<A,B>, A / B in {30..33, char, int}   -> sum first second end cast_ok
      9 2 ty m e len bytes    m = 0 vector<T>, m = 1..3 array T[m]      -> t end elems.. cast_ok   (t end -996: the list parser made no progress)
      9 4                     <climits> of the narrow types
ty: 0 bool 1 char 2 int 3 unsigned 4 long 5 unsigned long 6 long long 7 unsigned long long 8..16 the library's enums
    17 Level_t 18 Sparse_t 19 Neg_t 20 Off_t 21 Unord_t 22 One_t: enumerations harness/h_c16.cpp declares with the PUBLIC macros
    (scalars: ops 0 1 6; vectors: ops 4 5; pairs: <E,int>, <int,E>, <E,E>)

The oracle judges the IMPLEMENTATION's observation with python big integers and its own reading of the
property (it shares nothing with the Coq model): an independent `denote` for numerals, its own parse of the
enum macros in the headers, value-level round trip.
"""
import os
import random
import re

PID = 'C16'
HARNESS = 'h_c16'
MODEL_MODULE = 'V.C16.Model'
NPAR = 8
VARIANTS = {('p%d' % i): {} for i in range(NPAR)}      # same build; only used to run the harness in parallel
REPO = os.environ.get('VERIF_REPO', '/repo')

BOOL, CHAR, INT, UINT, LONG, ULONG, LLONG, ULLONG = range(8)
RANGE = {INT: (-2 ** 31, 2 ** 31 - 1), UINT: (0, 2 ** 32 - 1), LONG: (-2 ** 63, 2 ** 63 - 1), ULONG: (0, 2 ** 64 - 1),
         LLONG: (-2 ** 63, 2 ** 63 - 1), ULLONG: (0, 2 ** 64 - 1)}
NUMERIC = [INT, UINT, LONG, ULONG, LLONG, ULLONG]
TYNAME = {0: 'bool', 1: 'char', 2: 'int', 3: 'unsigned', 4: 'long', 5: 'unsigned long', 6: 'long long', 7: 'unsigned long long',
          8: 'Head_t', 9: 'Body_t', 10: 'Value_t', 11: 'Heuristic_t', 12: 'Directive_t', 13: 'Theory_t', 14: 'Tuple_t',
          15: 'Clause_t', 16: 'Statistics_t', 17: 'Level_t', 18: 'Sparse_t', 19: 'Neg_t', 20: 'Off_t', 21: 'Unord_t', 22: 'One_t',
          30: 'signed char', 31: 'unsigned char', 32: 'short', 33: 'unsigned short'}
STREAM = [30, 31, 32, 33]            # types without a typed overload: parsed by the stream fall back template
ENUM_HDR = {8: 'potassco/basic_types.h', 9: 'potassco/basic_types.h', 10: 'potassco/basic_types.h', 11: 'potassco/basic_types.h',
            12: 'potassco/basic_types.h', 13: 'potassco/theory_data.h', 14: 'potassco/theory_data.h', 15: 'potassco/clingo.h',
            16: 'potassco/clingo.h'}
# enumerations declared by the harness with POTASSCO_ENUM_CONSTANTS / POTASSCO_ENUM_CONSTANTS_T in shapes no library enumeration has
HARNESS_SRC = os.path.join(os.path.dirname(os.path.dirname(os.path.abspath(__file__))), 'harness', 'h_c16.cpp')
NEW_ENUMS = [17, 18, 19, 20, 21, 22]
for _t in NEW_ENUMS:
    ENUM_HDR[_t] = HARNESS_SRC
ENUM_CODES = list(range(8, 17)) + NEW_ENUMS
COMP = [0, 1, 2, 3, 6, 7, 10, 14]
SPACE = b' \t\n\v\f\r'
BOOL_WORDS = {b'1': 1, b'0': 0, b'no': 0, b'on': 1, b'yes': 1, b'off': 0, b'true': 1, b'false': 0}
CHAR_ESC = {b'\\t': 9, b'\\n': 10, b'\\v': 11}


def variant_of(c):
    return 'p%d' % (hash(tuple(c[:40])) % NPAR)


# ------------------------------------------------------------------------------------------------
# the oracle's own reading of the sources: enum constants
# ------------------------------------------------------------------------------------------------
_ENUMS = {}


def enum_table(ty):
    """[(key bytes, value)] in declaration order, (min, max) - parsed from the declaration, independently of tools/consts, by the
    rules of C++ (an enumerator without initialiser is the previous one + 1, the first one 0) and of the public macros
    (POTASSCO_ENUM_CONSTANTS: min = 0; POTASSCO_ENUM_CONSTANTS_T: min = the caller's minVal; max = the last enumerator)."""
    if ty in _ENUMS:
        return _ENUMS[ty]
    txt = open(os.path.join(REPO, ENUM_HDR[ty]), encoding='latin-1').read()     # (an absolute ENUM_HDR wins: the harness source)
    txt = re.sub(r'/\*.*?\*/', ' ', txt, flags=re.S)
    txt = re.sub(r'//[^\n]*', ' ', txt)
    m = re.search(r'POTASSCO_ENUM_CONSTANTS(_T)?\s*\(\s*' + TYNAME[ty] + r'\s*,(.*?)\)\s*;', txt, re.S)
    tab, mn = [], 0
    if m:
        items = [x.strip() for x in m.group(2).split(',')]
        if m.group(1):
            mn = int(items[1].rstrip('uU'))
            items = items[2:]
        cur = -1
        for it in items:
            if '=' in it:
                k, v = it.split('=')
                cur = int(v.strip())
            else:
                k = it
                cur += 1
            tab.append((k.strip().encode(), cur))
    _ENUMS[ty] = (tab, mn, (tab[-1][1] if tab else mn - 1))
    return _ENUMS[ty]


def is_enum(ty):
    return 8 <= ty <= 22


def enum_consts(ty):
    return [v for _, v in enum_table(ty)[0]]


NOT_A_CONSTANT = 'enum:number-that-is-no-constant-accepted'


# ------------------------------------------------------------------------------------------------
# reference semantics (python big integers)
# ------------------------------------------------------------------------------------------------
def wrap_s(bits, v):
    return (v + 2 ** (bits - 1)) % 2 ** bits - 2 ** (bits - 1)


def norm(ty, v):
    """static_cast<T>(long long)"""
    if ty == BOOL:
        return 1 if v else 0
    if ty == CHAR:
        return v % 256
    if ty in (UINT,):
        return v % 2 ** 32
    if ty in (ULONG, ULLONG):
        return v % 2 ** 64
    if ty in (LONG, LLONG):
        return wrap_s(64, v)
    return wrap_s(32, v)


def dec_val(ty, x):
    """value printed by the harness (as long long) -> value of type ty"""
    return x % 2 ** 64 if ty in (ULONG, ULLONG) else x


HEX = re.compile(rb'0[xX]([0-9a-fA-F]+)\Z')
OCT = re.compile(rb'0[0-7]+\Z')
DEC = re.compile(rb'[ \t\n\v\f\r]*([+-]?)([0-9]+)\Z')


def denote_num(p):
    """The number a numeral denotes: 0x/0X hexadecimal, leading-0 octal, otherwise (white space, sign) decimal.
    The base is the one announced by the first two characters of the text (the library's detectBase)."""
    m = HEX.match(p)
    if m:
        return int(m.group(1), 16)
    if OCT.match(p):
        return int(p, 8)
    m = DEC.match(p)
    if m:
        v = int(m.group(2))
        return -v if m.group(1) == b'-' else v
    return None


def denote(ty, p):
    """number denoted by p for integer type ty, keywords included; None if p is not a numeral"""
    lo, hi = RANGE[ty]
    if lo < 0:
        if p == b'imax':
            return hi
        if p == b'imin':
            return lo
    else:
        if p == b'umax' or p == b'-1':
            return hi
        if p == b'imax':
            return hi >> 1
    return denote_num(p)


def canonical(ty, v):
    """the text the round-trip half of the property is about: plain decimal (the library may print a keyword instead)"""
    return str(v).encode()


def cstr(bs):
    b = bytes(x % 256 for x in bs)
    i = b.find(b'\0')
    return b if i < 0 else b[:i]


# ------------------------------------------------------------------------------------------------
# oracle
# ------------------------------------------------------------------------------------------------
def check_scalar_accept(ty, s, val, k):
    """accepted prefix s[:k] with value val: signatures of what is wrong with it"""
    if k > len(s) or k < 0:
        return ['accept:end-position-outside-string']
    p = s[:k]
    if ty in RANGE:
        lo, hi = RANGE[ty]
        if k == 0:
            return ['accept:nothing-consumed']
        d = denote(ty, p)
        if d is None:
            return ['accept:prefix-is-not-a-numeral']
        if not (lo <= d <= hi):
            return ['accept:number-outside-type-range']
        if d != val:
            return ['accept:wrong-value']
    elif is_enum(ty):
        tab, mn, mx = enum_table(ty)
        if k == 0:
            return ['accept:nothing-consumed']
        keys = dict((kk, v) for kk, v in reversed(tab))
        if p in keys:
            if keys[p] != val:
                return ['accept:enum-key-wrong-value']
        else:
            d = denote(INT, p)
            if d is None:
                return ['accept:enum-prefix-is-neither-key-nor-numeral']
            if d not in [v for _, v in tab]:
                return [NOT_A_CONSTANT]        # e.g. "0" for Low = 1, Mid = 2, High = 3 (min 0 is a bound, not a constant)
            if d != val:
                return ['accept:enum-number-wrong-value']
    elif ty == BOOL:
        if p not in BOOL_WORDS or BOOL_WORDS[p] != val:
            return ['accept:bool-word-wrong-value']
    elif ty == CHAR:
        if p in CHAR_ESC:
            if CHAR_ESC[p] != val:
                return ['accept:char-escape-wrong-value']
        elif k != 1 or p[0] != val:
            return ['accept:char-wrong-value']
    return []


def must_accept(ty, s):
    """value that a conforming implementation has to return for the WHOLE string s (consequence of the round trip), or None"""
    if ty in RANGE:
        lo, hi = RANGE[ty]
        if re.match(rb'-?(0|[1-9][0-9]*)\Z', s) and s != b'-0':
            v = int(s)
            if lo <= v <= hi:
                return v
    elif is_enum(ty):
        for kk, v in enum_table(ty)[0]:
            if kk == s:
                return v
    elif ty == BOOL:
        if s in (b'true', b'false'):
            return BOOL_WORDS[s]
    elif ty == CHAR:
        if len(s) == 1:
            return s[0]
    return None


def split_elems(ty, s, openc, closec):
    """element texts of a whole-string composite (numeric / enum / bool element types).  Inside brackets one trailing
    separator is tolerated: the library reads "[1,]" as "[1]" and "(1,)" as "(1)" - lenient syntax the property does not speak about."""
    br = s[:1] == openc
    if br:
        if s[-1:] != closec or len(s) < 2:
            return None
        s = s[1:-1]
    parts = s.split(b',')
    if br and len(parts) >= 2 and parts[-1] == b'':
        parts = parts[:-1]
    return parts


def elem_value(ty, p):
    if ty in RANGE:
        d = denote(ty, p)
        return d if d is not None and RANGE[ty][0] <= d <= RANGE[ty][1] else None
    if is_enum(ty):
        tab = enum_table(ty)[0]
        for kk, v in tab:
            if kk == p:
                return v
        d = denote(INT, p)
        return d if d in [v for _, v in tab] else None
    if ty == BOOL:
        return BOOL_WORDS.get(p)
    return None


def enum_number_no_constant(ty, p):
    """p is a numeral (or imax / imin) whose number is no constant of the enumeration ty"""
    if not is_enum(ty) or p in dict(enum_table(ty)[0]):
        return False
    d = denote(INT, p)
    return d is not None and d not in enum_consts(ty)


FEW = [0, 2, 7, 10]
UMAX = {UINT: 2 ** 32 - 1, ULONG: 2 ** 64 - 1, ULLONG: 2 ** 64 - 1}


def ref_texts(ty, v):
    """the renderings of value v of type ty the property admits (reference printer of the oracle); None = v is outside the property"""
    if ty == BOOL:
        return [b'true' if v else b'false']
    if ty == CHAR:
        return [bytes([v])]
    if is_enum(ty):
        ks = [kk for kk, x in enum_table(ty)[0] if x == v]
        return ks[:1] if ks else None
    return [b'%d' % v] + ([b'umax'] if UMAX.get(ty) == v else [])


def match_render(text, pos, seq):
    """text[pos:] is the concatenation of seq, each item a list of admissible byte strings -> end position or None"""
    if not seq:
        return pos
    for alt in sorted(seq[0], key=len, reverse=True):
        if text[pos:pos + len(alt)] == alt:
            r = match_render(text, pos + len(alt), seq[1:])
            if r is not None:
                return r
    return None


def list_items(ty, l, sep):
    """reference rendering of a list: element texts separated by sep - no separator in front of the first element, whatever precedes the list"""
    items = []
    for i, v in enumerate(l):
        if i:
            items.append([sep])
        items.append(ref_texts(ty, v))
    return items


def dec8(c):
    """decode an op-8 case -> dict (values normalised to their types)"""
    k = c[1]

    def vals(i, ty):
        n = max(c[i], 0) if i < len(c) else 0
        return [norm(ty, v) for v in c[i + 1:i + 1 + n]], i + 1 + n
    if k == 0:
        ta, ty = c[2], c[4]
        l, _ = vals(5, ty)
        return {'k': 0, 'scal': [(ta, norm(ta, c[3]))], 'ty': ty, 'l': l}
    if k == 1:
        ta, tb, ty = c[2], c[4], c[6]
        l, _ = vals(7, ty)
        return {'k': 1, 'scal': [(ta, norm(ta, c[3])), (tb, norm(tb, c[5]))], 'ty': ty, 'l': l}
    if k == 2:
        ty, sep, plen = c[2], c[3], c[4]
        l, _ = vals(5 + plen, ty)
        return {'k': 2, 'ty': ty, 'sep': sep, 'pre': bytes(x % 256 for x in c[5:5 + plen]), 'l': l}
    if k == 3:
        ty, d = c[2], c[3]
        l1, j = vals(4, ty)
        l2, _ = vals(j, ty)
        return {'k': 3, 'ty': ty, 'd': d, 'l': l1, 'l2': l2}
    if k == 4:
        ty = c[2]
        l, _ = vals(3, ty)
        return {'k': 4, 'ty': ty, 'l': l}
    return None


def back_sig(ty, l, ok, els, bracketed=False):
    """value-level round trip of one list (same exclusions as op 5: the KNOWN findings)"""
    if ok and els == l:
        return []
    if not l:
        return ['roundtrip:empty-list']
    if ty == CHAR and 0 in l:
        return ['roundtrip:char-nul']
    if ty == CHAR and l[0] == 91 and not bracketed:
        return ['roundtrip:list-first-char-is-open-bracket']
    return ['render-does-not-parse-back']


def sep_is_safe(sep, ty, l):
    """custom separators the round trip is judged for: not part of a numeral / key / word, not a bracket, not white space"""
    b = bytes([sep])
    if is_enum(ty) and sep != 44:
        return False        # EnumClass::convert delimits a key by strcspn(x, " ,="): keys are only recognised in front of ' ' ',' '=' or the end (observation, notes/C16.md)
    if b.isalnum() or b in b'+-[]()\\_' or b in SPACE or sep >= 128 or sep < 33:
        return False
    if ty == CHAR and sep in l:
        return sep == 44
    return True


def oracle8(c, obs):
    d = dec8(c)
    if d is None:
        return []
    ty, l = d['ty'], d['l']
    types = [ty] + [t for t, _ in d.get('scal', [])]
    if any(is_enum(t) for t in types):
        allv = [(ty, v) for v in l + d.get('l2', [])] + d.get('scal', [])
        if any(is_enum(t) and ref_texts(t, v) is None for t, v in allv):
            return []                       # not values of the enumeration: outside the property
    n = obs[0]
    text = bytes(obs[1:1 + n])
    r = obs[1 + n:]
    sig = []
    k = d['k']
    if k in (0, 1):
        items = []
        for t, v in d['scal']:
            items += [ref_texts(t, v), [b',']]
        if match_render(text, 0, items + list_items(ty, l, b',')) != len(text):
            sig.append('list-render-differs')
        pos, base = 0, 0
        for t, v in d['scal']:
            tok, val, cons = r[pos], dec_val(t, r[pos + 1]), r[pos + 2]
            pos += 3
            if t == CHAR and v == 0:
                return sig + ([] if tok and val == v else ['roundtrip:char-nul'])
            if not (tok and val == v and text[base + cons:base + cons + 1] == b','):
                return sig + ['render-does-not-parse-back']
            base += cons + 1
        ok, m = r[pos], r[pos + 1]
        els = [dec_val(ty, x) for x in r[pos + 2:pos + 2 + m]]
        sig += back_sig(ty, l, ok, els)
    elif k == 2:
        sep, pre = d['sep'], d['pre']
        if not (1 <= sep <= 255):
            return []
        if text[:len(pre)] != pre or match_render(text, len(pre), list_items(ty, l, bytes([sep]))) != len(text):
            sig.append('list-render-differs')
        t, cons = r[0], r[1]
        els = [dec_val(ty, x) for x in r[2:2 + t]]
        if sep_is_safe(sep, ty, l):
            appended = cstr(list(text[len(pre):]))
            sig += back_sig(ty, l, t == len(l) and t > 0 and cons == len(appended), els)
    elif k == 3:
        l2, dl = d['l2'], d['d']
        if not (1 <= dl <= 255):
            return []
        if match_render(text, 0, list_items(ty, l, b',') + [[bytes([dl])]] + list_items(ty, l2, b',')) != len(text):
            sig.append('list-render-differs')
        p = r[0]
        ok1, m1 = r[1], r[2]
        e1 = [dec_val(ty, x) for x in r[3:3 + m1]]
        ok2, m2 = r[3 + m1], r[4 + m1]
        e2 = [dec_val(ty, x) for x in r[5 + m1:5 + m1 + m2]]
        if text[p:p + 1] != bytes([dl]):
            sig.append('list-render-differs')
        sig += back_sig(ty, l, ok1, e1) + back_sig(ty, l2, ok2, e2)
    elif k == 4:
        if match_render(text, 0, [[b'[']] + list_items(ty, l, b',') + [[b']']]) != len(text):
            sig.append('list-render-differs')
        ok, m = r[0], r[1]
        els = [dec_val(ty, x) for x in r[2:2 + m]]
        if not is_enum(ty):     # "[False]" is not read back: a key directly in front of ']' is not recognised (same observation); toString never writes brackets
            sig += back_sig(ty, l, ok, els, bracketed=True)
    out = []
    for x in sig:
        if x not in out:
            out.append(x)
    return out


# ------------------------------------------------------------------------------------------------
# op 9: the stream-parsed types.  The reference below is the oracle's own reading of the C++ library rules the fall back template
# relies on (std::istream >> T with skipws|dec in the classic locale) and of the pair / convert_seq templates of the header; it shares
# nothing with the Coq model.  What C16 demands of these calls: the end position lies inside the string (and is the one the text
# determines), the value is the one the text determines, errno untouched, string_cast succeeds iff nothing is left.
# ------------------------------------------------------------------------------------------------
OUTSIDE = 'accept:end-position-outside-string'
SIMPLE_INT = re.compile(rb'[ \t\n\v\f\r]*([+-]?)(0|[1-9][0-9]{0,8})(?![0-9xX])')


def ref_stream(ty, s):
    """(ok, value, end) of xconvert(s, T&, &end) for a stream-parsed T; None: no reference for this text"""
    i = 0
    while i < len(s) and s[i] in SPACE:
        i += 1
    if ty in (30, 31):           # operator>>(istream&, signed/unsigned char&): ONE character, whatever it is
        if i == len(s):
            return (0, 0, 0)
        ch = s[i]
        return (1, ch - 256 if (ty == 30 and ch >= 128) else ch, i + 1)
    if ty in (32, 33):           # num_get, decimal: sign, digits
        m = re.match(rb'([+-]?)([0-9]+)', s[i:])
        if not m:
            return (0, 0, 0)
        mag, neg, end = int(m.group(2)), m.group(1) == b'-', i + m.end()
        if ty == 32:
            v = -mag if neg else mag
            return (1, v, end) if -2 ** 15 <= v <= 2 ** 15 - 1 else (0, 0, 0)
        if mag > 2 ** 16 - 1:
            return (0, 0, 0)
        return (1, (-mag) % 2 ** 16 if neg else mag, end)
    if ty == CHAR:
        if not s:
            return (0, 0, 0)
        if s[:2] in CHAR_ESC:
            return (1, CHAR_ESC[s[:2]], 2)
        return (1, s[0], 1)
    if ty == INT:                # only plain decimal numerals (what the op 9 generator writes into int components)
        m = SIMPLE_INT.match(s)
        if not m:
            return (0, 0, 0) if (not s or s[:1] in b',)]') else None
        return (1, int(m.group(1) + m.group(2)), m.end())
    return None


def ref_pair9(ta, tb, s):
    n, ps = 0, 0
    if s[:1] == b'(':
        ps, n = 1, 1
    ra = ref_stream(ta, s[n:])
    if ra is None:
        return None
    oka, a, ea = ra
    n += ea
    okb, b = 0, 0
    if oka and s[n:n + 1] == b',' and len(s) > n + 1:
        rb = ref_stream(tb, s[n + 1:])
        if rb is None:
            return None
        okb, b, eb = rb
        n += 1 + eb
    sm = 0
    if not ps or s[n:n + 1] == b')':
        n += ps
        if okb:
            sm += 1
        if okb or (oka and n == len(s)):
            sm += 1
    if not sm:
        n = 0
    return sm, (a if sm >= 1 else 0), (b if sm >= 2 else 0), n


def ref_seq9(ty, s, maxlen):
    n, b, els = 0, 0, []
    if s[:1] == b'[':
        b, n = 1, 1
    while len(els) != maxlen:
        r = ref_stream(ty, s[n:])
        if r is None:
            return None
        ok, v, e = r
        if not ok:
            break
        n += e
        els.append(v)
        if n >= len(s) or s[n:n + 1] != b',' or n + 1 >= len(s):
            break
        n += 1
    if not b or s[n:n + 1] == b']':
        n += b
    else:
        n = 0
    return els, n


def dec9(c):
    k = c[1]
    if k == 0:
        return {'k': 0, 'ty': c[2], 'e': c[3], 's': cstr(c[5:5 + max(c[4], 0)])}
    if k == 1:
        return {'k': 1, 'ta': c[2], 'tb': c[3], 'e': c[4], 's': cstr(c[6:6 + max(c[5], 0)])}
    if k == 2:
        return {'k': 2, 'ty': c[2], 'm': c[3], 'e': c[4], 's': cstr(c[6:6 + max(c[5], 0)])}
    return {'k': k}


def whole_sig(cok, ok, k, s):
    want = 1 if (ok and k == len(s)) else 0
    if cok != want:
        return ['whole:string_cast-accepts-with-unparsed-rest' if cok else 'whole:string_cast-rejects-fully-parsed-string']
    return []


def oracle9(c, obs):
    d = dec9(c)
    k = d['k']
    sig = []
    if k == 4:
        return [] if obs == [-2 ** 7, 2 ** 7 - 1, 2 ** 8 - 1, -2 ** 15, 2 ** 15 - 1, 2 ** 16 - 1] else ['platform:narrow-type-limits']
    s = d['s']
    if k == 0:
        tok, val, end, err, cok, cval = obs
        if end < 0 or end > len(s):
            sig.append(OUTSIDE)
        if not tok and end != 0:
            sig.append('reject:end-position-moved')
        if err != (1 if d['e'] else 0):
            sig.append('stream:errno-changed')
        sig += whole_sig(cok, tok, end, s)
        if cok and cval != val:
            sig.append('whole:string_cast-value-differs')
        r = ref_stream(d['ty'], s)
        if r is not None:
            if r[0] != tok:
                sig.append('stream:accepted-text-that-must-fail' if tok else 'stream:rejected-text-that-must-convert')
            else:
                if tok and r[1] != val:
                    sig.append('stream:value-differs-from-text')
                if r[2] != end and OUTSIDE not in sig:
                    sig.append('stream:end-position-not-behind-the-token')
    elif k == 1:
        sm, a, b, end, cok = obs
        if end < 0 or end > len(s):
            sig.append(OUTSIDE)
        sig += whole_sig(cok, sm, end, s)
        r = ref_pair9(d['ta'], d['tb'], s)
        if r is not None:
            if r[0] != sm:
                sig.append('stream:pair-token-count-differs')
            elif (r[1], r[2]) != (a, b):
                sig.append('stream:pair-value-differs-from-text')
            if r[3] != end and OUTSIDE not in sig:
                sig.append('stream:pair-end-position-differs')
    elif k == 2:
        if len(obs) == 3 and obs[2] == -996:
            if obs[1] < 0 or obs[1] > len(s):
                sig.append(OUTSIDE)
            return sig + ['list:parser-makes-no-progress']
        t, end = obs[0], obs[1]
        els, cok = obs[2:2 + t], obs[2 + t]
        if end < 0 or end > len(s):
            sig.append(OUTSIDE)
        sig += whole_sig(cok, t, end, s)
        r = ref_seq9(d['ty'], s, d['m'] if d['m'] else len(s) + 2)
        if r is not None:
            if r[0] != list(els):
                sig.append('stream:list-elements-differ-from-text')
            if r[1] != end and OUTSIDE not in sig:
                sig.append('stream:list-end-position-differs')
    out = []
    for x in sig:
        if x not in out:
            out.append(x)
    return out


def gen9(seed, tier, add):
    """cases for the stream-parsed types; its own random stream"""
    rnd = random.Random(seed * 1000003 + 1615)
    add([9, 4], 'stream-meta')
    CH = [b'7', b'k', b'0', b'-', b'+', b'(', b')', b'[', b']', b'\\', b'x', b'\x7f', b'\x80', b'\xff', b'\x01']
    NUM = [b'0', b'7', b'-1', b'+5', b'12', b'127', b'128', b'255', b'256', b'32767', b'32768', b'-32768', b'-32769', b'65535', b'65536', b'-65535',
           b'-65536', b'-0', b'010', b'0x10', b'00000000000000000000012', b'99999999999999999999', b'-99999999999999999999', b'-', b'+', b'x', b'imax',
           b'umax', b'1e3', b'7.5', b'--1', b'+-1', b'- 1']
    toks = {30: CH + [b'77', b'-1'], 31: CH + [b'200', b'12'], 32: NUM, 33: NUM, CHAR: [b'a', b'\\t', b'7', b'\\'], INT: [b'12', b'-5', b'0', b'2147483647']}

    def S(ty, e, s):
        return [9, 0, ty, 1 if e else 0, len(s)] + list(s)

    def PR(ta, tb, e, s):
        return [9, 1, ta, tb, 1 if e else 0, len(s)] + list(s)

    def SQ(ty, m, e, s):
        return [9, 2, ty, m, 1 if e else 0, len(s)] + list(s)
    for ty in STREAM:
        for t in toks[ty]:
            # alone (the token ends exactly at the end of the string), followed by ',' / text / white space, behind white space
            for s in (t, t + b',', t + b',8', t + b'x', t + b' ', b' ' + t, b'\t\n ' + t, b' ' + t + b',', t + t, t + b')', t + b']'):
                add(S(ty, rnd.random() < 0.2, s), 'stream-scalar')
        for s in (b'', b' ', b'\t \n', b',', b',7'):
            add(S(ty, rnd.random() < 0.2, s), 'stream-scalar-empty')
        for _ in range(40 if tier == 'quick' else 400):
            s = bytes(rnd.choice(b'0123456789-+ ,x\t()[]k\xfe') for _ in range(rnd.randint(1, 7)))
            add(S(ty, rnd.random() < 0.2, s), 'stream-scalar-random')
        # lists and arrays: the stream-parsed value as only / first / middle / LAST element
        for t in toks[ty]:
            u, w = rnd.choice(toks[ty]), rnd.choice(toks[ty])
            for s in (t, u + b',' + t, u + b',' + w + b',' + t, t + b',' + u, b'[' + t + b']', b'[' + u + b',' + t + b']', t + b',', u + b',' + t + b',',
                      u + b',' + t + b'x', b'[' + u + b',' + t, b' ' + u + b', ' + t, u + b',' + w + b',' + t + b',' + u):
                for m in (0, 1, 2, 3):
                    if m == 0 or rnd.random() < 0.5:
                        add(SQ(ty, m, rnd.random() < 0.2, s), 'stream-list' if m == 0 else 'stream-array')
        for m in (0, 1, 2, 3):
            for s in (b'', b'[]', b'[', b',', b' '):
                add(SQ(ty, m, 0, s), 'stream-list-empty')
        for _ in range(30 if tier == 'quick' else 300):
            s = bytes(rnd.choice(b'0123456789-+ ,,,x[]k') for _ in range(rnd.randint(1, 9)))
            add(SQ(ty, rnd.randint(0, 3), rnd.random() < 0.2, s), 'stream-list-random')
    # pairs: the stream-parsed value as first and as second (= last) component, next to char / int / another stream-parsed type
    comps = STREAM + [CHAR, INT]
    for ta in comps:
        for tb in comps:
            if ta not in STREAM and tb not in STREAM:
                continue
            for _ in range(3):
                a, b = rnd.choice(toks[ta]), rnd.choice(toks[tb])
                for s in (a + b',' + b, b'(' + a + b',' + b + b')', a, a + b',', b'(' + a + b')', a + b',' + b + b'x', a + b',' + b + b',', b'(' + a + b',' + b,
                          b' ' + a + b', ' + b, a + b',' + b + b')'):
                    add(PR(ta, tb, rnd.random() < 0.2, s), 'stream-pair')
            for _ in range(4 if tier == 'quick' else 40):
                s = bytes(rnd.choice(b'0123456789-+ ,,x()k') for _ in range(rnd.randint(1, 8)))
                add(PR(ta, tb, rnd.random() < 0.2, s), 'stream-pair-random')


def oracle(c, obs):
    op = c[0] if c else -1
    if obs == [-998]:
        return []
    if obs and obs[0] in (-990, -991):
        return ['exception:%d' % obs[0]]
    if obs and obs[0] == -997:
        return ['harness:model-marker-in-implementation-output']
    try:
        return _oracle(op, c, obs)
    except (IndexError, ValueError):
        return ['harness:malformed-observation']


def _oracle(op, c, obs):
    sig = []
    if op == 0:
        ty, e, ln = c[1], c[2], c[3]
        s = cstr(c[4:4 + max(ln, 0)])
        tok, val, k, err, cok, cval = obs
        val, cval = dec_val(ty, val), dec_val(ty, cval)
        if tok:
            sig += check_scalar_accept(ty, s, val, k)
        elif k != 0:
            sig.append('reject:end-position-moved')
        want = 1 if (tok and k == len(s)) else 0
        if cok != want:
            sig.append('whole:string_cast-accepts-with-unparsed-rest' if cok else 'whole:string_cast-rejects-fully-parsed-string')
        elif cok and cval != val:
            sig.append('whole:string_cast-value-differs')
        m = must_accept(ty, s)
        if m is not None and not (tok and k == len(s) and val == m and cok):
            sig.append('roundtrip:canonical-text-not-read-back')
    elif op == 1:
        ty, v = c[1], norm(c[1], c[2])
        n = obs[0]
        text = bytes(obs[1:1 + n])
        ok, back = obs[1 + n], dec_val(ty, obs[2 + n])
        if is_enum(ty):
            tab = enum_table(ty)[0]
            if v not in [x for _, x in tab]:
                return []                      # not a value of the enumeration
            key = [kk for kk, x in tab if x == v][0]
            if text != key:
                sig.append('print:enum-not-printed-as-its-key')
        elif ty in RANGE:
            if text != canonical(ty, v) and denote(ty, text) != v:
                sig.append('print:text-does-not-denote-the-value')
        elif ty == BOOL:
            if text != (b'true' if v else b'false'):
                sig.append('print:bool-text')
        if not (ok and back == v):
            sig.append('roundtrip:char-nul' if (ty == CHAR and v == 0) else 'roundtrip:scalar-%s' % TYNAME[ty].replace(' ', '-'))
    elif op == 2:
        ta, tb, e, ln = c[1], c[2], c[3], c[4]
        s = cstr(c[5:5 + max(ln, 0)])
        sm, a, b, k, cok = obs
        a, b = dec_val(ta, a), dec_val(tb, b)
        if k > len(s) or k < 0:
            sig.append('accept:end-position-outside-string')
        want = 1 if (sm and k == len(s)) else 0
        if cok != want:
            sig.append('whole:string_cast-accepts-with-unparsed-rest' if cok else 'whole:string_cast-rejects-fully-parsed-string')
        # a wholly accepted pair of numerals / keys denotes what was returned
        if cok and ta != CHAR and tb != CHAR:
            parts = split_elems(ta, s, b'(', b')')
            if parts is None or len(parts) != sm or sm not in (1, 2):
                sig.append('accept:pair-shape')
            else:
                if elem_value(ta, parts[0]) != a:
                    sig.append(NOT_A_CONSTANT if enum_number_no_constant(ta, parts[0]) else 'accept:pair-first-wrong-value')
                if sm == 2 and elem_value(tb, parts[1]) != b:
                    sig.append(NOT_A_CONSTANT if enum_number_no_constant(tb, parts[1]) else 'accept:pair-second-wrong-value')
    elif op == 3:
        ta, tb = c[1], c[2]
        a, b = norm(ta, c[3]), norm(tb, c[4])
        for t, v in ((ta, a), (tb, b)):
            if is_enum(t) and v not in [x for _, x in enum_table(t)[0]]:
                return []
        n = obs[0]
        ok, a2, b2 = obs[1 + n], dec_val(ta, obs[2 + n]), dec_val(tb, obs[3 + n])
        if not (ok and a2 == a and b2 == b):
            if (ta == CHAR and a == 0) or (tb == CHAR and b == 0):
                sig.append('roundtrip:char-nul')
            elif ta == CHAR and a == 40:
                sig.append('roundtrip:pair-first-char-is-open-paren')
            else:
                sig.append('roundtrip:pair')
    elif op == 4:
        ty, e, ln = c[1], c[2], c[3]
        s = cstr(c[4:4 + max(ln, 0)])
        t, k = obs[0], obs[1]
        els = [dec_val(ty, x) for x in obs[2:2 + t]]
        cok = obs[2 + t]
        if k > len(s) or k < 0:
            sig.append('accept:end-position-outside-string')
        want = 1 if (t and k == len(s)) else 0
        if cok != want:
            sig.append('whole:string_cast-accepts-with-unparsed-rest' if cok else 'whole:string_cast-rejects-fully-parsed-string')
        if cok and ty != CHAR:
            parts = split_elems(ty, s, b'[', b']')
            if parts is None or len(parts) != t:
                sig.append('accept:list-shape')
            elif [elem_value(ty, p) for p in parts] != els:
                sig.append(NOT_A_CONSTANT if any(enum_number_no_constant(ty, p) for p in parts) else 'accept:list-element-wrong-value')
    elif op == 5:
        ty, n0 = c[1], c[2]
        vs = [norm(ty, v) for v in c[3:3 + max(n0, 0)]]
        if is_enum(ty) and any(v not in [x for _, x in enum_table(ty)[0]] for v in vs):
            return []
        n = obs[0]
        ok, m = obs[1 + n], obs[2 + n]
        els = [dec_val(ty, x) for x in obs[3 + n:3 + n + m]]
        if not (ok and els == vs):
            if not vs:
                sig.append('roundtrip:empty-list')
            elif ty == CHAR and 0 in vs:
                sig.append('roundtrip:char-nul')
            elif ty == CHAR and vs[0] == 91:
                sig.append('roundtrip:list-first-char-is-open-bracket')
            else:
                sig.append('roundtrip:list')
    elif op == 6:
        k = c[1]
        if k == 0:
            exp = [RANGE[INT][0], RANGE[INT][1], RANGE[UINT][1], RANGE[LONG][0], RANGE[LONG][1], -1, RANGE[LLONG][0], RANGE[LLONG][1], -1]
            if obs != exp:
                sig.append('platform:not-LP64')
        elif is_enum(k):
            tab, mn, mx = enum_table(k)
            if obs[0] != mn or obs[1] != mx:
                sig.append('enum:class-min-max-differs-from-declaration')
    elif op == 7:
        if obs[0] != 0:
            sig.append('roundtrip:char-nul' if (c[1] == CHAR and obs[0] == 1 and obs[1] % 256 == 0) else 'roundtrip:sweep-%s' % TYNAME[c[1]].replace(' ', '-'))
    elif op == 8:
        sig += oracle8(c, obs)
    elif op == 9:
        sig += oracle9(c, obs)
    return sig


def nontrivial(c, obs):
    op = c[0]
    if obs == [-998]:
        return False
    if op in (1, 3, 5, 7, 8, 9):
        return True
    if op in (0, 2, 4):
        return obs[0] != 0 or (c[3] if op != 2 else c[4]) >= 2
    return True


def esc(b):
    return bytes(b).decode('latin-1').encode('unicode_escape').decode()


def describe(c):
    op = c[0] if c else -1
    try:
        if op == 0:
            return 'xconvert/string_cast<%s>("%s")%s' % (TYNAME.get(c[1], c[1]), esc(cstr(c[4:4 + c[3]])), ' with stale errno=ERANGE' if c[2] else '')
        if op == 1:
            return 'stringTo(toString(%s(%d)))' % (TYNAME.get(c[1], c[1]), norm(c[1], c[2]))
        if op == 2:
            return 'xconvert/string_cast<pair<%s,%s>>("%s")%s' % (TYNAME.get(c[1]), TYNAME.get(c[2]), esc(cstr(c[5:5 + c[4]])), ' with stale errno=ERANGE' if c[3] else '')
        if op == 3:
            return 'stringTo(toString(pair<%s,%s>(%d,%d)))' % (TYNAME.get(c[1]), TYNAME.get(c[2]), norm(c[1], c[3]), norm(c[2], c[4]))
        if op == 4:
            return 'xconvert/string_cast<vector<%s>>("%s")%s' % (TYNAME.get(c[1]), esc(cstr(c[4:4 + c[3]])), ' with stale errno=ERANGE' if c[2] else '')
        if op == 5:
            return 'stringTo(toString(vector<%s>{%s}))' % (TYNAME.get(c[1]), ','.join(str(norm(c[1], v)) for v in c[3:3 + c[2]]))
        if op == 6:
            return 'platform limits' if c[1] == 0 else 'enumClass() of %s' % TYNAME.get(c[1], c[1])
        if op == 8:
            d = dec8(c)
            lst = lambda t, l: 'vector<%s>{%s}' % (TYNAME.get(t), ','.join(str(v) for v in l))   # noqa: E731
            if d['k'] in (0, 1):
                return 'toString(%s, %s), then xconvert / string_cast component by component' % (
                    ', '.join('%s(%d)' % (TYNAME.get(t), v) for t, v in d['scal']), lst(d['ty'], d['l']))
            if d['k'] == 2:
                return 'accu = "%s"; xconvert(accu, v.begin(), v.end(), \'%s\') with v = %s; then xconvert(accu.c_str() + %d, vector&, &end, sep)' % (
                    esc(d['pre']), esc(bytes([d['sep'] % 256])), lst(d['ty'], d['l']), len(d['pre']))
            if d['k'] == 3:
                return 'accu = ""; xconvert(accu, %s); accu += \'%s\'; xconvert(accu, %s); then string_cast of both parts' % (
                    lst(d['ty'], d['l']), esc(bytes([d['d'] % 256])), lst(d['ty'], d['l2']))
            if d['k'] == 4:
                return 'accu = "["; xconvert(accu, %s); accu += "]"; then string_cast(accu)' % lst(d['ty'], d['l'])
        if op == 9:
            d = dec9(c)
            st = ' with stale errno=ERANGE' if d.get('e') else ''
            if d['k'] == 0:
                return 'xconvert/string_cast<%s>("%s")%s (stream fall back parser)' % (TYNAME.get(d['ty']), esc(d['s']), st)
            if d['k'] == 1:
                return 'xconvert/string_cast<pair<%s,%s>>("%s")%s (stream fall back parser)' % (TYNAME.get(d['ta']), TYNAME.get(d['tb']), esc(d['s']), st)
            if d['k'] == 2:
                return 'xconvert/string_cast<%s>("%s")%s (stream fall back parser)' % (
                    ('vector<%s>' % TYNAME.get(d['ty'])) if d['m'] == 0 else '%s[%d]' % (TYNAME.get(d['ty']), d['m']), esc(d['s']), st)
            return '<climits> of the narrow types'
        if op == 7:
            return 'sweep stringTo(toString(v)) for %s v in %d..%d' % (TYNAME.get(c[1]), c[2], c[3])
    except Exception:
        pass
    return 'case %r' % (c[:20],)


# ------------------------------------------------------------------------------------------------
# generators
# ------------------------------------------------------------------------------------------------
def P(ty, e, s):
    return [0, ty, 1 if e else 0, len(s)] + list(s)


BOUNDS = [0, 1, 7, 8, 9, 10, 2 ** 7, 2 ** 8, 2 ** 15, 2 ** 16, 2 ** 31 - 1, 2 ** 31, 2 ** 32 - 1, 2 ** 32, 2 ** 63 - 1, 2 ** 63,
          2 ** 64 - 1, 2 ** 64, 2 ** 65, 10 ** 9, 10 ** 10, 10 ** 18, 10 ** 19, 10 ** 20]


def boundary_values():
    vs = set()
    for b in BOUNDS:
        for d in (-2, -1, 0, 1, 2):
            vs.add(b + d)
            vs.add(-(b + d))
    return sorted(vs)


def forms(v):
    a = abs(v)
    sg = b'-' if v < 0 else b''
    out = [b'%s%d' % (sg, a), b'%s0x%x' % (sg, a), b'%s0X%X' % (sg, a), b'%s0%o' % (sg, a)]
    if v >= 0:
        out.append(b'+%d' % a)
    return out


def numeric_pool(rnd, tier):
    """(kind, string) - aimed at the case splits of detectBase / parseSigned / parseUnsigned / strtoll / strtoull"""
    pool = []
    bv = boundary_values()
    for v in bv:
        for f in forms(v):
            pool.append(('boundary', f))
    sample = bv if tier != 'quick' else rnd.sample(bv, 60)
    for v in sample:
        f = rnd.choice(forms(v))
        pool.append(('leading-space', rnd.choice([b' ', b'\t', b'\n', b'\v', b'\f', b'\r', b'  ', b' \t']) + f))
        pool.append(('trailing', f + rnd.choice([b'x', b' ', b',', b'abc', b'-', b'e5', b'.5', b')', b']', b'8', b'g', b'\xff', b'L', b'u'])))
        pool.append(('zero-padded', (b'-' if v < 0 else b'') + b'0' * rnd.randint(1, 3) + b'%d' % abs(v)))
    for n in (17, 18, 19, 20, 21, 22, 23, 40, 100):
        pool.append(('long-digits', b'9' * n))
        pool.append(('long-digits', b'1' + b'0' * (n - 1)))
        pool.append(('long-digits', b'-' + b'9' * n))
        pool.append(('long-digits', b'0' * n))
        pool.append(('long-digits', b'0' * n + b'1'))
        for _ in range(3 if tier == 'quick' else 12):
            pool.append(('long-digits', bytes(rnd.choice(b'0123456789') for _ in range(n))))
            pool.append(('long-digits', b'-' + bytes(rnd.choice(b'123456789') for _ in range(n))))
    for n in (7, 8, 9, 15, 16, 17, 18, 30):
        pool.append(('long-hex', b'0x' + b'f' * n))
        pool.append(('long-hex', b'0X1' + b'0' * n))
        pool.append(('long-hex', b'0x7' + b'F' * (n - 1)))
        pool.append(('long-hex', b'0x8' + b'0' * (n - 1)))
        pool.append(('long-hex', b'0x' + bytes(rnd.choice(b'0123456789abcdefABCDEF') for _ in range(n))))
    for n in (10, 11, 12, 21, 22, 23, 40):
        pool.append(('long-oct', b'0' + b'7' * n))
        pool.append(('long-oct', b'01' + b'7' * n))
        pool.append(('long-oct', b'02' + b'0' * n))
        pool.append(('long-oct', b'03' + b'7' * n))
        pool.append(('long-oct', b'0' + bytes(rnd.choice(b'01234567') for _ in range(n))))
    for s in (b'', b'0', b'00', b'000', b'08', b'09', b'019', b'018', b'0x', b'0X', b'0xg', b'0x ', b'0x-1', b'0x+1', b'x', b'0b11', b'00x1',
              b'0x0x1', b'-', b'+', b'--1', b'+-1', b'-+1', b'++1', b' ', b' -', b'- 1', b'-0', b'+0', b' -0', b' +0', b'-00', b'-08', b'-010', b'+010',
              b' 010', b' 0x10', b'-0x10', b'+0x10', b'\t-5', b' -5', b'  -1', b' -18446744073709551615', b' -18446744073709551616',
              b'\n-9223372036854775808', b' -9223372036854775809', b'1e5', b'1.5', b'0.5', b'.5', b'1,2', b'1 2', b'12abc', b'abc', b'a', b'f', b'0f',
              b'imax', b'imin', b'umax', b'-1', b'ima', b'imi', b'uma', b'im', b'i', b'u', b'imaxx', b'imin0', b'umax1', b'imax,1', b' imax', b' umax',
              b'-imax', b'+imax', b'IMAX', b'Umax', b'-12', b'-1x', b'-1 ', b'-10', b'-11', b'- 1', b'-1-1', b'max', b'umin', b'\xb1', b'1\xb2',
              b'\xa0' + b'12', b'\x0b\x0c12', b'\x1c12', b'\x85' + b'1'):
        pool.append(('special', s))
    alpha = b'0123456789' * 3 + b'--++  xX\tabcfAF78imaxun,.)]'
    for _ in range(400 if tier == 'quick' else 6000):
        pool.append(('random', bytes(rnd.choice(alpha) for _ in range(rnd.randint(1, 24)))))
    return pool


def value_pool(rnd, ty, n):
    lo, hi = RANGE[ty]
    vs = set([lo, lo + 1, lo + 2, hi, hi - 1, hi - 2, 0, 1, -1 if lo < 0 else 2, hi >> 1, (hi >> 1) + 1])
    for b in BOUNDS:
        for d in (-1, 0, 1):
            for s in ((1, -1) if lo < 0 else (1,)):
                v = s * (b + d)
                if lo <= v <= hi:
                    vs.add(v)
    k = 1
    while k <= hi:
        for v in (k - 1, k, -k, -k + 1, -k - 1):
            if lo <= v <= hi:
                vs.add(v)
        k *= 10
    for _ in range(n):
        bits = rnd.randint(1, 64)
        v = rnd.getrandbits(bits)
        if lo < 0 and rnd.random() < 0.5:
            v = -v
        if lo <= v <= hi:
            vs.add(v)
    return sorted(vs)


def to_ll(v):
    return wrap_s(64, v)


def comp_value(rnd, ty):
    if ty == BOOL:
        return rnd.randint(0, 1)
    if ty == CHAR:
        return rnd.choice([97, 48, 44, 40, 41, 91, 93, 92, 116, 110, 32, 9, 255, 128, 0, 45, 49]) if rnd.random() < 0.7 else rnd.randint(1, 255)
    if is_enum(ty):
        tab, mn, mx = enum_table(ty)
        return rnd.choice([v for _, v in tab] + [mx + 1]) if rnd.random() < 0.95 else rnd.randint(mn, mx + 1)
    lo, hi = RANGE[ty]
    r = rnd.random()
    if r < 0.35:
        return rnd.choice([lo, hi, lo + 1, hi - 1, 0, 1, hi >> 1])
    if r < 0.7:
        return rnd.randint(max(lo, -1000), min(hi, 1000))
    return rnd.randint(lo, hi)


def comp_text(rnd, ty):
    """a token for an element of type ty inside a composite: mostly valid"""
    r = rnd.random()
    if r < 0.1:
        return rnd.choice([b'', b'x', b' ', b'-', b'0x', b'imax', b'umax', b'-1', b'true', b'Free', b'Paren', b'99999999999999999999', b'(', b'[', b')', b']'])
    if ty == BOOL:
        return rnd.choice(list(BOOL_WORDS) + [b'tru', b'2'])
    if ty == CHAR:
        return rnd.choice([b'a', b'\\t', b'\\n', b'\\v', b'\\', b'\\x', b',', b'(', b'[', b'ab', b'7'])
    if is_enum(ty):
        tab, mn, mx = enum_table(ty)
        k, v = rnd.choice(tab)
        return rnd.choice([k, b'%d' % v, b'%d' % (mx + 1), b'%d' % (mn - 1), k.lower(), k + b'x', k[:-1], b' %d' % v, b'0x%x' % abs(v)])
    lo, hi = RANGE[ty]
    v = rnd.choice([lo, hi, lo - 1, hi + 1, 0, 1, -1, 7, 42, rnd.randint(-2 ** 33, 2 ** 33), rnd.randint(lo, hi)])
    return rnd.choice(forms(v) + [b'%d' % v] * 3 + [b' %d' % v])


def gen(seed, tier):
    rnd = random.Random(seed * 1000003 + 16)
    out = []

    def add(case, kind):
        out.append((case, {'kind': kind}))

    # --- platform / enum meta data, and every enum constant in both directions
    add([6, 0], 'meta')
    for ty in ENUM_CODES:
        add([6, ty], 'meta')
        tab, mn, mx = enum_table(ty)
        for v in range(mn, mx + 2):
            add([1, ty, v], 'enum-print-back')
        for v in range(mn - 3, mx + 4):
            for f in (b'%d' % v, b' %d' % v, b'0x%x' % abs(v), b'0%o' % abs(v), b'%d,' % v, b'+%d' % abs(v)):
                add(P(ty, rnd.random() < 0.3, f), 'enum-number')
            if ty in NEW_ENUMS:
                # every number from min-3 to max+3 (min-1, min, first constant-1, the constants, every hole, max, max+1) in every
                # base and sign, zero padded, followed by a separator / a key: aimed at "within the bounds but not in the table"
                a = abs(v)
                sg = b'-' if v < 0 else b''
                for f in (sg + b'0X%X' % a, sg + b'0x%x' % a, sg + b'0%o' % a, sg + b'00%d' % a, b' ' + sg + b'0%d' % a, b'\t%d' % v, b'%d ' % v, b'%d=' % v,
                          b'%d,' % v + tab[-1][0], b'0x%x,1' % a, b'%dx' % v):
                    add(P(ty, rnd.random() < 0.3, f), 'enum-number-bounds')
        for k, v in tab:
            for f in (k, k + b',', k + b'=1', k + b' ', k + b'x', k[:-1], k.lower(), k.upper(), b' ' + k, k + k):
                add(P(ty, rnd.random() < 0.3, f), 'enum-key')
        for f in (b'', b'imax', b'imin', b'umax', b'-1', b',', b'=', b' ', b'99999999999999999999', b'2147483648', b'-2147483649', b'4294967296', b'4294967297'):
            add(P(ty, rnd.random() < 0.5, f), 'enum-special')
    # --- bool and char, both directions
    for v in (0, 1, 2, -1):
        add([1, BOOL, v], 'bool-print-back')
    for w in list(BOOL_WORDS) + [b'', b'tru', b'truex', b'fals', b'falsey', b'n', b'o', b'of', b'onn', b'yess', b'ye', b'2', b'10', b'01', b'TRUE', b' true', b'foo', b'nope', b'offf']:
        add(P(BOOL, rnd.random() < 0.3, w), 'bool-word')
    for v in range(0, 256):
        add([1, CHAR, v], 'char-print-back')
        add(P(CHAR, 0, bytes([v]) if v else b''), 'char-parse')
    for w in (b'\\t', b'\\n', b'\\v', b'\\', b'\\\\', b'\\x', b'\\tt', b'ab', b'\\0', b'\\r', b'\t', b'\\,', b'\xff\xfe'):
        add(P(CHAR, 0, w), 'char-escape')
    # --- numerals for every integer type
    pool = numeric_pool(rnd, tier)
    for kind, s in pool:
        for ty in NUMERIC:
            if ty in (LONG, ULONG) and kind in ('random', 'long-digits') and tier == 'quick' and rnd.random() < 0.5:
                continue
            if ty in (LONG, ULONG, LLONG, ULLONG) and kind in ('boundary', 'long-digits', 'long-hex', 'long-oct', 'special'):
                add(P(ty, 0, s), 'num-' + kind)
                add(P(ty, 1, s), 'num-' + kind + '-stale-errno')
            else:
                e = rnd.random() < 0.3
                add(P(ty, e, s), 'num-' + kind + ('-stale-errno' if e else ''))
    # --- values of every integer type, printed and read back
    for ty in NUMERIC:
        for v in value_pool(rnd, ty, 300 if tier == 'quick' else 20000):
            add([1, ty, to_ll(v)], 'int-print-back')
    # --- implementation-side sweeps (quick: around the boundaries; thorough: all 2^32 values of int and unsigned)
    sweeps = []
    if tier == 'thorough':
        step = 2 ** 22
        for lo in range(-2 ** 31, 2 ** 31, step):
            sweeps.append((INT, lo, lo + step - 1))
        for lo in range(0, 2 ** 32, step):
            sweeps.append((UINT, lo, lo + step - 1))
    w = 2 ** 12 if tier != 'thorough' else 2 ** 20

    def sweep_range(ty, a, b):
        """values a..b of type ty as one or two ranges of the long long encoding"""
        if a <= 2 ** 63 - 1 < b:
            sweeps.append((ty, a, 2 ** 63 - 1))
            sweeps.append((ty, -2 ** 63, to_ll(b)))
        else:
            sweeps.append((ty, to_ll(a), to_ll(b)))
    for ty in NUMERIC:
        lo, hi = RANGE[ty]
        for (a, b) in ((lo, lo + w), (hi - w, hi), (-w, w) if lo < 0 else (0, w), ((hi >> 1) - w, (hi >> 1) + w)):
            sweep_range(ty, a, b)
        for b in (2 ** 31, 2 ** 32, 10 ** 9, 10 ** 10, 10 ** 18):
            if b + w <= hi:
                sweep_range(ty, b - w, b + w)
    sweeps.append((BOOL, 0, 1))
    sweeps.append((CHAR, 1, 255))
    for ty, a, b in sweeps:
        add([7, ty, a, b], 'sweep')
    # --- pairs
    npair = 1500 if tier == 'quick' else 40000
    for _ in range(npair):
        ta, tb = rnd.choice(COMP), rnd.choice(COMP)
        if rnd.random() < 0.45:
            add([3, ta, tb, to_ll(comp_value(rnd, ta)), to_ll(comp_value(rnd, tb))], 'pair-print-back')
        else:
            a, b = comp_text(rnd, ta), comp_text(rnd, tb)
            shape = rnd.choice([b'%s,%s', b'(%s,%s)', b'%s,%s', b'(%s,%s)', b'%s', b'(%s)', b'%s,', b'(%s,%s', b'%s,%s)', b'(%s,%s)x', b'%s,%s,1', b'((%s,%s))', b'(%s,%s))', b' %s,%s', b'%s, %s', b'%s ,%s', b'%s;%s'])
            s = shape.replace(b'%s', a, 1).replace(b'%s', b, 1)
            add([2, ta, tb, 1 if rnd.random() < 0.3 else 0, len(s)] + list(s), 'pair-parse')
    for s in (b'', b'()', b'(', b')', b',', b'(,)', b'1', b'(1)', b'1,', b'(1,)', b',1', b'1,2', b'(1,2)', b'(1,2', b'1,2)', b'1,,2'):
        for ta, tb in ((INT, INT), (UINT, ULLONG), (BOOL, INT), (INT, BOOL), (10, INT), (CHAR, CHAR), (LLONG, 14)):
            add([2, ta, tb, 0, len(s)] + list(s), 'pair-special')
    # --- lists
    nlist = 1500 if tier == 'quick' else 40000
    for _ in range(nlist):
        ty = rnd.choice(COMP)
        if rnd.random() < 0.45:
            n = rnd.choice([0, 1, 1, 2, 2, 3, 4, 5, 8])
            add([5, ty, n] + [to_ll(comp_value(rnd, ty)) for _ in range(n)], 'list-print-back')
        else:
            n = rnd.choice([0, 1, 1, 2, 2, 3, 4, 6])
            body = b','.join(comp_text(rnd, ty) for _ in range(n))
            shape = rnd.choice([b'%s', b'[%s]', b'%s', b'[%s]', b'[%s', b'%s]', b'%s,', b'[%s,]', b',%s', b'[%s]x', b'[[%s]]', b' %s', b'%s '])
            s = shape.replace(b'%s', body, 1)
            add([4, ty, 1 if rnd.random() < 0.3 else 0, len(s)] + list(s), 'list-parse')
    for s in (b'', b'[]', b'[', b']', b',', b'[,]', b'1', b'[1]', b'1,', b'[1,]', b',1', b'1,2', b'[1,2]', b'[1,2', b'1,2]', b'1,,2', b'[1],2'):
        for ty in (BOOL, INT, UINT, LLONG, ULLONG, CHAR, 10, 14):
            add([4, ty, 0, len(s)] + list(s), 'list-special')
    for ty in COMP:
        add([5, ty, 0], 'list-print-back-empty')
    # --- lists written into NON-EMPTY accumulators (op 8): toString(a, list), toString(a, b, list), iterator range with custom separator
    #     appended to a prefix, a second list behind a delimiter, bracketed; empty and one-element lists in every position
    def rlist(ty, n=None):
        n = rnd.choice([0, 1, 1, 2, 2, 3, 5]) if n is None else n
        return [n] + [to_ll(comp_value(rnd, ty)) for _ in range(n)]
    PREFIXES = [b'', b'x', b'[', b'3,', b'a=', b'(', b'1,2,', b',', b' ', b'\0', b'ab\0', b'[[', b'k: ', b'0']
    SEPS = [44] * 8 + [59, 59, 58, 124, 47, 61, 35, 32, 9, 46, 49, 45, 255, 1, 91, 93]
    napp = 1600 if tier == 'quick' else 40000
    for ty in COMP:                       # fixed shapes for every element type
        for n in (0, 1, 2):
            add([8, 0, INT, 3, ty] + rlist(ty, n), 'append-toString2')
            add([8, 1, INT, 3, BOOL, 1, ty] + rlist(ty, n), 'append-toString3')
            add([8, 2, ty, 44, 1, 120] + rlist(ty, n), 'append-range-prefix')
            add([8, 2, ty, 59, 2, 51, 59] + rlist(ty, n), 'append-range-custom-sep')
            add([8, 4, ty] + rlist(ty, n), 'append-bracketed')
            for m in (0, 1, 2):
                add([8, 3, ty, 59] + rlist(ty, n) + rlist(ty, m), 'append-second-list')
    for _ in range(napp):
        ty = rnd.choice(COMP)
        r = rnd.random()
        if r < 0.3:
            ta = rnd.choice(COMP)
            add([8, 0, ta, to_ll(comp_value(rnd, ta)), ty] + rlist(ty), 'append-toString2')
        elif r < 0.5:
            ta, tb = rnd.choice(FEW), rnd.choice(FEW)
            add([8, 1, ta, to_ll(comp_value(rnd, ta)), tb, to_ll(comp_value(rnd, tb)), ty] + rlist(ty), 'append-toString3')
        elif r < 0.75:
            pre = rnd.choice(PREFIXES) if rnd.random() < 0.8 else bytes(rnd.randint(0, 255) for _ in range(rnd.randint(1, 12)))
            sep = rnd.choice(SEPS) if rnd.random() < 0.9 else rnd.randint(1, 255)
            add([8, 2, ty, sep, len(pre)] + list(pre) + rlist(ty), 'append-range' + ('-custom-sep' if sep != 44 else '') + ('-prefix' if pre else ''))
        elif r < 0.9:
            add([8, 3, ty, rnd.choice([59, 59, 32, 124, 44, 10, 93, 91, 58])] + rlist(ty) + rlist(ty), 'append-second-list')
        else:
            add([8, 4, ty] + rlist(ty), 'append-bracketed')
    # --- the enumerations declared with the public macros (NEW_ENUMS) as elements of pairs and lists: every number from min-1 to
    #     max+1 (numeric spellings) next to keys and ints, both directions; a separate random stream, so that the cases above keep their seeds
    rnd2 = random.Random(seed * 1000003 + 1609)
    for ty in NEW_ENUMS:
        tab, mn, mx = enum_table(ty)
        keys = [k for k, _ in tab]
        for v in range(mn - 1, mx + 2):
            a = abs(v)
            sg = b'-' if v < 0 else b''
            texts = [b'%d' % v, sg + b'0x%x' % a, rnd2.choice([b' %d' % v, sg + b'0%o' % a, sg + b'00%d' % a, b'+%d' % a if v >= 0 else b' %d' % v])]
            for t in texts:
                k = rnd2.choice(keys)
                e = 1 if rnd2.random() < 0.2 else 0
                for (ta, tb, s) in ((ty, INT, t + b',5'), (ty, INT, b'(' + t + b',5)'), (INT, ty, b'5,' + t), (INT, ty, b'(5,' + t + b')'),
                                    (ty, ty, k + b',' + t), (ty, ty, t + b',' + k), (ty, INT, t), (ty, ty, b'(' + t + b')')):
                    add([2, ta, tb, e, len(s)] + list(s), 'enum-pair-parse')
                for s in (t, k + b',' + t, b'[' + t + b']', t + b',' + k, b'[' + k + b',' + t + b',' + k + b']', t + b',' + t):
                    add([4, ty, e, len(s)] + list(s), 'enum-list-parse')
            w = rnd2.choice([x for _, x in tab])
            add([3, ty, INT, v, 7], 'enum-pair-print-back')
            add([3, INT, ty, -7, v], 'enum-pair-print-back')
            add([3, ty, ty, v, w], 'enum-pair-print-back')
            add([3, ty, ty, w, v], 'enum-pair-print-back')
            add([5, ty, 1, v], 'enum-list-print-back')
            add([5, ty, 3, w, v, w], 'enum-list-print-back')
        cs = [x for _, x in tab]
        add([5, ty, len(cs)] + cs, 'enum-list-print-back')
        add([5, ty, 0], 'list-print-back-empty')
        for k in keys:
            for s in (k, k + b',' + k, b'[' + k + b']', k + b',', k + b',x'):
                add([4, ty, 0, len(s)] + list(s), 'enum-list-parse')
            for (ta, tb, s) in ((ty, INT, k + b',1'), (INT, ty, b'1,' + k), (ty, ty, k + b',' + keys[0]), (ty, ty, b'(' + keys[-1] + b',' + k + b')')):
                add([2, ta, tb, 0, len(s)] + list(s), 'enum-pair-parse')
    gen9(seed, tier, add)
    return out


def shrink(case, fails):
    c = list(case)
    op = c[0]
    if op in (0, 4):
        hdr, ln = 3, c[3]
    elif op == 2:
        hdr, ln = 4, c[4]
    elif op == 9 and c[1] == 0:
        hdr, ln = 4, c[4]
    elif op == 9 and c[1] in (1, 2):
        hdr, ln = 5, c[5]
    elif op == 5:
        vs = c[3:3 + c[2]]
        changed = True
        while changed:
            changed = False
            for i in range(len(vs)):
                t = vs[:i] + vs[i + 1:]
                cand = [5, c[1], len(t)] + t
                if fails(cand):
                    vs, changed = t, True
                    break
        return [5, c[1], len(vs)] + vs
    elif op == 8:
        # drop list elements (the last list of the case; for 8 3 also the first)
        def lists_at(c):
            k = c[1]
            if k == 0:
                return [5]
            if k == 1:
                return [7]
            if k == 2:
                return [5 + c[4]]
            if k == 3:
                return [4, 4 + 1 + max(c[4], 0)]
            return [3]
        changed = True
        while changed:
            changed = False
            for li in reversed(lists_at(c)):
                n = c[li]
                for i in range(max(n, 0)):
                    cand = c[:li] + [n - 1] + c[li + 1:li + 1 + i] + c[li + 2 + i:]
                    if fails(cand):
                        c, changed = cand, True
                        break
                if changed:
                    break
        if c[1] == 2 and c[4] > 1:
            for _ in range(c[4] - 1):
                cand = c[:4] + [c[4] - 1] + c[6:]
                if c[4] > 1 and fails(cand):
                    c = cand
        return c
    else:
        return c
    s = c[hdr + 1:hdr + 1 + ln]
    changed = True
    while changed:
        changed = False
        for i in range(len(s)):
            t = s[:i] + s[i + 1:]
            cand = c[:hdr] + [len(t)] + t
            if fails(cand):
                s, changed = t, True
                break
    return c[:hdr] + [len(s)] + s


def mutate(case, rnd):
    c = list(case)
    out = []
    if c and c[0] in (0, 4):
        s = c[4:4 + c[3]]
        for _ in range(8):
            t = list(s)
            if t and rnd.random() < 0.5:
                t[rnd.randrange(len(t))] = rnd.choice(b'0123456789-+ xa,')
            else:
                t.insert(rnd.randint(0, len(t)), rnd.choice(b'0123456789-+ x'))
            for ty in (NUMERIC if c[0] == 0 else [c[1]]):
                out.append([c[0], ty, c[2], len(t)] + t)
    return out


RULE = ('cases = one call group of the conversion API per case: (a) xconvert+string_cast of a byte string for each of bool, char, the six integer '
        'types (LP64), the nine macro enums of the library and six enumerations the harness declares with the public macros POTASSCO_ENUM_CONSTANTS / _T in shapes the library has not '
        '(Level_t Low=1..High=3 with min 0; Sparse_t with holes; Neg_t / Off_t with a negative / positive minVal that is no constant; Unord_t not increasing with an alias; One_t a single constant) - '
        'for every enum every number from min-3 to max+3 (min-1, min, first constant-1, constants, every hole, max+1) in decimal/0x/0X/octal, signed, zero padded, with leading white space, followed by separators / keys, and every key with its near misses; strings = boundary neighbourhoods (+-2) of 0, 2^7..2^65, 10^9..10^20 in decimal/0x/0X/leading-0 octal, signs, '
        'leading white space, trailing characters, zero padding, 17..100 digit runs, keywords imax/imin/umax/-1 and their prefixes, random strings over a '
        'numeral alphabet, each with errno clean and with stale errno=ERANGE; (b) toString then stringTo of boundary/power-of-10/random values of every '
        'integer type, every bool, all 256 chars, every enum constant; (c) pairs and vectors over {bool,char,int,unsigned,long long,unsigned long long,Value_t,Tuple_t} '
        'in both directions incl. the empty vector, plus vectors of each harness enum and pairs <E,int> <int,E> <E,E> whose enum component is every number from min-1 to max+1 in several spellings next to keys; (c2) lists written into NON-EMPTY accumulators: toString(a, list), toString(a, b, list), the iterator-range writer with default and custom separators appended to arbitrary prefixes, '
        'a second list behind a delimiter, the bracketed form - empty, one-element and longer lists of every element type in each position, read back through the real parsers; (c3) the types WITHOUT a typed overload, parsed by the stream fall back template (signed char, unsigned char, short, unsigned short; op 9, text behind a guard character): every token - single characters incl. signs, brackets, backslash, 0x7f/0x80/0xff; numerals at 127/128/255/256/32767/32768/-32768/-32769/65535/65536/-65535/-65536, 010, 0x10, 23-digit runs, bare signs, keywords - '
        'alone (ending exactly at the end of the string), followed by , / text / blank / ) / ], behind white space; as only / first / middle / LAST element of vector<T> and of the arrays T[1..3] (brackets, trailing separator, unclosed bracket), as first and second component of pairs next to char / int / another such type, random strings; clean and stale errno; (d) implementation-side sweeps of the value round trip (thorough tier: all 2^32 values of int and of unsigned). '
        'non-trivial = a print/back or sweep case, an accepted parse, or a string of >= 2 bytes; distinct = distinct case tuples')
TRUSTED_BASE = ['strtoll/strtoull modelled per ISO C 7.22.1.4 ("C" locale, unbounded accumulator, clamp + ERANGE, strtoull negates modulo 2^64); validated against glibc by the correspondence run on every generated string',
                'std::istream >> signed char / unsigned char / short / unsigned short modelled per ISO C++ [istream.extractors] / [facet.num.get.virtuals] (skipws|dec, classic locale); validated against libstdc++ by the correspondence run',
                'LP64 <climits> values in tools/consts/C16.py (compared with the real ones by harness ops 6 and 9 4)',
                'props/C16.py oracle (python big integers, own numeral denotation and own parse of the enum macros)',
                'std::string/std::vector/std::pair as value containers']
ASSUMPTIONS = ['strings are NUL-terminated byte strings in the "C" locale; char is the 8-bit signed char of x86-64',
               'the base of a numeral is the one announced by its first two characters (0x/0X hexadecimal, 0 followed by an octal digit octal, otherwise decimal with optional white space and sign), as detectBase implements it: "-010" is decimal -10',
               'double is outside the property; of the types served by the stream fall-back parser signed char, unsigned char, short and unsigned short are exercised (std::istream >> T modelled per ISO C++, classic locale, validated by the correspondence run), float / long double are not',
               'for the stream-parsed types the oracle demands what the existing code documents (istream semantics: 8-bit targets receive ONE character, short / unsigned short decimal only) plus end position inside the string, errno untouched, string_cast iff nothing is left; that an 8-bit INTEGER target reads "7" as 55 is reported as a finding, not yet judged']
LEVEL_TEXT = ('Machine-checked proofs (Coq) about an executable model of detectBase/parseSigned/parseUnsigned/xconvert/EnumClass/convert_seq/string_cast and the printers: '
              'round trip parse(print v) = v for ALL values of int, unsigned, long, unsigned long, long long, unsigned long long (LP64, extremes and the printed word umax included, '
              'for clean and stale errno, also when followed by a separator), bool, char (NUL refuted); accepts-only: an accepted text denotes exactly the returned value in its detected base '
              'or keyword for digit runs of any length, value within range, end position inside the string, string_cast accepts iff nothing is left; finite sweep over all generated enum tables (the library\'s nine and the harness\'s six); '
              'enumerations for EVERY descriptor (stringified arguments, min, max; min is a bound, not necessarily a constant): isValid = within the bounds AND in the table (c16_enum_valid_iff), a text the int conversion accepts is accepted '
              'for the enumeration iff its number is a constant, with the same value and end position (c16_enum_number_accepted_iff, _wf), every constant of every well-formed descriptor reads back from its key (alone, as a prefix, in front of a separator) '
              'and from its decimal numeral (c16_enum_roundtrip_every_descriptor; hypotheses shown necessary by examples); '
              'pairs and non-empty lists round-trip for ALL element types of the model (integers, bool, char, every constant of the nine enumerations) with exactly the exclusions char NUL, char "(" as first component of a pair, '
              'char "[" as first element of a list (each exclusion proved necessary for every value of that shape, not only by a witness); accepts-only for every scalar type, pairs and lists on arbitrary strings: '
              'the input decomposes into optional brackets, element texts and separators, every delivered element is the denotation of its own text and lies in the range of its type, the end position lies inside the string. '
              'Appending list writer: for EVERY accumulator content and separator exactly accu ++ join(sep, element texts) is produced (c16_list_append), the appended part and toString(a, list) / toString(a, b, list) read back component by component (c16_list_append_roundtrip, c16_tostring2/3_roundtrip). '
              'Stream-parsed types (fall back template, istream >> T modelled): for every string the end position lies inside the string, an accepted text consumes at least one character, errno is untouched (c16_stream_end_inside), short / unsigned short values lie in range (c16_stream_short_in_range), 8-bit targets receive a character code (c16_stream_8bit_is_a_character, _number_refuted); the generic pair / sequence templates are those of the typed section (c16_pair/seq_template_instance). '
              'Model tied to the code by translator-regenerated tables and a differential run against the sanitizer build.')
LEVEL_NOTE = ('Trusted: Coq kernel/vm_compute, extraction+driver (sample cross-checked by vm_compute), harness, translator; libc strtoll/strtoull modelled (validated by correspondence); '
              'known findings: empty vector, char NUL, leading "(" / "[" char in pair / vector do not round-trip.')
TECHNIQUE = 'Coq proofs about an executable model + differential correspondence with the implementation + independent big-integer oracle'
DESIGN_REF = 'DESIGN.md section 5, C16'
ALLOWED_AXIOMS = []
SEARCH_ROUNDS = 2
READY = True
