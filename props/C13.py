"""C13 - command-line, command-string and config-file parsing return the intended values.

Case (integers, <str> = len bytes), mirrored by coq/C13/Model.v run_case and harness/h_c13.cpp:
  nopts (<name> alias kind neg)*  nalias (<name> idx)*  allowUnreg flags posmode <posname> mode payload  INTENT
  kind 0 flag / 1 implicit / 2 required;  posmode 0 none / 1 always <posname> / 2 reject / 3 <posname> for digit tokens
  mode 0 parseCommandLine, 1 parseCommandArray, 2 parseCommandString, 3 parseCfgFile;  payload: ntoks <tok>* | <bytes>
INTENT (ignored by model and harness, read by the oracle):  has class npairs (id <value>)* nrem <tok>*
REFUSED (optional trailer behind the intent; ignored by the model, executed by the harness):  nref (pos npiece (<name> alias kind neg)^npiece)*
  = adds the context must refuse with DuplicateOption (caught, the caller carries on): piece j is handed to OptionContext::add after `pos` of
  the case's options were accepted, its first option clashes with an accepted one (long name / alias / both).  Nothing of a refused piece is an
  option: its long names are ordinary unknown names for every later parse (the option ids of the intent count the case's options only).
The generator starts from an INTENDED list of items (option occurrence / positional / unknown token / end marker), writes
each item in a randomly chosen supported spelling whose side conditions it evaluates by brute force over the option list
(python reference below, independent of the Coq model), and records the intended pairs / remaining tokens / error class in
the case.  The oracle compares the implementation's observation with that intent.
"""
import random

PID = 'C13'
HARNESS = 'h_c13'
MODEL_MODULE = 'V.C13.Model'
DASH, EQ = 45, 61
FLAG, IMPLICIT, REQUIRED = 0, 1, 2


def B(s):
    return [ord(ch) for ch in s]


def _s(b):
    return bytes(x & 255 for x in b).decode('latin-1').encode('unicode_escape').decode()


# ------------------------------------------------------------------------------------------------ case codec
def _str(c, p):
    n = c[p]
    return list(c[p + 1:p + 1 + n]), p + 1 + n


def _estr(s):
    return [len(s)] + list(s)


def decode(c):
    d = {}
    p = 0
    n = c[p]; p += 1
    opts = []
    for _ in range(n):
        nm, p = _str(c, p)
        opts.append({'name': nm, 'alias': c[p], 'kind': c[p + 1], 'neg': c[p + 2], 'extra': []})
        p += 3
    na = c[p]; p += 1
    als = []
    for _ in range(na):
        nm, p = _str(c, p)
        als.append((nm, c[p])); p += 1
    d['opts'], d['aliases'] = opts, als
    d['allow'], d['flags'], d['posmode'] = c[p], c[p + 1], c[p + 2]
    p += 3
    d['posname'], p = _str(c, p)
    d['mode'] = c[p]; p += 1
    if d['mode'] in (0, 1):
        nt = c[p]; p += 1
        toks = []
        for _ in range(nt):
            t, p = _str(c, p)
            toks.append(t)
        d['toks'] = toks
    else:
        d['text'], p = _str(c, p)
    d['intent'] = None
    if p < len(c) and c[p] == 1:
        p += 1
        cls = c[p]; p += 1
        pairs, rem = [], []
        np_ = c[p]; p += 1
        for _ in range(np_):
            i = c[p]
            v, p = _str(c, p + 1)
            pairs.append((i, v))
        nr = c[p]; p += 1
        for _ in range(nr):
            t, p = _str(c, p)
            rem.append(t)
        d['intent'] = (cls, pairs, rem)
    elif p < len(c):
        p += 1
    d['refused'] = []
    if p < len(c):
        nref = c[p]; p += 1
        for _ in range(nref):
            pos, npc = c[p], c[p + 1]
            p += 2
            piece = []
            for _ in range(npc):
                nm, p = _str(c, p)
                piece.append({'name': nm, 'alias': c[p], 'kind': c[p + 1], 'neg': c[p + 2], 'extra': []})
                p += 3
            d['refused'].append((pos, piece))
    return d


def encode(opts, aliases, allow, flags, posmode, posname, mode, payload, intent, refused=None):
    e = [len(opts)]
    for o in opts:
        e += _estr(o['name']) + [o['alias'], o['kind'], o['neg']]
    e += [len(aliases)]
    for nm, i in aliases:
        e += _estr(nm) + [i]
    e += [allow, flags, posmode] + _estr(posname) + [mode]
    if mode in (0, 1):
        e += [len(payload)]
        for t in payload:
            e += _estr(t)
    else:
        e += _estr(payload)
    if intent is None:
        e += [0]
    else:
        cls, pairs, rem = intent
        e += [1, cls, len(pairs)]
        for i, v in pairs:
            e += [i] + _estr(v)
        e += [len(rem)]
        for t in rem:
            e += _estr(t)
    if refused:
        e += [len(refused)]
        for pos, piece in refused:
            e += [pos, len(piece)]
            for o in piece:
                e += _estr(o['name']) + [o['alias'], o['kind'], o['neg']]
    return e


def describe(c):
    try:
        d = decode(c)
    except Exception as ex:  # noqa
        return 'undecodable case (%r)' % (ex,)
    os_ = ', '.join('%s%s:%s%s' % (_s(o['name']), (',-' + chr(o['alias'])) if o['alias'] else '', 'FIR'[o['kind']], '!' if o['neg'] else '') for o in d['opts'])
    al = ''.join(' alias(%s->#%d)' % (_s(n), i) for n, i in d['aliases'])
    rf = ''.join(' refused-add-after-%d[%s]' % (pos, ', '.join('%s%s' % (_s(o['name']), (',-' + chr(o['alias'])) if o['alias'] else '') for o in pc))
                 for pos, pc in d.get('refused', []))
    head = 'options[%s]%s%s allowUnreg=%d flags=%d pos=%d(%s) ' % (os_, al, rf, d['allow'], d['flags'], d['posmode'], _s(d['posname']))
    if d['mode'] in (0, 1):
        body = ('parseCommandLine ' if d['mode'] == 0 else 'parseCommandArray ') + ' '.join("'%s'" % _s(t) for t in d['toks'])
    elif d['mode'] == 2:
        body = "parseCommandString '%s'" % _s(d['text'])
    else:
        body = "parseCfgFile '%s'" % _s(d['text'])
    it = d['intent']
    tail = '' if it is None else ' intent=%s' % (('error %d' % it[0]) if it[0] else 'pairs[%s] remaining[%s]' % (
        ', '.join('#%d=%s' % (i, _s(v)) for i, v in it[1]), ' '.join("'%s'" % _s(t) for t in it[2])))
    return head + body + tail


# ------------------------------------------------------------------------------------------------ reference lookup
def names_of(o):
    return [o['name']] + o['extra']


def resolve(opts, key):
    """name-or-prefix lookup by brute force over the option list: ('one', i) | ('none',) | ('many',)"""
    ex = [i for i, o in enumerate(opts) if key in names_of(o)]
    ms = ex if ex else [i for i, o in enumerate(opts) if any(n[:len(key)] == key for n in names_of(o))]
    if len(ms) == 1:
        return ('one', ms[0])
    return ('none',) if not ms else ('many',)


def by_alias(opts, ch):
    for i, o in enumerate(opts):
        if o['alias'] == ch:
            return i
    return None


# ------------------------------------------------------------------------------------------------ oracle
ERRNAME = {1: 'unknown-option', 2: 'ambiguous-option', 3: 'missing-value', 4: 'extra-value', 5: 'invalid-format', 7: 'refused-add-accepted', 8: 'context-refused', 9: 'other-exception'}


def must_refuse(opts, pos, piece):
    """reference: the first option of the piece clashes (long name or alias) with one of the first `pos` options"""
    if not piece:
        return False
    before = opts[:min(pos, len(opts))]
    f = piece[0]
    return any(f['name'] == o['name'] or (f['alias'] and f['alias'] == o['alias']) for o in before)


def oracle(c, obs):
    try:
        d = decode(c)
    except Exception:  # noqa
        return []
    it = d['intent']
    if d['refused'] and not all(must_refuse(d['opts'], pos, pc) for pos, pc in d['refused']):
        return []          # not a case of this generator (an add declared as refused does not clash): nothing is demanded
    if obs and obs[0] == 7:
        return ['add-with-clashing-name-or-alias-was-accepted-or-changed-the-option-list']
    if it is None:
        return []
    cls, pairs, rem = it
    if not obs:
        return ['empty-observation']
    if d['refused'] and obs[0] == 8:
        return ['context-refused-a-declared-option-after-a-refused-add']
    if cls != 0:
        if obs[0] == 0:
            return ['intended-error-%s-but-parse-succeeded' % ERRNAME.get(cls, cls)]
        if obs[0] != cls:
            return ['intended-error-%s-but-%s-reported' % (ERRNAME.get(cls, cls), ERRNAME.get(obs[0], obs[0]))]
        return []
    if obs[0] != 0:
        return ['valid-input-rejected-with-%s' % ERRNAME.get(obs[0], obs[0])]
    p = 1
    n = obs[p]; p += 1
    got = []
    for _ in range(n):
        i = obs[p]
        v, p = _str(obs, p + 1)
        got.append((i, v))
    if got != pairs:
        if sorted(got) == sorted(pairs):
            return ['pairs-out-of-order']
        return ['returned-pairs-are-not-the-intended-pairs']
    if d['mode'] == 0:
        if obs[p] == -1:
            return ['argv-not-rewritten-to-a-terminated-vector']
        nr = obs[p]; p += 1
        gr = []
        for _ in range(nr):
            t, p = _str(obs, p)
            gr.append(t)
        if gr != rem:
            return ['remaining-arguments-are-not-the-intended-ones']
    return []


def nontrivial(c, obs):
    try:
        d = decode(c)
    except Exception:  # noqa
        return False
    return len(d['opts']) >= 2 and (len(d.get('toks', [])) >= 2 or len(d.get('text', [])) >= 4)


# ------------------------------------------------------------------------------------------------ generation
NAME_POOL = ['alpha', 'al', 'alp', 'beta', 'bet', 'no-beta', 'no', 'no-', 'number', 'nut', 'verbose', 'v', 'help', 'help2', 'nob', 'x-y', 'gamma', 'g', 'no-gamma-x']
ALIASES = [97, 98, 99, 100, 102, 120, 121, 122, 48, 63]
VALUES = ['1', '0', 'x', '', 'a b', ' lead', 'trail ', '-1', '--', '--alpha=3', '-x', 'a=b', '=', '"q"', "it's", 'back\\slash', '\\', '\\"', 'tab\there', 'no', 'yes', '#c', 'é']


def gen_options(rnd):
    k = rnd.randint(2, 7)
    pool = list(NAME_POOL)
    rnd.shuffle(pool)
    names = [B(n) for n in pool[:k]]
    if rnd.random() < 0.3:
        names += [[rnd.choice([97, 98]) for _ in range(rnd.randint(1, 4))] for _ in range(2)]
    al = list(ALIASES)
    rnd.shuffle(al)
    opts, seen = [], []
    for nm in names:
        if nm in seen:
            continue
        seen.append(nm)
        opts.append({'name': nm, 'alias': al.pop() if (al and rnd.random() < 0.6) else 0,
                     'kind': rnd.choice([FLAG, FLAG, IMPLICIT, REQUIRED, REQUIRED]), 'neg': 1 if rnd.random() < 0.45 else 0, 'extra': []})
    aliases = []
    if rnd.random() < 0.25:
        i = rnd.randrange(len(opts))
        nm = opts[i]['name']
        an = rnd.choice([nm[:max(1, len(nm) - 1)], nm + [50], B('zz')])
        if all(an not in names_of(o) for o in opts):
            opts[i]['extra'].append(an)
            aliases.append((an, i))
    return opts, aliases


def unique_keys(opts, i):
    """all keys (prefixes of a name of option i, without '=') that resolve to option i"""
    ks = []
    for n in names_of(opts[i]):
        for l in range(1, len(n) + 1):
            k = n[:l]
            if EQ not in k and resolve(opts, k) == ('one', i) and k not in ks:
                ks.append(k)
    return ks


def pick_key(rnd, opts, i):
    ks = unique_keys(opts, i)
    if not ks:
        return None
    q = rnd.random()
    if q < 0.4:
        return opts[i]['name'] if opts[i]['name'] in ks else rnd.choice(ks)
    if q < 0.7:
        return min(ks, key=len)
    return rnd.choice(ks)


def rvalue(rnd, nonempty=False):
    v = B(rnd.choice(VALUES))
    if rnd.random() < 0.15:
        v = [rnd.choice([97, 32, 34, 39, 92, 45, 61, 9, 200]) for _ in range(rnd.randint(0, 5))]
    if nonempty and not v:
        v = B('7')
    return v


def spell_occ(rnd, opts, i, afv):
    """-> (tokens, [(i, value)]) or None"""
    o = opts[i]
    forms = []
    key = pick_key(rnd, opts, i)
    if key is not None:
        forms += ['long_eq'] if (o['kind'] != FLAG or afv) else []
        if o['kind'] == REQUIRED:
            forms += ['long_sep', 'long_sep']
        else:
            forms += ['long_impl', 'long_impl']
        if o['neg'] and resolve(opts, B('no-') + key)[0] == 'none':
            forms += ['long_no', 'long_no']
    if o['alias']:
        if o['kind'] == REQUIRED:
            forms += ['short_sep', 'short_adj']
        elif o['kind'] == IMPLICIT:
            forms += ['short_adj', 'short_impl']
        else:
            forms += ['short_impl']
    if not forms:
        return None
    f = rnd.choice(forms)
    dd = [DASH, DASH]
    if f == 'long_eq':
        v = rvalue(rnd, True)
        return [dd + key + [EQ] + v], [(i, v)]
    if f == 'long_sep':
        v = rvalue(rnd)
        return [dd + key, v], [(i, v)]
    if f == 'long_impl':
        return [dd + key], [(i, [])]
    if f == 'long_no':
        return [dd + B('no-') + key], [(i, B('no'))]
    a = [DASH, o['alias']]
    if f == 'short_sep':
        v = rvalue(rnd)
        return [a, v], [(i, v)]
    if f == 'short_adj':
        v = rvalue(rnd, True)
        return [a + v], [(i, v)]
    return [a], [(i, [])]


def spell_group(rnd, opts):
    """grouped short flags, optionally followed by a valued alias"""
    fl = [i for i, o in enumerate(opts) if o['alias'] and o['kind'] == FLAG]
    if not fl:
        return None
    k = rnd.randint(1, 4)
    chosen = [rnd.choice(fl) for _ in range(k)]
    tok = [DASH] + [opts[i]['alias'] for i in chosen]
    pairs = [(i, []) for i in chosen]
    toks = [tok]
    vs = [i for i, o in enumerate(opts) if o['alias'] and o['kind'] != FLAG]
    if vs and rnd.random() < 0.6:
        j = rnd.choice(vs)
        tok.append(opts[j]['alias'])
        q = rnd.random()
        if opts[j]['kind'] == REQUIRED and q < 0.5:
            v = rvalue(rnd)
            toks.append(v)
        elif opts[j]['kind'] == IMPLICIT and q < 0.5:
            v = []
        else:
            v = rvalue(rnd, True)
            tok += v
        pairs.append((j, v))
    return toks, pairs


def pos_target(opts, posmode, posname, tok):
    """what the positional handler does with tok: option id or None"""
    if posmode == 1 or (posmode == 3 and tok and 48 <= tok[0] <= 57):
        r = resolve(opts, posname)
        return r
    return resolve(opts, B('Positional Option'))


FRESH_POOL = ['verbose2', 'zeta', 'omega', 'version', 'alphabet', 'helper', 'numb', 'out', 'nob2', 'gam', 'betamax', 'no-zeta', 'q', 'level', 'no-help']
FRESH_ALIASES = [35, 64, 113, 119, 117, 37]


def gen_refused(rnd, opts):
    """Adds the context must refuse, to be tried while the option set is being put together.
    -> {'pieces': [(pos, [opt...])], 'names': refused-only long names, 'aliases': refused-only alias characters}"""
    n = len(opts)

    def taken(nm):
        return any(nm in names_of(o) for o in opts)

    def fresh_name(pos):
        for _ in range(30):
            q = rnd.random()
            if q < 0.35:
                nm = B(rnd.choice(FRESH_POOL))
            elif q < 0.6:
                nm = list(rnd.choice(opts)['name']) + B(rnd.choice(['x', '2', '-more', 'a']))      # a real name is a prefix of it
            elif q < 0.8:
                b = rnd.choice(opts)['name']
                nm = list(b[:rnd.randint(1, len(b))]) + B(rnd.choice(['zq', 'q']))                 # shares a prefix with a real name
            elif q < 0.9:
                b = rnd.choice(opts)['name']
                nm = list(b[:rnd.randint(1, len(b))])                                              # a prefix of a real name
            else:
                later = [o for o in opts[pos:]]
                if not later:
                    continue
                return list(rnd.choice(later)['name'])                                             # registered for real LATER
            if nm and not taken(nm) and EQ not in nm and nm[0] != DASH:
                return nm
        return None
    pieces, names, achars = [], [], []
    used_alias = [o['alias'] for o in opts if o['alias']]
    for _ in range(rnd.choice([1, 1, 2, 3])):
        pos = rnd.randint(1, max(1, n - 1)) if rnd.random() < 0.8 else n
        before = opts[:pos]
        with_alias = [o for o in before if o['alias']]
        kind = rnd.choice(['alias', 'alias', 'alias', 'name', 'both'])
        if kind != 'name' and not with_alias:
            kind = 'name'
        first = {'kind': rnd.choice([FLAG, IMPLICIT, REQUIRED]), 'neg': rnd.choice([0, 0, 1]), 'extra': []}
        if kind == 'alias':
            nm = fresh_name(pos)
            if nm is None:
                continue
            first.update(name=nm, alias=rnd.choice(with_alias)['alias'])
        elif kind == 'name':
            fa = [a for a in FRESH_ALIASES if a not in used_alias]
            first.update(name=list(rnd.choice(before)['name']), alias=rnd.choice(fa) if (fa and rnd.random() < 0.6) else 0)
        else:
            first.update(name=list(rnd.choice(before)['name']), alias=rnd.choice(with_alias)['alias'])
        piece = [first]
        for _ in range(rnd.choice([0, 0, 0, 1, 2])):
            nm = fresh_name(pos)
            if nm is not None and all(nm != o['name'] for o in piece):
                piece.append({'name': nm, 'alias': 0, 'kind': rnd.choice([FLAG, REQUIRED]), 'neg': 0, 'extra': []})
        pieces.append((pos, piece))
        for o in piece:
            if not taken(o['name']) and o['name'] not in names:
                names.append(o['name'])
            if o['alias'] and o['alias'] not in used_alias and o['alias'] not in achars:
                achars.append(o['alias'])
    if not pieces:
        return None
    return {'pieces': pieces, 'names': names, 'aliases': achars}


def refused_key(rnd, ref):
    """a way to mention a refused-only long name: in full, by a prefix, negated"""
    if not ref or not ref['names']:
        return None
    nm = list(rnd.choice(ref['names']))
    q = rnd.random()
    if q < 0.3 and len(nm) > 1:
        nm = nm[:rnd.randint(max(1, len(nm) - 3), len(nm) - 1)]
    elif q < 0.45:
        nm = B('no-') + nm
    return nm


def unknown_token(rnd, opts, ref=None):
    """a token that names no option (ref: prefer the names / alias characters of adds the context refused)"""
    for _ in range(20):
        q = rnd.random()
        if ref and rnd.random() < 0.8:
            if ref['aliases'] and rnd.random() < 0.2:
                ch = rnd.choice(ref['aliases'])
                if by_alias(opts, ch) is None:
                    return [DASH, ch] + rvalue(rnd)[:3]
            nm = refused_key(rnd, ref)
            if nm is None:
                nm = B('zeta')
            q = 0.0
        elif q < 0.5:
            nm = B(rnd.choice(['zeta', 'omega', 'q', 'no-zeta', 'no-alpha', 'no-q', 'alphabet', 'w-']))
        if q < 0.5:
            if resolve(opts, nm)[0] != 'none':
                continue
            if nm[:3] == B('no-'):
                r = resolve(opts, nm[3:])
                if r[0] == 'one' and opts[r[1]]['neg']:
                    continue
            v = rvalue(rnd, True) if rnd.random() < 0.4 else None
            return [DASH, DASH] + nm + ([EQ] + v if v is not None else [])
        ch = rnd.choice([113, 119, 117, 35, 64])
        if by_alias(opts, ch) is None:
            return [DASH, ch] + rvalue(rnd)[:3]
    return None


def gen_argv_case(rnd, kind, refused=False):
    opts, aliases = gen_options(rnd)
    ref = gen_refused(rnd, opts) if refused else None
    allow = 1 if kind in ('unknown-left', 'mixed') or rnd.random() < 0.3 else 0
    if kind in ('error-unknown', 'error-pos'):
        allow = 0
    flags = rnd.choice([0, 0, 1])
    afv = bool(flags & 1)
    posmode = rnd.choice([0, 0, 1, 2, 3])
    posname = list(rnd.choice(opts)['name']) if rnd.random() < 0.8 else B('nosuch')
    toks, pairs, rem = [], [], []
    nitems = rnd.randint(1, 7)
    err = 0
    err_at = rnd.randrange(nitems) if kind.startswith('error') else -1
    for it in range(nitems):
        if it == err_at:
            if kind == 'error-unknown':
                t = unknown_token(rnd, opts, ref)
                if t is None:
                    continue
                toks.append(t)
                err = 1
                break
            if kind == 'error-ambiguous':
                # a prefix shared by two options
                cands = []
                for o in opts:
                    for l in range(1, len(o['name'])):
                        k = o['name'][:l]
                        if resolve(opts, k) == ('many',) and EQ not in k and k not in cands:
                            cands.append(k)
                if not cands:
                    continue
                k = rnd.choice(cands)
                toks.append([DASH, DASH] + k + ([EQ] + rvalue(rnd, True) if rnd.random() < 0.5 else []))
                err = 2
                break
            if kind == 'error-extra' and not afv:
                fl = [i for i, o in enumerate(opts) if o['kind'] == FLAG and pick_key(rnd, opts, i) is not None]
                if not fl:
                    continue
                i = rnd.choice(fl)
                toks.append([DASH, DASH] + pick_key(rnd, opts, i) + [EQ] + rvalue(rnd, True))
                err = 4
                break
            if kind == 'error-pos':
                t = B(rnd.choice(['file', '-', '7up', 'a b', '']))
                r = pos_target(opts, posmode, posname, t)
                if r[0] == 'one':
                    continue
                toks.append(t)
                err = 1 if r[0] == 'none' else 2
                break
            continue
        q = rnd.random()
        if ref and allow and rnd.random() < 0.3:
            q = 0.95            # mention a name / alias of a refused add: it must stay in the remaining arguments
        if q < 0.62:
            i = rnd.randrange(len(opts))
            s = spell_occ(rnd, opts, i, afv)
            if s:
                toks += s[0]; pairs += s[1]
        elif q < 0.74:
            s = spell_group(rnd, opts)
            if s:
                toks += s[0]; pairs += s[1]
        elif q < 0.88:
            t = B(rnd.choice(['file.lp', '-', '0', '42', 'a b', '', 'x=y', 'é']))
            r = pos_target(opts, posmode, posname, t)
            if r[0] == 'one':
                toks.append(t); pairs.append((r[1], t))
            elif r[0] == 'none' and allow:
                toks.append(t); rem.append(t)
        elif allow:
            t = unknown_token(rnd, opts, ref)
            if t is not None:
                toks.append(t); rem.append(t)
    if kind == 'error-missing':
        rq = [i for i, o in enumerate(opts) if o['kind'] == REQUIRED]
        cand = [i for i in rq if pick_key(rnd, opts, i) is not None or opts[i]['alias']]
        if cand:
            i = rnd.choice(cand)
            k = pick_key(rnd, opts, i)
            if opts[i]['alias'] and (k is None or rnd.random() < 0.5):
                toks.append([DASH, opts[i]['alias']])
            else:
                toks.append([DASH, DASH] + k + ([EQ] if rnd.random() < 0.3 else []))
            err = 3
    if not err and (kind == 'end-marker' or rnd.random() < 0.15):
        rest = [rvalue(rnd) for _ in range(rnd.randint(0, 3))] + ([[DASH, DASH]] if rnd.random() < 0.3 else []) + ([B('--alpha=1')] if rnd.random() < 0.5 else [])
        toks.append([DASH, DASH])
        toks += rest
        rem += rest
    if kind.startswith('error') and not err:
        return None
    intent = (err, [] if err else pairs, [] if err else rem)
    return opts, aliases, allow, flags, posmode, posname, toks, intent, (ref['pieces'] if ref else None)


# quoting for parseCommandString
def esc(tok):
    out = []
    for b in tok:
        if b in (34, 39, 92):
            out.append(92)
        out.append(b)
    return out


def esc_lenient(tok):
    """a backslash escapes only a quote or a backslash: in front of any other character - or at the very end of the token / of the whole
    string - it stands for itself and may be written unescaped (seeded C13-r14: `strchr("\"'\\", next)` also matches the terminating NUL,
    so a command string ending in a backslash loses it and is read beyond its end)"""
    out = []
    for i, b in enumerate(tok):
        if b in (34, 39) or (b == 92 and i + 1 < len(tok) and tok[i + 1] in (34, 39, 92)):
            out.append(92)
        out.append(b)
    return out


def render_tok(rnd, tok):
    bare_ok = tok and not any(b == 32 or 9 <= b <= 13 for b in tok)
    styles = ['dq', 'sq'] + (['bare', 'bare'] if bare_ok else [])
    st = rnd.choice(styles)
    if st == 'bare':
        return esc_lenient(tok) if rnd.random() < 0.5 else esc(tok)
    q = 34 if st == 'dq' else 39
    if rnd.random() < 0.5:
        # inside a quoted token a quote of the OTHER kind is an ordinary character: it may stay unescaped ("it's here")
        other = 39 if q == 34 else 34
        body = []
        for b in tok:
            if b in (q, 92):
                body.append(92)
            body.append(b)
        return [q] + body + [q]
    return [q] + esc(tok) + [q]


def render_string(rnd, toks):
    out = []
    if rnd.random() < 0.3:
        out += [rnd.choice([32, 9, 10])] * rnd.randint(1, 2)
    for k, t in enumerate(toks):
        if k:
            out += [32] * rnd.choice([1, 1, 2]) + ([9] if rnd.random() < 0.1 else [])
        out += render_tok(rnd, t)
    if rnd.random() < 0.3:
        out += [32]
    return out


def gen_cfg_case(rnd, kind, refused=False):
    opts, aliases = gen_options(rnd)
    ref = gen_refused(rnd, opts) if refused else None

    def unknown_key(pool):
        if ref and ref['names'] and rnd.random() < 0.8:
            nm = list(rnd.choice(ref['names']))
            if rnd.random() < 0.3 and len(nm) > 1:
                nm = nm[:rnd.randint(max(1, len(nm) - 3), len(nm) - 1)]
            if nm[0] != 35:
                return nm
        return B(rnd.choice(pool))
    allow = 1 if rnd.random() < 0.4 else 0
    text, pairs = [], []
    err = 0

    def blanks():
        return [rnd.choice([32, 9]) for _ in range(rnd.choice([0, 0, 1, 2]))]

    def noise():
        q = rnd.random()
        if q < 0.4:
            return blanks() + [10]
        return blanks() + B('# ' + rnd.choice(['comment', 'alpha = 3', '']) ) + [10]
    nsec = rnd.randint(1, 6)
    err_at = rnd.randrange(nsec) if kind.startswith('cfg-error') else -1
    for sidx in range(nsec):
        while rnd.random() < 0.35:
            text += noise()
        if sidx == err_at:
            if kind == 'cfg-error-format':
                if sidx == 0 or text[-2:-1] != [] :
                    # a line without '=' right after a comment/blank line (outside any section)
                    text += noise()
                    text += blanks() + B('just words') + blanks() + [10]
                    err = 5
                    break
            if kind == 'cfg-error-unknown':
                allow = 0
                nm = unknown_key(['zeta', 'omega', 'nosuch'])
                if resolve(opts, nm)[0] != 'none':
                    continue
                text += blanks() + nm + blanks() + [EQ] + blanks() + B('1') + [10]
                err = 1
                break
        q = rnd.random()
        if ref and allow and rnd.random() < 0.3:
            q = 0.0
        if q < 0.15 and allow:
            nm = unknown_key(['zeta', 'omega'])
            if resolve(opts, nm)[0] == 'none':
                text += blanks() + nm + blanks() + [EQ] + blanks() + B('1') + blanks() + [10]
            continue
        i = rnd.randrange(len(opts))
        key = pick_key(rnd, opts, i)
        if key is None or key[0] == 35:
            continue
        v1 = [b for b in rvalue(rnd) if b != 10]
        while v1 and v1[0] in (32, 9):
            v1 = v1[1:]
        while v1 and v1[-1] in (32, 9):
            v1 = v1[:-1]
        conts = []
        while rnd.random() < 0.3:
            cl = [b for b in B(rnd.choice(['more', 'a b', 'x y  z', '-1', '"q"', 'é'])) if b != EQ]
            conts.append(cl)
        text += blanks() + key + blanks() + [EQ] + blanks() + v1 + blanks() + ([10] if (conts or sidx < nsec - 1 or rnd.random() < 0.7) else [])
        val = list(v1)
        for k, cl in enumerate(conts):
            text += blanks() + cl + blanks() + ([10] if (k < len(conts) - 1 or sidx < nsec - 1 or rnd.random() < 0.7) else [])
            val += [32] + cl
        pairs.append((i, val))
        if text and text[-1] != 10:
            break
    if kind.startswith('cfg-error') and not err:
        return None
    intent = (err, [] if err else pairs, [])
    return opts, aliases, allow, 0, 0, [], text, intent, (ref['pieces'] if ref else None)


SAMEKEY_WORDS = ['foo', 'x-ray', 'xy', 'verbose', 'version', 'v', 'silent', 'quiet', 'q', 'x', 'alpha', 'beta', 'gamma', 'g', 'help', 'number', 'n', 'all']


def gen_samekey_case(rnd):
    """Two or more tokens IN A ROW that use the same key string under different lookup modes: the short option -c (alias lookup of "c") next to
    the long option spelled with the one-letter key --c (name-or-prefix lookup of "c": an exact one-letter name, the unique prefix of a name, an
    ambiguous prefix, or a prefix of nothing), in both orders, with and without values, with another token in between and the same mode twice
    (controls), alias characters that are the first letter of ANOTHER option's name.  Every token must resolve exactly as it would alone: the
    intent is computed token by token with the brute-force resolver."""
    names = [B(w) for w in rnd.sample(SAMEKEY_WORDS, rnd.randint(3, 7))]
    letters = sorted({nm[0] for nm in names}) + [120, 118, 113, 104, 122]
    used, opts = set(), []
    for nm in names:
        a = 0
        if rnd.random() < 0.7:
            cand = [ch for ch in letters if ch not in used and (ch != nm[0] or rnd.random() < 0.3)]
            if cand:
                a = rnd.choice(cand)
                used.add(a)
        opts.append({'name': nm, 'alias': a, 'kind': rnd.choice([FLAG, FLAG, IMPLICIT, REQUIRED, REQUIRED]), 'neg': 1 if rnd.random() < 0.3 else 0, 'extra': []})
    allow = 1 if rnd.random() < 0.45 else 0
    flags = rnd.choice([0, 0, 1])
    afv = bool(flags & 1)
    toks, pairs, rem = [], [], []
    err = 0

    def simple_value():
        return B(rnd.choice(['1', '7', 'x', 'a b', 'no', '-1', 'it\'s', 'v=w']))

    def emit(i, key_tok, short):
        """option i spelled with the token head key_tok ("-c" / "--c"); -> nothing; appends tokens and the intended pair"""
        k = opts[i]['kind']
        if k == FLAG:
            if not short and afv and rnd.random() < 0.3:
                v = B(rnd.choice(['1', 'no', 'yes']))
                toks.append(key_tok + [EQ] + v); pairs.append((i, v))
            else:
                toks.append(key_tok); pairs.append((i, []))
        elif k == IMPLICIT:
            if rnd.random() < 0.5:
                toks.append(key_tok); pairs.append((i, []))
            else:
                v = simple_value()
                toks.append(key_tok + ([] if short else [EQ]) + v); pairs.append((i, v))
        else:
            v = simple_value()
            if rnd.random() < 0.5:
                toks.append(key_tok + ([] if short else [EQ]) + v)
            else:
                toks.append(key_tok); toks.append(v)
            pairs.append((i, v))

    def short_tok(ch):
        i = by_alias(opts, ch)
        if i is None:
            if allow:
                toks.append([DASH, ch]); rem.append([DASH, ch])
                return 0
            toks.append([DASH, ch])
            return 1
        emit(i, [DASH, ch], True)
        return 0

    def long_tok(key):
        r = resolve(opts, key)
        if r[0] == 'one':
            emit(r[1], [DASH, DASH] + key, False)
            return 0
        if r[0] == 'many':
            toks.append([DASH, DASH] + key + ([EQ] + B('1') if rnd.random() < 0.5 else []))
            return 2
        t = [DASH, DASH] + key + ([EQ] + B('1') if rnd.random() < 0.5 else [])
        toks.append(t)
        if allow:
            rem.append(t)
            return 0
        return 1
    achars = [o['alias'] for o in opts if o['alias']]
    for _ in range(rnd.choice([1, 1, 2, 2, 3])):
        q = rnd.random()
        ch = rnd.choice(achars) if (achars and q < 0.7) else rnd.choice(letters)
        shape = rnd.choice(['sl', 'ls', 'sl', 'ls', 'sxl', 'lxs', 'ss', 'll', 'sls', 'lsl', 'sL', 'Ls'])
        for x in shape:
            if x == 's':
                err = short_tok(ch)
            elif x == 'l':
                err = long_tok([ch])
            elif x in 'LS':
                cand = [o['name'] for o in opts if o['name'][:1] == [ch] and len(o['name']) > 1]
                err = long_tok(list(rnd.choice(cand)) if cand else [ch, 122])
            else:
                i = rnd.randrange(len(opts))
                key = pick_key(rnd, opts, i)
                if key is not None:
                    err = long_tok(key)
            if err:
                break
        if err:
            break
    intent = (err, [] if err else pairs, [] if err else rem)
    return opts, [], allow, flags, 0, [], toks, intent, None


SOUP = ['--', '-', '--alpha', '--beta=', '--alpha=3', '-fx', '-x', '--no-beta', '--no-alpha=1', '--no-', '--=', '--=v', '-', '', 'file', '--no-no-beta', '-ab', '-a', 'v', '--n', '--nu=1', '--he', '-0', '--verbose=no', '--no-verbose', '-v1']


def gen_soup(rnd, refused=False):
    opts, aliases = gen_options(rnd)
    toks = [B(rnd.choice(SOUP)) if rnd.random() < 0.8 else rvalue(rnd) for _ in range(rnd.randint(1, 6))]
    r = (opts, aliases, rnd.choice([0, 1]), rnd.choice([0, 1]), rnd.choice([0, 1, 2, 3]), list(rnd.choice(opts)['name']), toks, None)
    ref = gen_refused(rnd, opts) if refused else None
    if ref:
        for _ in range(rnd.randint(1, 2)):
            k = refused_key(rnd, ref)
            if k is not None:
                toks.insert(rnd.randrange(len(toks) + 1), [DASH, DASH] + k + ([EQ] + rvalue(rnd, True) if rnd.random() < 0.5 else []))
    return r + ((ref['pieces'] if ref else None),)


def fixed_cases():
    out = []
    o = [{'name': B('alpha'), 'alias': 97, 'kind': REQUIRED, 'neg': 0, 'extra': []}, {'name': B('beta'), 'alias': 98, 'kind': REQUIRED, 'neg': 0, 'extra': []},
         {'name': B('flag'), 'alias': 102, 'kind': FLAG, 'neg': 1, 'extra': []}]
    # probed behaviours (DESIGN): no intent, correspondence only
    out.append((encode(o, [], 1, 0, 0, [], 0, [B('--beta='), B('--alpha=3')], None), {'kind': 'probed-empty-value-after-eq'}))
    out.append((encode(o, [], 1, 0, 0, [], 0, [B('-fx')], None), {'kind': 'probed-mixed-short-group'}))
    # the repo's own test ("Test parse argv array")
    out.append((encode(o, [], 1, 0, 0, [], 1, [B('-f'), B('-a3'), B('--beta'), B('6')], (0, [(2, []), (0, B('3')), (1, B('6'))], [])), {'kind': 'repo-test-argv-array'}))
    out.append((encode(o, [], 1, 0, 0, [], 0, [B('--no-flag'), B('x'), B('--'), B('--alpha=1')], (0, [(2, B('no'))], [B('x'), B('--alpha=1')])), {'kind': 'end-marker'}))
    # alias name sharing a prefix with its own option (C14 finding, repaired): --nu=3
    o2 = [{'name': B('number'), 'alias': 0, 'kind': REQUIRED, 'neg': 0, 'extra': [B('num')]}, {'name': B('other'), 'alias': 0, 'kind': FLAG, 'neg': 0, 'extra': []}]
    out.append((encode(o2, [(B('num'), 0)], 0, 0, 0, [], 2, B('--nu=3 --other'), (0, [(0, B('3')), (1, [])], [])), {'kind': 'regress-alias-name-prefix'}))
    # seeded C13-r6: a context put together in steps; the add of `verbose,-h` is refused (alias taken by `help`), the caller carries on and adds
    # `output`: the name `verbose` (full, prefix, --no-verbose, config key) is unknown - it must not parse as the option that got the next slot
    o3 = [{'name': B('help'), 'alias': 104, 'kind': FLAG, 'neg': 0, 'extra': []}, {'name': B('number'), 'alias': 110, 'kind': REQUIRED, 'neg': 0, 'extra': []},
          {'name': B('output'), 'alias': 111, 'kind': REQUIRED, 'neg': 1, 'extra': []}]
    rf = [(2, [{'name': B('verbose'), 'alias': 104, 'kind': FLAG, 'neg': 0, 'extra': []}])]
    k = {'kind': 'regress-refused-add-name-unknown'}
    out.append((encode(o3, [], 0, 0, 0, [], 0, [B('--number=4'), B('--verbose=3')], (1, [], []), rf), k))
    out.append((encode(o3, [], 1, 0, 0, [], 0, [B('--number=4'), B('--verbose=3'), B('-o'), B('x.lp')], (0, [(1, B('4')), (2, B('x.lp'))], [B('--verbose=3')]), rf), k))
    out.append((encode(o3, [], 1, 0, 0, [], 0, [B('--no-verbose'), B('--verb'), B('-n'), B('1')], (0, [(1, B('1'))], [B('--no-verbose'), B('--verb')]), rf), k))
    out.append((encode(o3, [], 0, 0, 0, [], 2, B('--number=4 --verb 3'), (1, [], []), rf), k))
    out.append((encode(o3, [], 0, 0, 0, [], 3, B('# demo\nnumber = 4\nverbose = 3\n'), (1, [], []), rf), k))
    out.append((encode(o3, [], 0, 0, 0, [], 2, B('-h --out=y -n7'), (0, [(0, []), (2, B('y')), (1, B('7'))], []), rf), k))
    # refused because the long name is taken (with an unused alias `-#`), refused at the very end (no later option), a piece with options behind the clash
    rf2 = [(1, [{'name': B('help'), 'alias': 35, 'kind': REQUIRED, 'neg': 0, 'extra': []}, {'name': B('zeta'), 'alias': 0, 'kind': FLAG, 'neg': 0, 'extra': []}]),
           (3, [{'name': B('verbose'), 'alias': 110, 'kind': REQUIRED, 'neg': 0, 'extra': []}])]
    out.append((encode(o3, [], 1, 0, 0, [], 0, [B('-#'), B('--zeta'), B('--verbose=1'), B('-n'), B('2')], (0, [(1, B('2'))], [B('-#'), B('--zeta'), B('--verbose=1')]), rf2), k))
    out.append((encode(o3, [], 0, 0, 0, [], 1, [B('-n'), B('2'), B('--verbose=1')], (1, [], []), rf2), k))
    # seeded C14-r8: the same key string under different lookup modes within one parse (alias x = foo, unique prefix x = x-ray; alias v = verbose, name v;
    # alias q = silent, no name starts with q)
    o4 = [{'name': B('foo'), 'alias': 120, 'kind': FLAG, 'neg': 0, 'extra': []}, {'name': B('x-ray'), 'alias': 0, 'kind': REQUIRED, 'neg': 0, 'extra': []},
          {'name': B('verbose'), 'alias': 118, 'kind': REQUIRED, 'neg': 0, 'extra': []}, {'name': B('v'), 'alias': 0, 'kind': REQUIRED, 'neg': 0, 'extra': []},
          {'name': B('silent'), 'alias': 113, 'kind': FLAG, 'neg': 0, 'extra': []}]
    k = {'kind': 'regress-same-key-other-lookup-mode'}
    out.append((encode(o4, [], 0, 0, 0, [], 2, B('-x --x=7'), (0, [(0, []), (1, B('7'))], [])), k))
    out.append((encode(o4, [], 0, 0, 0, [], 2, B('--x=7 -x'), (0, [(1, B('7')), (0, [])], [])), k))
    out.append((encode(o4, [], 0, 0, 0, [], 0, [B('-v'), B('2'), B('--v=3')], (0, [(2, B('2')), (3, B('3'))], [])), k))
    out.append((encode(o4, [], 0, 0, 0, [], 1, [B('-q'), B('--q')], (1, [], [])), k))
    out.append((encode(o4, [], 1, 0, 0, [], 0, [B('-q'), B('--q'), B('--x'), B('1'), B('-x')], (0, [(4, []), (1, B('1')), (0, [])], [B('--q')])), k))
    return out


KINDS = ['valid', 'valid', 'valid', 'unknown-left', 'end-marker', 'error-unknown', 'error-ambiguous', 'error-missing', 'error-extra', 'error-pos',
         'string', 'string', 'cfg', 'cfg', 'cfg-error-format', 'cfg-error-unknown', 'soup', 'same-key', 'same-key']


def gen(seed, tier):
    rnd = random.Random(seed * 1000003 + 13)
    total = {'quick': 4000, 'thorough': 200000, 'search': 4000}.get(tier, 4000)
    out = fixed_cases()
    guard = 0
    while len(out) < total and guard < total * 20:
        guard += 1
        kind = rnd.choice(KINDS)
        # the same streams over a context that was put together with REFUSED adds in between (DuplicateOption caught, more options added
        # afterwards); unknown tokens / keys then prefer the names of the refused options (full, prefix, --no-<name>, alias character)
        refused = rnd.random() < 0.35
        if refused and kind in ('valid', 'end-marker') and rnd.random() < 0.6:
            kind = rnd.choice(['unknown-left', 'error-unknown'])
        if refused and kind == 'cfg' and rnd.random() < 0.4:
            kind = 'cfg-error-unknown'
        tag = '-refused-adds' if refused else ''
        if kind == 'same-key':
            opts, aliases, allow, flags, pm, pn, toks, intent, pieces = gen_samekey_case(rnd)
            mode = rnd.choice([0, 1, 2, 2])
            payload = toks if mode != 2 else render_string(rnd, toks)
            out.append((encode(opts, aliases, allow, flags, pm, pn, mode, payload, intent, pieces), {'kind': 'same-key-other-lookup-mode'}))
            continue
        if kind == 'soup':
            opts, aliases, allow, flags, pm, pn, toks, intent, pieces = gen_soup(rnd, refused)
            mode = rnd.choice([0, 1, 2])
            payload = toks if mode != 2 else render_string(rnd, toks)
            out.append((encode(opts, aliases, allow, flags, pm, pn, mode, payload, None, pieces), {'kind': 'soup' + tag}))
            continue
        if kind.startswith('cfg'):
            r = gen_cfg_case(rnd, kind, refused)
            if r is None:
                continue
            opts, aliases, allow, flags, pm, pn, text, intent, pieces = r
            out.append((encode(opts, aliases, allow, flags, pm, pn, 3, text, intent, pieces), {'kind': kind + tag}))
            continue
        r = gen_argv_case(rnd, 'valid' if kind == 'string' else kind, refused)
        if r is None:
            continue
        opts, aliases, allow, flags, pm, pn, toks, intent, pieces = r
        if kind == 'string' or rnd.random() < 0.15:
            out.append((encode(opts, aliases, allow, flags, pm, pn, 2, render_string(rnd, toks), intent, pieces), {'kind': ('string-' + kind if kind != 'string' else 'string') + tag}))
        else:
            mode = rnd.choice([0, 0, 1])
            out.append((encode(opts, aliases, allow, flags, pm, pn, mode, toks, intent, pieces), {'kind': kind + tag}))
    return out


RULE = ('cases = (generated option set: 2-9 long names with shared prefixes and "no-" prefixes, optional aliases, flag/implicit/required kinds, negatable or not, '
        'optional alias name; allowUnreg; flags; positional handler mode; the harness attaches argument name / default / implicit value of each option in an order and subset derived from the case: '
        'all six orders for implicit-valued options) x (an intended item list written in randomly chosen valid spellings: --n=v, --n v, --n, '
        'unique prefixes down to the shortest, --no-n, -a v, -av, -a, grouped flags with an optional valued alias, positional tokens, unknown tokens, "--" + rest) '
        'run through parseCommandLine (argv rewrite observed) / parseCommandArray / parseCommandString (random bare, single and double quoting with backslash escapes) / '
        'parseCfgFile (blanks, comments, blank lines, continuation lines); error streams: unknown option, ambiguous prefix, missing value, value for a flag, unmapped '
        'positional, malformed config line; a stream that puts the SAME key string under different lookup modes next to each other within one parse (short option -c next to the '
        'long option spelled with the one-letter key --c, both orders, with and without values, another token in between / the same mode twice as controls; the alias character is the '
        'first letter, the unique prefix or the exact one-letter name of ANOTHER option, an ambiguous prefix, or a prefix of nothing; allowUnreg on and off): every token must resolve '
        'as it would alone; plus a token soup stream without intent (correspondence only). 35 % of all streams run over a context that was put '
        'together in steps with 1-3 adds the context must REFUSE in between (DuplicateOption caught, the caller carries on and adds the remaining options; clash by '
        'long name (with or without an unused alias), by alias with a FRESH long name, by both; 0-2 further options behind the clashing one; fresh names from a pool, '
        'extending / sharing a prefix with / being a prefix of a real name, or registered for real later): the refused-only names are mentioned in full, by prefix, as '
        '--no-<name>, as config key and by their alias character and must be unknown (error, or left in the remaining arguments with argc/argv checked). Values: empty, blank-, quote-, backslash-, "="- and '
        '"-"-containing. non-trivial = at least two options and two tokens / four config bytes; distinct = distinct case tuples')
TRUSTED_BASE = ['V.C14.Model lookup (proved in C14) and its trusted base (std::map modelled)',
                'std::getline, std::isspace (C locale), std::string find/erase modelled',
                'props/C13.py generator-side reference (brute-force resolution of names over the option list, spelling side conditions) as oracle on the implementation',
                'tools/consts/C13.py anchors (flag value, literals "no-", "no", "Positional Option", quote/escape/separator characters, config-file character lists)']
ASSUMPTIONS = ['tokens are NUL-free byte strings; option names as in C14 (bytes 1..126, not starting with "-") and without "="',
               'a token that mixes known flags with an unknown alias character (-fx) and an explicit empty value after "=" for a required-argument option '
               '(--beta= --alpha=3) are outside the supported spellings (probed; correspondence only)',
               'command strings are rendered with bare / single-quoted / double-quoted tokens in which " \' \\ are backslash-escaped (inside a quoted token a quote of the other kind may also stay unescaped); bare tokens are non-empty and free of whitespace',
               'config files: names without "=" and not starting with "#"; values without leading/trailing blanks and without newline; continuation lines non-empty, without "=" and not starting with "#"']
LEVEL_TEXT = ('Machine-checked proof (Coq) about an executable model of the three parsers tied to the code by differential correspondence: every item list written in any '
              'mixture of the supported spellings parses to exactly the intended pairs and remaining tokens; tokenising any rendered command string gives back the tokens; '
              'config-file sections give back their pairs; the error cases raise the documented error class. The correspondence also builds the context with refused '
              'adds in between (for the model a refused option is not an option: its names are ordinary unknown names).')
LEVEL_NOTE = 'Trusted: Coq kernel, extraction+driver (vm_compute cross-check), harness, translator; lookup through the C14 model.'
TECHNIQUE = 'Coq proof about an executable model + differential correspondence with the implementation'
DESIGN_REF = 'DESIGN.md section 5, C13'
READY = True
