"""C08 - heuristic, edge and external directives survive the trip through smodels format.

Cases
  [0, cEdge, cHeuristic, filter, nprobes, probe.., calls..]  a call sequence (props/calls.py encoding) fed through the REAL pipeline
        SmodelsConvert(ext) -> SmodelsOutput(ext, 0) -> text -> readSmodels({claspExt, cEdge, cHeuristic, filter}) -> Recorder;
        probes = atoms whose image SmodelsConvert::get reports after the run
  [1, len, bytes..]   matchDomHeuPred on that string        [2, len, bytes..]   matchEdgePred on that string
  [3, cEdge, cHeuristic, filter, calls..]  the calls are made DIRECTLY on SmodelsOutput(ext, 0) (no converter) and the text is read back with the
        options: symbol tables that use one name for several atoms and list the same (atom, name) line again, in the same table or in the table
        of a later step of an incremental program - shapes SmodelsConvert never writes but the format allows.  Every written symbol must come back
        as written (apart from converted + filtered helper predicates); a `_heuristic(n,..)` symbol is delivered on an atom that carries the name n
Observation: harness/h_c08.cpp.

The oracle never looks at the Coq model.  For the pipeline it compares the INPUT program with what the reader DELIVERED:
heuristics of occurring atoms come back exactly once (target = image of the atom or an atom carrying the same name, same
modifier / bias / priority, condition equivalent: the image of the single condition atom or an auxiliary atom whose one
delivered rule has the mapped condition as body), others are dropped; edges up to ONE injective renaming of node numbers over
the whole run (searched); externals of undefined atoms keep their value; shown symbols unchanged apart from helper names; with
filter no converted helper name is shown, without it every helper symbol is shown.  For the string cases a python reference
parser (regular expressions + a bracket/quote scanner) says whether the predicate is well-formed and what it denotes."""
import random, re
from props import calls as K
from props import reuse as RU

PID = 'C08'
HARNESS = 'h_c08'
HARNESS_EXTRA = ('rec.h', 'reuse.h')
MODEL_MODULE = 'V.C08.Direct'     # coq/C08/Direct.v: the case decoder (kinds 0-2 of V.C08.Model + kind 3 = calls made directly on the writer)
INT_MAX = 2 ** 31 - 1
INT_MIN = -2 ** 31
THEORY = (13, 14, 15, 16, 17, 18)
MODS = [b'level', b'sign', b'factor', b'init', b'true', b'false']
HELPER = (b'_heuristic(', b'_edge(', b'_acyc_')
GENERATED = HELPER + (b'_atom(',)

RULE = ('cases = (reader options cEdge/cHeuristic/filter, a well-formed call sequence init/(begin, directives, end){1..3}) through the real '
        'converter+writer+reader, or one string handed to matchDomHeuPred / matchEdgePred; directives: choice/normal/weight rules, minimize, '
        'outputs (names with parentheses, quotes, escaped quotes, commas inside quotes; a separate stream with names outside good_name or with '
        'helper prefixes), externals of all four values before/after a defining rule, heuristics of all six modifiers with bias in '
        '{0,+-1,7,+-(2^31-1),-2^31}, priority in {0,1,2^31-1} (separate stream: > 2^31-1), conditions empty/single/negative/compound/repeated, '
        'targets named/unnamed/named twice/named in a later step/absent, edges with sparse, repeated, negative and extreme node numbers, '
        'unsupported directives for the error side; a fixed sweep "trip-long-names" / "trip-long-names-edges": for EVERY target name length in '
        '60..70, 240..300, 500..560 and 1000 (plain, quoted, nested, tuple names; quoted names with commas / parentheses / escaped quotes) one '
        'program without and one with edge directives: the named atom gets 1..3 heuristics (all modifiers, extreme bias / priority), optionally a '
        'second short or long name, heuristic before the name, name in step 1 and heuristic in step 2 - the text `_heuristic(name,mod,bias,prio)` '
        'crosses the 63/64-byte inline buffer and the 2^8 / 2*2^8 length boundaries of the StringBuilder the converter formats it with; the same '
        'lengths as direct matcher strings; strings: well-formed predicates, 3-argument form, near misses (arity, modifier, parentheses, '
        'overflowed numbers, blanks / plus signs in numbers), _acyc_ forms, random one-byte mutations; every other program (hash of the case) is read '
        'back by a SmodelsInput OBJECT that before read or REFUSED one of 13 primer texts (harness/reuse.h: accepted plain / incremental; refused inside '
        'the rules, inside the symbol table, after the complete symbol table, inside the compute statement, in the trailer, in a second step, as extra '
        'input) whose symbol tables bind the generator\'s names and _atom(k) to OTHER atoms and contain _edge / _acyc_ / _heuristic predicates; '
        'a stream "direct-repeated-names" (case kind 3): the calls are made on SmodelsOutput ITSELF, no converter in front - symbol tables over a few names and atoms, '
        'so that one name is used for several atoms and the same (atom, name) line is listed again in the same table and in the table of a later step of an '
        'incremental program (shapes SmodelsConvert never writes), with `_heuristic(name,..)` / `_edge(..)` symbols among them, read back with convertHeuristic with and '
        'without filter (and the other option settings): every written symbol must come back as written apart from converted + filtered helper predicates, and a '
        'heuristic lands on an atom that carries the target name; '
        'non-trivial = at least one heuristic / '
        'edge / external was delivered or expected, an expected error was observed, or a string case was judged by the reference parser; '
        'distinct = distinct case tuples')
TRUSTED_BASE = ['props/C08.py oracle: comparison of input and delivered directives, python reference parser of the two predicates',
                'StringBuilder::appendFormat modelled as ideal sprintf (C02), std::strtol and sscanf("%*d", "%n") modelled per the C standard (validated by the string-level correspondence)',
                'the text between writer and reader is not modelled here (C05/C07): the model passes the calls accepted by the writer to the reader model',
                'std::unordered_map<std::string,..>::insert keeps the first entry (SymTab, NodeTab)']
ASSUMPTIONS = ['names (after the converter cut them at a NUL) contain no LF / CR byte (one line of the smodels symbol table)',
               'fewer than 2^28 smodels atoms (C02), literals != INT_MIN, enum arguments within their enum',
               'target names of heuristics are good names (what matchAtomArg re-reads whole) and user names do not start with _heuristic( / _edge( / _acyc_ : hypotheses of c08_heuristic / c08_filter, domain of the oracle',
               'heuristic priorities <= 2^31-1 (property text); larger ones are written with %u and refused by the reader (model and implementation agree, oracle does not judge them)',
               'multi-step programs are incremental (smodels format has no steps otherwise)']


# ------------------------------------------------------------------------------------------------
# coding
# ------------------------------------------------------------------------------------------------
def encode_trip(cE, cH, flt, probes, calls):
    return [0, int(cE), int(cH), int(flt), len(probes)] + list(probes) + K.enc_all(calls)


def encode_direct(cE, cH, flt, calls):
    return [3, int(cE), int(cH), int(flt)] + K.enc_all(calls)


def decode(case):
    if not case:
        return ('bad',)
    if case[0] == 3 and len(case) >= 4:
        calls, rest = K.dec_all(list(case[4:]))
        return ('direct', bool(case[1]), bool(case[2]), bool(case[3]), calls)
    if case[0] == 0 and len(case) >= 5:
        n = max(case[4], 0)
        probes = list(case[5:5 + n])
        calls, rest = K.dec_all(list(case[5 + n:]))
        return ('trip', bool(case[1]), bool(case[2]), bool(case[3]), probes, calls)
    if case[0] in (1, 2) and len(case) >= 2:
        n = max(case[1], 0)
        b = bytes(x & 255 for x in case[2:2 + n])
        b = b.split(b'\0')[0]
        return ('heu' if case[0] == 1 else 'edge', b)
    return ('bad',)


def parse_trip_obs(obs):
    """-> (delivered calls, reader error class or None, front error class or None, {probe: image}) or None if malformed"""
    obs = list(obs)
    if len(obs) == 2 and obs[0] == 21:
        return [], None, obs[1], {}
    calls, rest = K.dec_all(obs)
    rerr = None
    if len(rest) >= 2 and rest[0] == 21:
        rerr = rest[1]
        rest = rest[2:]
    pm = {}
    while rest:
        if len(rest) >= 3 and rest[0] == 30:
            pm[rest[1]] = rest[2]
            rest = rest[3:]
        else:
            return None
    return calls, rerr, None, pm


# ------------------------------------------------------------------------------------------------
# python reference for the predicate texts
# ------------------------------------------------------------------------------------------------
def arg_end(s, i):
    """end index of the argument starting at s[i] (bracket depth, quoted strings with backslash escapes); None = unclosed quote"""
    depth = 0
    n = len(s)
    while i < n:
        ch = s[i:i + 1]
        if ch == b'(':
            depth += 1
        elif ch == b')':
            depth -= 1
            if depth < 0:
                return i
        elif ch == b',' and depth == 0:
            return i
        elif ch == b'"':
            j = i + 1
            esc = False
            while j < n and (s[j:j + 1] != b'"' or esc):
                esc = (not esc) and s[j:j + 1] == b'\\'
                j += 1
            if j >= n:
                return None
            i = j
        i += 1
    return i


def good_name(nm):
    if not nm or b'\0' in nm:
        return False
    e = arg_end(nm + b',', 0)
    return e == len(nm)


INT_RE = re.compile(rb'[ \t\n\v\f\r]*([+-]?[0-9]+)')


def ref_int(s, i):
    m = INT_RE.match(s, i)
    if not m:
        return None
    v = int(m.group(1))
    if v < INT_MIN or v > INT_MAX:
        return None
    return v, m.end()


def ref_heu(s):
    """reference reading of `_heuristic(name,modifier,bias[,prio])`: (name, type, bias, prio, consumed) or None"""
    if not s.startswith(b'_heuristic('):
        return None
    i = 11
    e = arg_end(s, i)
    if e is None or e == i or s[e:e + 1] != b',':
        return None
    name = s[i:e]
    i = e + 1
    t = None
    for k, w in enumerate(MODS):
        if s.startswith(w, i):
            t = k
            i += len(w)
            break
    if t is None or s[i:i + 1] != b',':
        return None
    r = ref_int(s, i + 1)
    if r is None:
        return None
    bias, i = r
    if s[i:i + 1] == b')':
        return name, t, bias, abs(bias), i + 1
    if s[i:i + 1] != b',':
        return None
    r = ref_int(s, i + 1)
    if r is None or r[0] < 0:
        return None
    prio, i = r
    if s[i:i + 1] != b')':
        return None
    return name, t, bias, prio, i + 1


ACYC_RE = re.compile(rb'_acyc_[ \t\n\v\f\r]*[+-]?[0-9]+_([ \t\n\v\f\r]*[+-]?[0-9]+)_([ \t\n\v\f\r]*[+-]?[0-9]+)')


def ref_edge(s):
    m = ACYC_RE.match(s)
    if m:
        return m.group(1), m.group(2), m.end()
    if not s.startswith(b'_edge('):
        return None
    i = 6
    e = arg_end(s, i)
    if e is None or e == i or s[e:e + 1] != b',':
        return None
    a = s[i:e]
    i = e + 1
    e = arg_end(s, i)
    if e is None or e == i or s[e:e + 1] != b')':
        return None
    return a, s[i:e], e + 1


def judge_string(kind, s, obs):
    sig = []
    if len(obs) < 2:
        return ['harness:malformed-observation']
    code, used = obs[0], obs[1]
    if kind == 'heu':
        ref = ref_heu(s)
        if ref is None:
            if code > 0:
                sig.append('string:malformed-heuristic-predicate-accepted')
        elif code <= 0:
            sig.append('string:well-formed-heuristic-predicate-refused')
        else:
            n = obs[2]
            got = (bytes(x & 255 for x in obs[3:3 + n]),) + tuple(obs[3 + n:6 + n]) + (used,)
            if got != ref:
                sig.append('string:heuristic-predicate-read-differently')
    else:
        ref = ref_edge(s)
        if ref is None:
            if code > 0:
                sig.append('string:malformed-edge-predicate-accepted')
        elif code <= 0:
            sig.append('string:well-formed-edge-predicate-refused')
        else:
            n = obs[2]
            a = bytes(x & 255 for x in obs[3:3 + n])
            m = obs[3 + n]
            b = bytes(x & 255 for x in obs[4 + n:4 + n + m])
            if (a, b, used) != ref:
                sig.append('string:edge-predicate-read-differently')
    return sig


# ------------------------------------------------------------------------------------------------
# the pipeline oracle
# ------------------------------------------------------------------------------------------------
def unsupported(c):
    t = c[0]
    if t in (7, 10) or t in THEORY:
        return True
    if t == 6 and any(w == INT_MIN for _, w in c[2]):
        return True
    if t == 5 and c[3] < 0 and (c[2] or c[1] == 0):
        return True
    return False


def split_steps(calls):
    """[(init flag)], [[directives of step 1], ...]  or None if not init (begin .. end)+"""
    if not calls or calls[0][0] != 1:
        return None
    steps, cur = [], None
    for c in calls[1:]:
        if c[0] == 2:
            if cur is not None:
                return None
            cur = []
        elif c[0] == 3:
            if cur is None:
                return None
            steps.append(cur)
            cur = None
        elif c[0] == 1 or cur is None:
            return None
        else:
            cur.append(c)
    if cur is not None or not steps:
        return None
    return calls[0][1], steps


def atoms_of_call(c):
    t = c[0]
    if t == 4:
        return set(c[2]) | set(abs(l) for l in c[3])
    if t == 5:
        return set(c[2]) | set(abs(l) for l, _ in c[4])
    if t == 6:
        return set(abs(l) for l, _ in c[2])
    if t == 8:
        return set(abs(l) for l in c[2])
    if t == 9:
        return {c[1]}
    if t == 11:
        return set(abs(l) for l in c[5])      # the target alone does not make the atom occur
    if t == 12:
        return set(abs(l) for l in c[3])
    return set()


def all_atoms(calls):
    s = set()
    for c in calls:
        s |= atoms_of_call(c)
        if c[0] == 11:
            s.add(c[1])
    return s


_CACHE = {}


def judge(case, obs):
    key = (tuple(case), tuple(obs))
    if key not in _CACHE:
        if len(_CACHE) > 100000:
            _CACHE.clear()
        _CACHE[key] = _judge(case, obs)
    return _CACHE[key]


def _judge(case, obs):
    info = {'nontrivial': False}
    d = decode(case)
    if d[0] == 'bad':
        return [], info
    if d[0] in ('heu', 'edge'):
        info['nontrivial'] = True
        return judge_string(d[0], d[1], list(obs)), info
    if d[0] == 'direct':
        return judge_direct(d, obs, info), info
    _, cE, cH, flt, probes, calls = d
    po = parse_trip_obs(obs)
    if po is None:
        return ['harness:malformed-observation'], info
    deliv, rerr, ferr, M = po
    sig = []
    st = split_steps(calls)
    if st is None:
        return sig, info                      # not a protocol-conforming sequence: nothing to judge
    inc, steps = st
    bad = [c for c in calls if unsupported(c)]
    if bad:
        if ferr is None:
            sig.append('error:unsupported-input-converted-silently:' + K.NAMES.get(bad[0][0], '?'))
        elif ferr != 1:
            sig.append('error:unexpected-exception-class-%d' % ferr)
        else:
            info['nontrivial'] = True
        return sig, info
    if ferr is not None:
        return ['error:supported-input-rejected-by-converter-or-writer'], info
    if len(steps) > 1 and not inc:
        return sig, info                      # smodels format without steps: outside the property
    if rerr is not None:
        return ['error:reader-rejects-what-the-writer-wrote'], info
    ds = split_steps(deliv)
    if ds is None or len(ds[1]) != len(steps):
        return ['trip:step-structure-changed'], info
    dsteps = ds[1]
    if any(a not in M for a in all_atoms(calls)):
        return sig, info                      # no complete probe of the atom map
    inv = {}
    for a, x in M.items():
        if x in inv and inv[x] != a:
            sig.append('map:two-atoms-share-an-image')
        inv[x] = a

    def mlit(l):
        return M[abs(l)] if l > 0 else -M[abs(l)]
    auxdef = {}
    for stp in dsteps:
        for c in stp:
            if c[0] == 4 and c[1] == 0 and len(c[2]) == 1 and c[2][0] not in inv:
                auxdef.setdefault(c[2][0], []).append(sorted(c[3]))

    def cond_ok(x, cond):
        if x in inv:
            return list(cond) == [inv[x]]
        b = auxdef.get(x, [])
        return len(b) == 1 and b[0] == sorted(mlit(l) for l in cond)
    user_names = [c[1] for stp in steps for c in stp if c[0] == 8]
    in_domain = all(good_name(n) and not n.startswith(HELPER) for n in user_names)
    prio_ok = all(c[4] <= INT_MAX for stp in steps for c in stp if c[0] == 11)
    occurs, heads = set(), set()
    names_of = {}                              # delivered atom -> names shown so far
    edge_pairs = []                            # (step, input edge, [candidate delivered edges])
    for k, (stp, dstp) in enumerate(zip(steps, dsteps)):
        ext_last, ext_free = {}, set()
        for c in stp:
            if c[0] == 9:
                ext_last[c[1]] = c[2]
            occurs |= atoms_of_call(c)
        for c in stp:
            if c[0] in (4, 5):
                heads |= set(c[2])
        d_out = [c for c in dstp if c[0] == 8]
        d_ext = [c for c in dstp if c[0] == 9]
        d_heu = [c for c in dstp if c[0] == 11]
        d_edge = [c for c in dstp if c[0] == 12]
        for c in d_out:
            if len(c[2]) != 1:
                sig.append('output:delivered-with-a-compound-condition')
            else:
                names_of.setdefault(c[2][0], set()).add(c[1])
        # ---- externals --------------------------------------------------------------------------
        dext = {}
        for c in d_ext:
            dext[c[1]] = c[2]
            if inv.get(c[1]) not in ext_last:
                sig.append('external:unknown-external-delivered')
        for a, v in ext_last.items():
            if a in heads:
                continue
            info['nontrivial'] = True
            if M[a] not in dext:
                sig.append('external:lost')
            elif dext[M[a]] != v:
                sig.append('external:value-differs')
        # ---- heuristics -----------------------------------------------------------------------------
        exp_heu = [c for c in stp if c[0] == 11 and c[1] in occurs]
        if not cH:
            if d_heu:
                sig.append('heuristic:delivered-although-conversion-is-off')
        elif in_domain and prio_ok:
            free = list(d_heu)
            for h in exp_heu:
                info['nontrivial'] = True
                hit = None
                for dh in free:
                    if (dh[2], dh[3], dh[4]) != (h[2], h[3], h[4]) or len(dh[5]) != 1:
                        continue
                    x = dh[1]
                    if not (x == M[h[1]] or (names_of.get(x, set()) & names_of.get(M[h[1]], set()))):
                        continue
                    if not cond_ok(dh[5][0], h[5]):
                        continue
                    hit = dh
                    break
                if hit is None:
                    sig.append('heuristic:lost-or-changed')
                    # the more specific shape: the directive did come back (same modifier / bias / priority / condition) but on an atom that
                    # is neither the image of its atom nor shows its name (e.g. a name binding that is not of this program)
                    if any((dh[2], dh[3], dh[4]) == (h[2], h[3], h[4]) and len(dh[5]) == 1 and cond_ok(dh[5][0], h[5]) for dh in free):
                        sig.append('heuristic:bound-to-an-atom-that-does-not-carry-the-target-name')
                else:
                    free.remove(hit)
            if free:
                sig.append('heuristic:unexpected-directive-delivered')
        # ---- edges ---------------------------------------------------------------------------------
        exp_edge = [c for c in stp if c[0] == 12]
        if not cE:
            if d_edge:
                sig.append('edge:delivered-although-conversion-is-off')
        elif in_domain:
            if len(exp_edge) != len(d_edge):
                sig.append('edge:number-of-edges-differs')
            else:
                for e in exp_edge:
                    info['nontrivial'] = True
                    cands = [de for de in d_edge if len(de[3]) == 1 and cond_ok(de[3][0], e[3])]
                    if not cands:
                        sig.append('edge:lost-or-condition-changed')
                    edge_pairs.append((k, e, cands))
        # ---- shown symbols ----------------------------------------------------------------------------
        if in_domain:
            exp_out = [c for c in stp if c[0] == 8 and not c[1].startswith(GENERATED)]
            free = [c for c in d_out if not c[1].startswith(GENERATED) and len(c[2]) == 1]
            for o in exp_out:
                hit = None
                for do in free:
                    if do[1] == o[1] and cond_ok(do[2][0], o[2]):
                        hit = do
                        break
                if hit is None:
                    sig.append('output:shown-symbol-lost-or-changed')
                else:
                    free.remove(hit)
            if free:
                sig.append('output:unexpected-symbol-shown')
            nh = [c[1] for c in d_out if c[1].startswith(b'_heuristic(')]
            ne = [c[1] for c in d_out if c[1].startswith(b'_edge(')]
            if flt and cH and prio_ok and nh:
                sig.append('filter:heuristic-predicate-shown-although-filtered')
            if flt and cE and (ne or any(c[1].startswith(b'_acyc_') for c in d_out)):
                sig.append('filter:edge-predicate-shown-although-filtered')
            if not (flt and cH) and prio_ok:
                want = sorted(b',%s,%d,%d)' % (MODS[h[2]], h[3], h[4]) for h in exp_heu)
                got = []
                for n in nh:
                    m = re.search(rb',(level|sign|factor|init|true|false),-?[0-9]+,[0-9]+\)$', n)
                    got.append(m.group(0) if m else n)
                if sorted(got) != want:
                    sig.append('filter:helper-symbols-lost-although-not-filtered')
            if not (flt and cE):
                if sorted(ne) != sorted(b'_edge(%d,%d)' % (e[1], e[2]) for e in exp_edge):
                    sig.append('filter:helper-symbols-lost-although-not-filtered')
    # one injective renaming of the node numbers over the whole run
    if edge_pairs and not [s for s in sig if s.startswith('edge:')]:
        if not search_renaming(edge_pairs):
            sig.append('edge:no-injective-renaming-of-nodes-explains-the-delivered-edges')
    out = []
    for s in sig:
        if s not in out:
            out.append(s)
    return out, info


def judge_direct(d, obs, info):
    """calls made directly on the writer (generated: init, (begin, rules / externals, symbols, end)+, every symbol on ONE positive atom).
    Property: "apart from generated helper names the shown symbols are unchanged" / without filter every symbol is shown; heuristics come
    back on an atom identified by the target NAME."""
    _, cE, cH, flt, calls = d
    po = parse_trip_obs(obs)
    if po is None:
        return ['harness:malformed-observation']
    deliv, rerr, ferr, _ = po
    st = split_steps(calls)
    if st is None or any(c[0] not in (4, 8, 9) or (c[0] == 8 and (len(c[2]) != 1 or c[2][0] <= 0)) for stp in st[1] for c in stp):
        return []                                 # not the generated shape: nothing to judge
    inc, steps = st
    if len(steps) > 1 and not inc:
        return []
    if any((c[0] == 4 and (not c[2] or c[1] not in (0, 1))) or (c[0] == 9 and not 0 <= c[2] <= 3) for stp in steps for c in stp):
        return []
    for stp in steps:                             # the writer's order: symbols behind rules and externals
        seen = False
        for c in stp:
            if c[0] == 8:
                seen = True
            elif c[0] == 4 and seen:
                return []
    if ferr is not None:
        return ['error:supported-input-rejected-by-converter-or-writer']
    if rerr is not None:
        return ['error:reader-rejects-what-the-writer-wrote']
    ds = split_steps(deliv)
    if ds is None or len(ds[1]) != len(steps):
        return ['trip:step-structure-changed']
    sig = []
    names_of = {}
    for stp, dstp in zip(steps, ds[1]):
        w_out = [(c[1], list(c[2])) for c in stp if c[0] == 8]
        d_out = [(c[1], list(c[2])) for c in dstp if c[0] == 8]
        for n, cond in w_out:
            names_of.setdefault(n, set()).add(cond[0])
        info['nontrivial'] = True
        plain_w = [x for x in w_out if not x[0].startswith(HELPER)]
        plain_d = [x for x in d_out if not x[0].startswith(HELPER)]
        if plain_w != plain_d:
            sig.append('output:symbol-table-not-delivered-as-written')
        hidden_h = flt and cH
        hidden_e = flt and cE
        for pref, hidden in ((b'_heuristic(', hidden_h), (b'_edge(', hidden_e), (b'_acyc_', hidden_e)):
            if not hidden and [x for x in w_out if x[0].startswith(pref)] != [x for x in d_out if x[0].startswith(pref)]:
                sig.append('filter:helper-symbols-lost-although-not-filtered')
        d_heu = [c for c in dstp if c[0] == 11]
        if not cH and d_heu:
            sig.append('heuristic:delivered-although-conversion-is-off')
        if cH:
            exp = []
            for n, cond in w_out:
                h = ref_heu(n)
                if h is not None and h[4] == len(n) and h[3] <= INT_MAX and h[0] in names_of:
                    exp.append((h[0], h[1], h[2], h[3], cond))
            got = [(c[2], c[3], c[4], list(c[5])) for c in d_heu]
            if [(e[1], e[2], e[3], e[4]) for e in exp] != got:
                sig.append('heuristic:lost-or-changed')
            elif any(dh[1] not in names_of[e[0]] for e, dh in zip(exp, d_heu)):
                sig.append('heuristic:bound-to-an-atom-that-does-not-carry-the-target-name')
    out = []
    for x in sig:
        if x not in out:
            out.append(x)
    return out


def search_renaming(pairs):
    """pairs: [(step, input edge (12,s,t,cond), [candidate delivered edges])]; is there an assignment of distinct delivered edges
    (per step) and one injective node map rho with delivered = (rho s, rho t)?"""
    budget = [20000]

    def go(i, rho, img, used):
        if i == len(pairs):
            return True
        budget[0] -= 1
        if budget[0] < 0:
            return True                       # give up quietly (never seen with generated sizes)
        k, e, cands = pairs[i]
        for de in cands:
            key = (k, id(de))
            if key in used:
                continue
            r2, i2 = dict(rho), dict(img)
            ok = True
            for a, b in ((e[1], de[1]), (e[2], de[2])):
                if r2.get(a, b) != b or i2.get(b, a) != a:
                    ok = False
                    break
                r2[a] = b
                i2[b] = a
            if ok and go(i + 1, r2, i2, used | {key}):
                return True
        return False
    return go(0, {}, {}, frozenset())


def oracle(case, obs):
    return judge(case, obs)[0]


def nontrivial(case, obs):
    return bool(judge(case, obs)[1].get('nontrivial'))


def describe(case):
    d = decode(case)
    if d[0] == 'trip':
        # harness/reuse.h: every other case is read back by a SmodelsInput OBJECT that read / refused a primer text before
        return 'trip cEdge=%d cHeuristic=%d filter=%d reader=%s: %s' % (d[1], d[2], d[3], RU.reader(case, 'smodels', True), K.pretty(d[5]))
    if d[0] == 'direct':
        return 'direct (calls on SmodelsOutput itself, no converter) cEdge=%d cHeuristic=%d filter=%d reader=%s: %s' % (
            d[1], d[2], d[3], RU.reader(case, 'smodels', True), K.pretty(d[4]))
    if d[0] in ('heu', 'edge'):
        return '%s(%r)' % ('matchDomHeuPred' if d[0] == 'heu' else 'matchEdgePred', d[1])
    return 'undecodable case'


# ------------------------------------------------------------------------------------------------
# generators
# ------------------------------------------------------------------------------------------------
GOOD_NAMES = [b'a', b'b', b'c', b'p(1)', b'p("a,b",f(1,2))', b'q("x\\"y")', b'"str"', b'f(a,g(b))', b'x y', b'_atom(2)', b'-1',
              b'p(")")', b'p("(")', b'q("\\\\")', b'n(-3,"")', b'_x', b'A(b)']
BAD_NAMES = [b'', b'a,b', b'f(', b'a)', b'"abc', b'p(a))', b'_heuristic(a,sign,1,0)', b'_edge(1,2)', b'_acyc_1_2_3', b'_edge(x',
             b'_heuristic(x', b'_edge(_heuristic(a,sign,1,0)"', b'_acyc_1_2_', b'q("x\\")', b'_heuristic(a,level,5)', b',', b')']
BIASES = [0, 1, -1, 7, INT_MAX, -INT_MAX, INT_MIN]
PRIOS = [0, 1, INT_MAX]
NODES = [0, 1, 2, 7, 1000000, INT_MAX, -1, INT_MIN, 3]


def g_cond(rnd, na):
    k = rnd.choice(['single', 'single', 'single', 'neg', 'empty', 'compound', 'repeat'])
    a = lambda: rnd.randint(1, na)
    if k == 'single':
        return [a()]
    if k == 'neg':
        return [-a()]
    if k == 'empty':
        return []
    if k == 'compound':
        return [a() if rnd.random() < 0.6 else -a() for _ in range(rnd.choice([2, 2, 3]))]
    x = a() if rnd.random() < 0.6 else -a()
    return [x, x] if rnd.random() < 0.6 else [x, -x]


def g_rule(rnd, na):
    ht = rnd.choice([0, 0, 1, 1])
    head = [rnd.randint(1, na) for _ in range(rnd.choice([1, 1, 1, 2, 3]))]
    if ht == 0 and rnd.random() < 0.15:
        head = []
    lit = lambda: rnd.randint(1, na) * rnd.choice([1, 1, -1])
    if rnd.random() < 0.8:
        return (4, ht, head, [lit() for _ in range(rnd.choice([0, 0, 1, 2, 3]))])
    body = [(lit(), rnd.choice([1, 1, 2, 3])) for _ in range(rnd.choice([1, 2, 3]))]
    return (5, ht, head, rnd.choice([0, 1, 2, 3]), body)


def g_trip(rnd, tier, kind):
    na = rnd.choice([2, 3, 3, 4, 5])
    nsteps = rnd.choice([1, 1, 1, 2, 2, 3])
    inc = nsteps > 1 or rnd.random() < 0.15
    if kind == 'noninc-multistep':
        nsteps, inc = 2, False
    names = list(GOOD_NAMES)
    if kind == 'names-outside-domain':
        names = BAD_NAMES + GOOD_NAMES[:4]
    pool = [rnd.choice(names) for _ in range(rnd.choice([2, 3, 4]))]
    calls = [(1, inc)]
    absent = [na + 2, na + 5, 60]
    for s in range(nsteps):
        calls.append((2,))
        nd = rnd.choice([2, 3, 4, 5, 6, 8])
        for _ in range(nd):
            r = rnd.random()
            if r < 0.22:
                c = g_rule(rnd, na)
            elif r < 0.27:
                c = (6, rnd.choice([0, 1, -1]), [(rnd.randint(1, na + 1) * rnd.choice([1, -1]), rnd.choice([1, 2, -1, 0])) for _ in range(rnd.choice([1, 2]))])
            elif r < 0.45:
                nm = rnd.choice(pool) if rnd.random() < 0.7 else rnd.choice(names)
                cond = [rnd.randint(1, na)] if rnd.random() < 0.6 else g_cond(rnd, na)
                c = (8, nm, cond)
            elif r < 0.58:
                c = (9, rnd.randint(1, na + 1), rnd.randint(0, 3))
            elif r < 0.82:
                tgt = rnd.randint(1, na) if rnd.random() < 0.85 else rnd.choice(absent)
                pr = rnd.choice(PRIOS)
                if kind == 'prio-out-of-range' and rnd.random() < 0.5:
                    pr = rnd.choice([2 ** 31, 2 ** 32 - 1, 2 ** 31 + 5])
                c = (11, tgt, rnd.randint(0, 5), rnd.choice(BIASES), pr, g_cond(rnd, na))
            else:
                c = (12, rnd.choice(NODES), rnd.choice(NODES), g_cond(rnd, na))
            if kind == 'errors' and rnd.random() < 0.12:
                c = rnd.choice([(7, [1]), (10, [1, -2]), (6, 0, [(1, INT_MIN)]), (5, 0, [1], -1, [(2, 1)]), (13, 0, 5), (14, 1, b'x'),
                                (17, 0, 1, [])])
            calls.append(c)
        calls.append((3,))
    return calls


def trip_case(rnd, calls, opts=None):
    if opts is None:
        if rnd.random() < 0.45:
            opts = (1, 1, rnd.randint(0, 1))
        else:
            opts = (rnd.randint(0, 1), rnd.randint(0, 1), rnd.randint(0, 1))
    return encode_trip(opts[0], opts[1], opts[2], sorted(all_atoms(calls)), calls)


def fixed_cases():
    out = []
    I, B, E = (1, False), (2,), (3,)

    def add(kind, body, inc=False, opts_list=((1, 1, 1), (1, 1, 0), (0, 0, 0), (1, 0, 1), (0, 1, 1))):
        calls = [(1, inc)] + body
        for o in opts_list:
            out.append((encode_trip(o[0], o[1], o[2], sorted(all_atoms(calls)), calls), {'kind': kind}))
    add('fixed-named-unnamed-absent', [B, (4, 1, [1, 2, 3], []), (8, b'a', [1]), (11, 1, 1, -1, 2, [2]), (11, 2, 0, INT_MIN, 0, []),
                                       (11, 3, 5, INT_MAX, INT_MAX, [1, -2]), (11, 9, 2, 1, 1, [1]), E])
    add('fixed-named-twice', [B, (4, 1, [1, 2], []), (8, b'a', [1]), (8, b'b', [1]), (8, b'a', [2]), (11, 1, 3, 1, 0, [2]), (11, 2, 4, -1, 1, [-1]), E])
    add('fixed-tricky-names', [B, (4, 1, [1, 2, 3], []), (8, b'p("a,b",f(1,2))', [1]), (8, b'q("x\\"y")', [2]), (8, b'p(")")', [3]),
                               (11, 1, 0, 1, 1, []), (11, 2, 1, -1, 0, [1]), (11, 3, 2, 7, 1, [-2]), E], opts_list=((1, 1, 1), (1, 1, 0)))
    add('fixed-edges', [B, (4, 1, [1, 2], []), (12, 0, 1, [1]), (12, 1, 0, [1]), (12, 7, 7, []), (12, -1, INT_MIN, [1, -2]), (12, INT_MAX, 0, [-1]), E])
    add('fixed-externals', [B, (9, 1, 0), (9, 2, 1), (9, 3, 2), (9, 4, 3), (4, 0, [5], [1, -2]), (9, 5, 1), (9, 1, 2), E])
    add('fixed-external-first-not-incremental', [B, (9, 1, 1), (11, 1, 0, 1, 1, [1]), E, B, (12, 1, 2, [1]), (8, b'a', [1]), E],
        opts_list=((1, 1, 1), (1, 1, 0)))
    add('fixed-later-step', [B, (4, 1, [1, 2], []), (11, 1, 0, 1, 1, [2]), (12, 5, 6, [1]), E, B, (8, b'a', [1]), (11, 1, 1, 2, 0, []), (12, 6, 9, [2]), E,
                             B, (11, 1, 2, 3, 1, [1]), (11, 2, 2, 3, 1, [1]), E], inc=True, opts_list=((1, 1, 1), (1, 1, 0), (0, 1, 0)))
    add('fixed-user-helper-names', [B, (4, 1, [1, 2], []), (8, b'_edge(_heuristic(a,sign,1,0)"', [1]), (8, b'_acyc_1_2_3', [2]), (8, b'a', [1]),
                                    (8, b'_heuristic(a,level,5)', [2]), (8, b'_edge(x', [1]), E], opts_list=((1, 1, 1), (1, 1, 0), (0, 1, 1), (1, 0, 1)))
    add('fixed-bad-target-names', [B, (4, 1, [1, 2, 3], []), (8, b'a,b', [1]), (8, b'f(', [2]), (8, b'', [3]), (11, 1, 0, 1, 1, []),
                                   (11, 2, 0, 1, 1, []), (11, 3, 0, 1, 1, []), E], opts_list=((1, 1, 1), (1, 1, 0)))
    add('fixed-prio-out-of-range', [B, (4, 1, [1], []), (8, b'a', [1]), (11, 1, 0, 1, 2 ** 31, []), (11, 1, 1, 1, 2 ** 32 - 1, []), E],
        opts_list=((1, 1, 1), (1, 1, 0)))
    add('fixed-errors', [B, (4, 1, [1], []), (11, 1, 0, 1, 1, []), (7, [1]), E], opts_list=((1, 1, 1),))
    add('fixed-errors', [B, (6, 0, [(1, INT_MIN)]), E], opts_list=((1, 1, 1),))
    return out


# ---- long target names ------------------------------------------------------------------------------
# SmodelsConvert::flushHeuristic formats `_heuristic(name,mod,bias,prio)` through a StringBuilder (63-byte inline buffer,
# then std::string); `_edge(s,t)` and `_atom(k)` go through the same class but never exceed 30 bytes.  Only the NAME can
# carry the text over the representation boundaries of the builder (63/64 inline, lengths >= 2^8 in its uint8 tag
# arithmetic, 512 = 2 * 2^8, ...), so the target names are swept over those lengths.  (The text behind `_heuristic(` is
# name + 9..31 bytes, room behind the 11-byte literal prefix is 52: every name length 225..297 has a modifier / bias /
# priority combination with (n mod 256) <= 52.)
LONG_LENS = list(range(60, 71)) + list(range(240, 301)) + list(range(500, 561)) + [1000]
_FILL = b'abcdefghijklmnopqrstuvwxyz0123456789_'


def _fill(n, k):
    if n <= 0:
        return b''
    st = (k * 7) % len(_FILL)
    return (_FILL * ((st + n) // len(_FILL) + 1))[st:st + n]


def long_name(rnd, L, k=0):
    """a good name (re-read whole by matchAtomArg) of exactly L >= 8 bytes; k makes names of one program distinct"""
    shape = rnd.choice(['plain', 'quoted', 'quoted', 'nested', 'tricky', 'tuple'])
    tag = b'%d' % (k % 10)
    if shape == 'quoted':
        nm = b'p' + tag + b'("' + _fill(L - 6, k) + b'")'
    elif shape == 'nested':
        body = (b'ab,f(c,d),' * (L // 10 + 1))[:L - 4]
        if body.count(b'(') > body.count(b')'):
            body = body[:body.rindex(b'(')] + b'_' * (len(body) - body.rindex(b'('))
        body = body.replace(b'f_', b'__')
        if body.endswith(b','):
            body = body[:-1] + b'z'
        nm = b'g' + tag + b'(' + body + b')'
    elif shape == 'tricky':
        body = (b'a,b)(\\"c \\\\' * (L // 12 + 2))[:L - 6]
        bs = len(body) - len(body.rstrip(b'\\'))
        if bs % 2:                              # an odd run of backslashes would escape the closing quote
            body = body[:-1] + b'_'
        nm = b'q' + tag + b'("' + body + b'")'
    elif shape == 'tuple':
        nm = b'(' + tag + b',' + _fill(L - 4, k) + b')'
    else:
        nm = b'n' + tag + _fill(L - 2, k)
    if len(nm) != L or not good_name(nm) or nm.startswith(HELPER):
        nm = (b'n' + tag + _fill(L, k))[:L]
    return nm


def g_long_trip(rnd, L, edges):
    """heuristics whose target carries a name of length L; `edges`: also edge directives (their `_edge(s,t)` texts share the
    symbol table and the formatting code with the heuristics)"""
    na = 3
    two = rnd.random() < 0.3                          # two steps: named in step 1, heuristic in step 2 (name from symTab_)
    second = rnd.choice(['none', 'short', 'short', 'long'])
    n1 = long_name(rnd, L, 1)
    n2 = {'none': None, 'short': rnd.choice([b'b', b'p(1)', b'q("x\\"y")']),
          'long': long_name(rnd, rnd.choice(LONG_LENS[:-1]), 2)}[second]

    def heu(a):
        return (11, a, rnd.randint(0, 5), rnd.choice(BIASES), rnd.choice(PRIOS), g_cond(rnd, na))
    decl = [(4, 1, [1, 2, 3], []), (8, n1, [1])]
    if n2 is not None:
        decl.append((8, n2, [2]))
    use = [heu(1)]
    for _ in range(rnd.choice([0, 0, 1, 2])):          # the converter reuses ONE builder for all heuristics of a step
        use.append(heu(rnd.choice([1, 2, 2, 3])))
    if rnd.random() < 0.3:
        use.append((9, rnd.randint(1, 4), rnd.randint(0, 3)))
    if edges:
        for _ in range(rnd.choice([1, 2, 3])):
            use.insert(rnd.randint(0, len(use)), (12, rnd.choice(NODES), rnd.choice(NODES), g_cond(rnd, na)))
    if two:
        return [(1, True), (2,)] + decl + [(3,), (2,)] + use + [(3,)]
    body = decl + use
    if rnd.random() < 0.3:                              # heuristic before the name is given
        body = [decl[0]] + use + decl[1:]
    return [(1, rnd.random() < 0.1), (2,)] + body + [(3,)]


def long_name_cases(rnd, tier):
    out = []
    reps = {'quick': 1, 'thorough': 8, 'search': 1}.get(tier, 1)
    for _ in range(reps):
        for L in LONG_LENS:
            for edges in (False, True):
                calls = g_long_trip(rnd, L, edges)
                opts = rnd.choice([(1, 1, 1), (1, 1, 1), (1, 1, 0), (0, 1, 1), (0, 1, 0), (1, 0, 1)])
                out.append((trip_case(rnd, calls, opts), {'kind': 'trip-long-names' + ('-edges' if edges else '')}))
            # the two matchers on texts of that size (no builder involved: the reader side alone)
            nm = long_name(rnd, L, 3)
            s = b'_heuristic(' + nm + b',' + rnd.choice(MODS) + b',%d' % rnd.choice(BIASES)
            s += rnd.choice([b')', b',%d)' % rnd.choice(PRIOS)])
            out.append((str_case('heu', s), {'kind': 'string-heuristic-long'}))
            e = b'_edge(' + long_name(rnd, L, 4) + b',' + rnd.choice([b'1', long_name(rnd, L, 5)]) + b')'
            out.append((str_case('edge', e), {'kind': 'string-edge-long'}))
    return out


def str_case(kind, s):
    return [1 if kind == 'heu' else 2, len(s)] + list(s)


def num_variants(rnd, v):
    r = rnd.random()
    s = b'%d' % v
    if r < 0.6:
        return s
    return rnd.choice([b' ' + s, b'+' + s if v >= 0 else s, b'\t' + s, b'0' + s if v >= 0 else s, s + b' ', b'- ' + s, b'+-1', b'', b'x',
                       b'2147483648', b'-2147483649', b'99999999999999999999', b'-99999999999999999999', b'9223372036854775808', b'\n\r\v\f ' + s, b'0x10', b'1e3'])


def g_heu_string(rnd):
    name = rnd.choice(GOOD_NAMES + GOOD_NAMES + BAD_NAMES)
    mod = rnd.choice(MODS + MODS + [b'Level', b'sig', b'truex', b'', b'levelsign', b'init '])
    b = num_variants(rnd, rnd.choice(BIASES + [5, -12]))
    p = num_variants(rnd, rnd.choice(PRIOS + [2, -1, 2 ** 31, 10]))
    form = rnd.random()
    if form < 0.6:
        s = b'_heuristic(' + name + b',' + mod + b',' + b + b',' + p + b')'
    elif form < 0.75:
        s = b'_heuristic(' + name + b',' + mod + b',' + b + b')'
    elif form < 0.8:
        s = b'_heuristic(' + name + b',' + mod + b',' + b + b',' + p
    elif form < 0.85:
        s = b'_heuristic(' + name + b',' + mod + b',' + b + b',' + p + b',1)'
    elif form < 0.9:
        s = b'_heuristic(' + name + b',' + mod + b')'
    elif form < 0.95:
        s = b'_heuristic(' + name + b',' + mod + b',' + b + b',' + p + b')' + rnd.choice([b'x', b')', b',', b' '])
    else:
        s = rnd.choice([b'_heuristic', b'_heuristic(', b'heuristic(a,sign,1,1)', b'_Heuristic(a,sign,1,1)', b'', b'_heuristic(a', b'_heuristic(a,'])
    if rnd.random() < 0.2 and s:
        i = rnd.randrange(len(s))
        k = rnd.random()
        if k < 0.4:
            s = s[:i] + s[i + 1:]
        elif k < 0.7:
            s = s[:i] + bytes([rnd.choice(b'(),"\\ a1-+_')]) + s[i:]
        else:
            s = s[:i] + bytes([rnd.choice(b'(),"\\ a1-+_\xe9')]) + s[i + 1:]
    return s


def g_edge_string(rnd):
    n = lambda: rnd.choice([b'%d' % rnd.choice(NODES), rnd.choice(GOOD_NAMES), rnd.choice(BAD_NAMES)])
    form = rnd.random()
    if form < 0.4:
        s = b'_edge(' + n() + b',' + n() + b')'
    elif form < 0.5:
        s = b'_edge(' + n() + rnd.choice([b')', b',', b'', b',' + n(), b',' + n() + b',' + n() + b')'])
    elif form < 0.85:
        d = lambda: num_variants(rnd, rnd.choice([0, 1, 2, 12, 345, -4]))
        s = b'_acyc_' + d() + b'_' + d() + b'_' + d() + rnd.choice([b'', b'', b'x', b'_', b'_4', b' '])
    else:
        s = rnd.choice([b'_acyc_', b'_acyc_1', b'_acyc_1_', b'_acyc_1_2', b'_acyc_1_2_', b'_acyc__1_2', b'_acyc_1__2_3', b'_acyc_a_1_2', b'_edge', b'_edge(',
                        b'edge(1,2)', b'', b'_acyc', b'_acyc_1_2_3_4_5', b'_edge(_acyc_1_2_3,4)'])
    if rnd.random() < 0.15 and s:
        i = rnd.randrange(len(s))
        s = s[:i] + (b'' if rnd.random() < 0.5 else bytes([rnd.choice(b'(),"_ 1-+')])) + s[i + (1 if rnd.random() < 0.5 else 0):]
    return s


PREFIX_FAMILIES = [[b'x', b'x1', b'x12', b'x123'], [b'a', b'ab', b'abc'], [b'p', b'p(a)', b'p(a,b)'], [b'_x', b'_x_', b'_x_1']]


def prefix_name_cases(rnd, tier):
    """target names that are proper prefixes of one another, heuristics on them directly after each other in every order (the reader resolves
    the targets of the decoded `_heuristic` symbols by name, one lookup after the other - seeded C08-r11: a one-entry lookup cache that compares
    only a prefix), alone and with unrelated directives in between, heuristic and filter conversion on"""
    import itertools
    out = []
    for fam in PREFIX_FAMILIES:
        n = len(fam)
        for perm in itertools.permutations(range(n)):
            if tier != 'thorough' and n == 4 and rnd.random() < 0.5:
                continue
            calls = [(1, False), (2,)]
            calls.append((4, 1, list(range(1, n + 1)), []))
            for i, nm in enumerate(fam):
                calls.append((8, nm, [i + 1]))
            for j, i in enumerate(perm):
                calls.append((11, i + 1, j % 6, rnd.choice(BIASES), rnd.choice(PRIOS), [rnd.choice([1, -1]) * rnd.randint(1, n)] if rnd.random() < 0.5 else []))
                if rnd.random() < 0.2:
                    calls.append((9, n + 1, 1))
            calls.append((3,))
            out.append((trip_case(rnd, calls, rnd.choice([(1, 1, 1), (0, 1, 1), (0, 1, 0), (1, 1, 0)])), {'kind': 'trip-prefix-names'}))
    return out


# ---- calls made directly on the writer: repeated names / repeated symbol lines ---------------------------
# SmodelsInput keeps a private name table (SymTab, only with convertHeuristic; shared by all steps of an incremental program).  SymTab::add
# keeps the FIRST binding of a name for lookups and forwards EVERY symbol.  The converter never repeats an (atom, name) pair, so these
# tables are written without it.
DIRECT_NAMES = [b'a', b'b', b'p(1)', b'x y', b'_x', b'q("a,b")']


def g_direct(rnd):
    names = rnd.sample(DIRECT_NAMES, rnd.choice([1, 2, 2, 3]))
    atoms = rnd.sample([1, 2, 3, 4, 7], rnd.choice([1, 2, 2, 3]))
    nsteps = rnd.choice([1, 2, 2, 3])
    calls = [(1, nsteps > 1 or rnd.random() < 0.2)]
    for _ in range(nsteps):
        calls.append((2,))
        for _ in range(rnd.choice([0, 1, 1, 2])):
            calls.append((4, rnd.choice([0, 0, 1]), [rnd.randint(1, 7)], [rnd.randint(1, 7) * rnd.choice([1, -1]) for _ in range(rnd.choice([0, 1, 2]))]))
        if rnd.random() < 0.25:
            calls.append((9, rnd.randint(1, 7), rnd.randint(0, 3)))
        syms = [(8, rnd.choice(names), [rnd.choice(atoms)]) for _ in range(rnd.choice([1, 2, 3, 4, 6]))]
        if rnd.random() < 0.35:
            tgt = rnd.choice(names + [b'zz'])
            syms.insert(rnd.randrange(len(syms) + 1), (8, b'_heuristic(%s,%s,%d,%d)' % (tgt, rnd.choice(MODS), rnd.choice([1, -1, 7]), rnd.choice([0, 1, 3])), [rnd.randint(1, 7)]))
        if rnd.random() < 0.15:
            syms.insert(rnd.randrange(len(syms) + 1), (8, b'_edge(%d,%d)' % (rnd.choice([0, 1, 2]), rnd.choice([0, 1, 2])), [rnd.randint(1, 7)]))
        calls += syms
        calls.append((3,))
    return calls


def direct_cases(rnd, tier):
    out = []
    I, B, E = (1, True), (2,), (3,)
    fixed = [('two-atoms-one-name', [(1, False), B, (4, 0, [1], [2]), (8, b'a', [1]), (8, b'a', [2]), E]),
             ('same-line-twice', [(1, False), B, (4, 0, [1], [2]), (8, b'a', [1]), (8, b'b', [2]), (8, b'a', [1]), E]),
             ('later-step', [I, B, (4, 1, [1], []), (8, b'a', [1]), (8, b'b', [2]), E, B, (4, 0, [3], [1]), (8, b'a', [1]), (8, b'c', [3]), (8, b'a', [3]), E]),
             ('later-step-heuristic', [I, B, (8, b'a', [1]), E, B, (8, b'a', [1]), (8, b'a', [2]), (8, b'_heuristic(a,sign,1,0)', [3]), E, B, (8, b'a', [1]), E])]
    for kind, calls in fixed:
        for o in ((0, 1, 0), (0, 1, 1), (1, 1, 1), (1, 1, 0), (0, 0, 0), (1, 0, 1)):
            out.append((encode_direct(o[0], o[1], o[2], calls), {'kind': 'fixed-direct-' + kind}))
    for _ in range({'quick': 400, 'thorough': 8000, 'search': 600}.get(tier, 400)):
        calls = g_direct(rnd)
        o = (rnd.randint(0, 1) if rnd.random() < 0.4 else 0, 1 if rnd.random() < 0.8 else 0, rnd.randint(0, 1))
        out.append((encode_direct(o[0], o[1], o[2], calls), {'kind': 'direct-repeated-names'}))
    return out


def gen(seed, tier):
    rnd = random.Random(seed * 104729 + 8)
    n_trip = {'quick': 1800, 'thorough': 40000, 'search': 3000}.get(tier, 1800)
    n_str = {'quick': 2500, 'thorough': 60000, 'search': 3000}.get(tier, 2500)
    out = fixed_cases()
    out += long_name_cases(random.Random(seed * 7477 + 85), tier)
    out += prefix_name_cases(random.Random(seed * 7481 + 86), tier)
    out += direct_cases(random.Random(seed * 7487 + 87), tier)
    for _ in range(n_trip):
        r = rnd.random()
        if r < 0.70:
            kind = 'program'
        elif r < 0.82:
            kind = 'names-outside-domain'
        elif r < 0.88:
            kind = 'prio-out-of-range'
        elif r < 0.96:
            kind = 'errors'
        else:
            kind = 'noninc-multistep'
        calls = g_trip(rnd, tier, kind)
        out.append((trip_case(rnd, calls), {'kind': 'trip-' + kind}))
    for _ in range(n_str):
        if rnd.random() < 0.6:
            out.append((str_case('heu', g_heu_string(rnd)), {'kind': 'string-heuristic'}))
        else:
            out.append((str_case('edge', g_edge_string(rnd)), {'kind': 'string-edge'}))
    return out


def shrink(case, fails):
    d = decode(case)
    if d[0] == 'direct':
        _, cE, cH, flt, calls = d
        changed = True
        while changed:
            changed = False
            for i in range(len(calls) - 1, -1, -1):
                if calls[i][0] == 1:
                    continue
                # a directive, or an empty step (begin directly followed by end) - never the last step
                if calls[i][0] == 2:
                    if not (i + 1 < len(calls) and calls[i + 1][0] == 3 and sum(1 for c in calls if c[0] == 2) > 1):
                        continue
                    t = calls[:i] + calls[i + 2:]
                elif calls[i][0] == 3:
                    continue
                else:
                    t = calls[:i] + calls[i + 1:]
                if fails(encode_direct(cE, cH, flt, t)):
                    calls = t
                    changed = True
                    break
        return encode_direct(cE, cH, flt, calls)
    if d[0] == 'trip':
        _, cE, cH, flt, probes, calls = d
        changed = True
        while changed:
            changed = False
            for i in range(len(calls) - 1, -1, -1):
                if calls[i][0] in (1, 2, 3):
                    continue
                t = calls[:i] + calls[i + 1:]
                c2 = encode_trip(cE, cH, flt, sorted(all_atoms(t)), t)
                if fails(c2):
                    calls = t
                    changed = True
        return encode_trip(cE, cH, flt, sorted(all_atoms(calls)), calls)
    if d[0] in ('heu', 'edge'):
        s = d[1]
        changed = True
        while changed:
            changed = False
            for i in range(len(s) - 1, -1, -1):
                t = s[:i] + s[i + 1:]
                if fails(str_case(d[0], t)):
                    s = t
                    changed = True
        return str_case(d[0], s)
    return case


def mutate(case, rnd):
    d = decode(case)
    res = []
    if d[0] == 'direct':
        for o in ((0, 1, 0), (0, 1, 1), (1, 1, 1), (0, 0, 0)):
            res.append(encode_direct(o[0], o[1], o[2], d[4]))
        return res
    if d[0] == 'trip':
        _, cE, cH, flt, probes, calls = d
        for o in ((1, 1, 1), (1, 1, 0), (0, 1, 0), (1, 0, 0)):
            res.append(encode_trip(o[0], o[1], o[2], probes, calls))
        for _ in range(4):
            t = list(calls)
            if len(t) > 3:
                i = rnd.randrange(len(t))
                if t[i][0] not in (1, 2, 3):
                    del t[i]
            res.append(encode_trip(cE, cH, flt, sorted(all_atoms(t)), t))
    elif d[0] in ('heu', 'edge'):
        s = d[1]
        for _ in range(6):
            if s:
                i = rnd.randrange(len(s))
                res.append(str_case(d[0], s[:i] + bytes([rnd.choice(b'(),"\\ a1-+_')]) + s[i + rnd.randint(0, 1):]))
    return res


LEVEL_TEXT = ('Machine-checked proofs (Coq) about an executable model of the predicate formatters of SmodelsConvert and the predicate matchers '
              '(matchAtomArg, strtol-based match, match(Heuristic_t), matchDomHeuPred, matchEdgePred) over byte strings, of '
              'SmodelsInput::readSymbols (classification, NodeTab, SymTab, deferred heuristics, filter) and of the external value coding; '
              'composed with C02\'s converter model into a model of the whole trip; proved over whole converter runs: every symTab_ name is a good name and a written / pending symbol, '
              'every written symbol is of the shape the reader theorems assume, every _heuristic target name is a written symbol, every written external value is 0..3; proved end to end '
              '(conv_write -> read_back) for programs of ANY number of steps by induction over the step list (c08_trip; reader invariant: its symbol table is the cumulative table of all '
              'symbols written so far, node table only grows): per step exactly one heuristic per heuristic on an occurring atom with the same fields on the first symbol carrying the name '
              '(of this or an earlier step), others dropped, edges of all steps up to ONE injective node renaming, externals unchanged, no helper symbol shown under filter; '
              'non-incremental texts of several steps: refused at the second step unless the first line is an external (then read like an incremental text, tables kept) - c08_noninc_multistep. '
              'The model is tied to the code by differential '
              'correspondence (the real converter+writer+reader pipeline with a recorder at the end; the writer+reader pipeline WITHOUT the converter on symbol tables that '
              'repeat names and (atom, name) lines within a table and across steps - coq/C08/Direct.v, same reader model; direct calls of the two matchers on '
              'generated strings) and by an independent python oracle on the implementation.')
LEVEL_NOTE = ('Trusted: Coq kernel/vm_compute, extraction+driver (cross-checked), harness, translator, python oracle, ideal sprintf, libc '
              'strtol/sscanf modelled per the C standard. See notes/C08.md for the theorem list (c08_trip is full for every number of steps; only the superseded c08_flush_shape_partial keeps a _partial name). The "in every answer set" '
              'part of the property rests on C02 (conditions are carried by atoms of the converted program); the oracle checks the '
              'defining rule of every auxiliary condition atom.')
TECHNIQUE = 'Coq proofs about an executable model + differential correspondence + independent python oracle'
DESIGN_REF = 'DESIGN.md section 5, C08'
READY = True
