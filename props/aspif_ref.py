"""Python reference for aspif texts, shared by props/C01.py and props/C03.py (independent of the Coq model).

  norm(calls)            what C01 allows the round trip to change: weight-0 pairs dropped from weighted bodies / minimize
  wf_call / wf_trace     the documented argument ranges and the init/begin/end framing
  items_of(calls)        a text as a list of items (numbers with the range of their field, raw strings, comments, ...)
  render(items, rnd)     bytes of the items under a random (or the canonical) layout
  judge(text)            table driven recogniser with python big integers: (accepted, calls the text denotes)
"""
from props import calls as C

INT_MAX = 2 ** 31 - 1
INT_MIN = -2 ** 31
UINT_MAX = 2 ** 32 - 1


def norm(calls):
    out = []
    for c in calls:
        if c[0] == 5:
            out.append((5, c[1], list(c[2]), c[3], [(l, w) for (l, w) in c[4] if w != 0]))
        elif c[0] == 6:
            out.append((6, c[1], [(l, w) for (l, w) in c[2] if w != 0]))
        else:
            out.append(tuple(list(x) if isinstance(x, list) else x for x in c))
    return out


def canon(calls):
    """comparable form (strings as bytes, lists as lists, bools as ints)"""
    r = []
    for c in calls:
        r.append(tuple((bytes(x) if isinstance(x, (bytes, bytearray)) else ([tuple(y) if isinstance(y, (tuple, list)) else y for y in x]
                        if isinstance(x, list) else int(x))) for x in c))
    return r


def _atom(a):
    return 1 <= a <= INT_MAX


def _lit(l):
    return l != 0 and -INT_MAX <= l <= INT_MAX


def _i32(x):
    return INT_MIN <= x <= INT_MAX


def _id(x):
    return 0 <= x <= UINT_MAX


def _str(s):
    return len(s) <= INT_MAX and all(0 < b < 256 for b in s)


def wf_call(c):
    t = c[0]
    if t in (1, 2, 3):
        return True
    if t == 4:
        return c[1] in (0, 1) and all(map(_atom, c[2])) and all(map(_lit, c[3]))
    if t == 5:
        return c[1] in (0, 1) and all(map(_atom, c[2])) and _i32(c[3]) and all(_lit(l) and 0 <= w <= INT_MAX for l, w in c[4])
    if t == 6:
        return _i32(c[1]) and all(_lit(l) and _i32(w) for l, w in c[2])
    if t == 7:
        return all(map(_atom, c[1]))
    if t == 8:
        return _str(c[1]) and all(map(_lit, c[2]))
    if t == 9:
        return _atom(c[1]) and 0 <= c[2] <= 3
    if t == 10:
        return all(map(_lit, c[1]))
    if t == 11:
        return _atom(c[1]) and 0 <= c[2] <= 5 and _i32(c[3]) and 0 <= c[4] <= INT_MAX and all(map(_lit, c[5]))
    if t == 12:
        return 0 <= c[1] <= INT_MAX and 0 <= c[2] <= INT_MAX and all(map(_lit, c[3]))
    if t == 13:
        return _id(c[1]) and _i32(c[2])
    if t == 14:
        return _id(c[1]) and _str(c[2])
    if t == 15:
        return _id(c[1]) and -3 <= c[2] <= INT_MAX and all(map(_id, c[3]))
    if t == 16:
        return _id(c[1]) and all(map(_id, c[2])) and all(map(_lit, c[3]))
    if t == 17:
        return _id(c[1]) and _id(c[2]) and all(map(_id, c[3]))
    if t == 18:
        return _id(c[1]) and _id(c[2]) and all(map(_id, c[3])) and _id(c[4]) and _id(c[5])
    return False


def wf_trace(calls):
    """init, then one or more begin..end steps (exactly one unless incremental), directives only inside steps"""
    if not calls or calls[0][0] != 1:
        return False
    inc = bool(calls[0][1])
    i, steps = 1, 0
    while i < len(calls):
        if calls[i][0] != 2:
            return False
        i += 1
        while i < len(calls) and calls[i][0] > 3:
            i += 1
        if i >= len(calls) or calls[i][0] != 3:
            return False
        i += 1
        steps += 1
    return steps >= 1 and (inc or steps == 1)


# ------------------------------------------------------------------------------------------------------
# items: ('n', value, lo, hi, role)  a number whose field accepts lo..hi (role: 'code','count','lit','val')
#        ('s', bytes)                a length-prefixed raw string (length item + separator + bytes)
#        ('c', bytes)                a comment directive `10<bytes>` up to the end of the line
#        ('h', inc)                  the header line
# ------------------------------------------------------------------------------------------------------
def N(v, lo, hi, role='val'):
    return ('n', v, lo, hi, role)


def _code(v):
    return ('n', v, v, v, 'code')


def _count(n):
    return ('n', n, n, n, 'count')


def _atoms(l):
    return [_count(len(l))] + [N(a, 1, INT_MAX) for a in l]


def _lits(l):
    return [_count(len(l))] + [N(a, -INT_MAX, INT_MAX, 'lit') for a in l]


def _ids(l):
    return [_count(len(l))] + [N(a, 0, UINT_MAX) for a in l]


def _wlits(l, minw):
    r = [_count(len(l))]
    for (a, w) in l:
        r += [N(a, -INT_MAX, INT_MAX, 'lit'), N(w, minw, INT_MAX)]
    return r


def items_of_call(c):
    t = c[0]
    if t == 1:
        return [('h', bool(c[1]))]
    if t == 2:
        return []
    if t == 3:
        return [_code(0)]
    if t == 4:
        return [_code(1), N(c[1], 0, 1)] + _atoms(c[2]) + [_code(0)] + _lits(c[3])
    if t == 5:
        return [_code(1), N(c[1], 0, 1)] + _atoms(c[2]) + [_code(1), N(c[3], INT_MIN, INT_MAX)] + _wlits(c[4], 0)
    if t == 6:
        return [_code(2), N(c[1], INT_MIN, INT_MAX)] + _wlits(c[2], INT_MIN)
    if t == 7:
        return [_code(3)] + _atoms(c[1])
    if t == 8:
        return [_code(4), ('s', bytes(c[1]))] + _lits(c[2])
    if t == 9:
        return [_code(5), N(c[1], 1, INT_MAX), N(c[2], 0, 3)]
    if t == 10:
        return [_code(6)] + _lits(c[1])
    if t == 11:
        return [_code(7), N(c[2], 0, 5), N(c[1], 1, INT_MAX), N(c[3], INT_MIN, INT_MAX), N(c[4], 0, INT_MAX)] + _lits(c[5])
    if t == 12:
        return [_code(8), N(c[1], 0, INT_MAX), N(c[2], 0, INT_MAX)] + _lits(c[3])
    if t == 13:
        return [_code(9), _code(0), N(c[1], 0, UINT_MAX), N(c[2], INT_MIN, INT_MAX)]
    if t == 14:
        return [_code(9), _code(1), N(c[1], 0, UINT_MAX), ('s', bytes(c[2]))]
    if t == 15:
        return [_code(9), _code(2), N(c[1], 0, UINT_MAX), N(c[2], -3, INT_MAX)] + _ids(c[3])
    if t == 16:
        return [_code(9), _code(4), N(c[1], 0, UINT_MAX)] + _ids(c[2]) + _lits(c[3])
    if t == 17:
        return [_code(9), _code(5), N(c[1], 0, UINT_MAX), N(c[2], 0, UINT_MAX)] + _ids(c[3])
    if t == 18:
        return [_code(9), _code(6), N(c[1], 0, UINT_MAX), N(c[2], 0, UINT_MAX)] + _ids(c[3]) + [N(c[4], 0, UINT_MAX), N(c[5], 0, UINT_MAX)]
    raise ValueError(c)


def items_of(calls):
    """list of lines, each a list of items"""
    return [items_of_call(c) for c in calls if c[0] != 2]


WS = [b' ', b' ', b' ', b'\t', b'  ', b'\n', b'\r\n', b'\r', b' \n', b'\t \r\n ']
EOL = [b'\n', b'\n', b'\n', b'\r\n', b'\r\n', b'\r', b' \n', b'\n\n', b' \r\n\t']


def render_num(v, rnd, fancy):
    s = b''
    if v < 0:
        s += b'-'
    elif fancy and rnd.random() < 0.15:
        s += b'+'
    if fancy and rnd.random() < 0.15:
        s += b'0' * rnd.choice([1, 2, 7, 25])
    return s + str(abs(v)).encode()


def render(lines, rnd=None, fancy=0.0, comments=0.0):
    """bytes of the item lines. fancy = probability that a line uses a non-canonical layout."""
    out = bytearray()
    for li, line in enumerate(lines):
        f = rnd is not None and rnd.random() < fancy
        if line and line[0][0] == 'h':
            if f:
                out += rnd.choice([b'', b' ', b'\n\t']) + b'asp ' + rnd.choice([b'1', b' 1', b'+01']) + b' ' + rnd.choice([b'0', b'00', b'+0']) + b' ' + \
                    rnd.choice([b'0', b'0', b'7', b'4294967295'])
                out += b' ' * rnd.choice([0, 1, 3]) if not line[0][1] else b' ' * rnd.choice([1, 1, 4]) + b'incremental'
                out += rnd.choice([b'\n', b'\r\n', b'\n', b'\r'])
            else:
                out += b'asp 1 0 0' + (b' incremental' if line[0][1] else b'') + b'\n'
            continue
        if rnd is not None and rnd.random() < comments:
            out += b'10' + rnd.choice([b'', b' a comment 1 2 3', b' x', b'\t0']) + rnd.choice([b'\n', b'\r\n', b'\r'])
        first = True
        for it in line:
            if it[0] == 'n':
                if not first:
                    out += rnd.choice(WS) if f else b' '
                elif f and rnd.random() < 0.3:
                    out += rnd.choice(WS)
                out += render_num(it[1], rnd, f)
            elif it[0] == 's':
                if not first:
                    out += rnd.choice(WS) if f else b' '
                out += render_num(len(it[1]), rnd, f)
                sep = b' '
                if f:
                    sep = rnd.choice([b' ', b'\t', b'\n', b'x', b'\r\n', b'-'])
                    if sep == b'\r' and it[1][:1] == b'\n':
                        sep = b' '
                out += sep + it[1]
            elif it[0] == 'c':
                out += b'10' + it[1]
            elif it[0] == 'raw':
                if not first:
                    out += b' '
                out += it[1]
            first = False
        out += rnd.choice(EOL) if f else b'\n'
    return bytes(out)


# ------------------------------------------------------------------------------------------------------
# reference recogniser (table driven; numbers are python integers of arbitrary size)
# ------------------------------------------------------------------------------------------------------
class Reject(Exception):
    pass


class Scan:
    def __init__(self, data):
        self.d = bytes(data)
        self.i = 0
        self.prealloc = 0      # largest announced size the real reader allocates before reading (id lists, strings)

    def ws(self):
        d, n = self.d, len(self.d)
        while self.i < n and 9 <= d[self.i] < 33:
            self.i += 1

    def num(self, lo, hi):
        self.ws()
        d, n, j = self.d, len(self.d), self.i
        neg = False
        if j < n and d[j] in (43, 45):
            neg = d[j] == 45
            j += 1
        k = j
        while k < n and 48 <= d[k] <= 57:
            k += 1
        self.i = k
        if k == j:
            raise Reject('number expected')
        v = int(d[j:k])
        if neg:
            v = -v
        if not lo <= v <= hi:
            raise Reject('%d not in %d..%d' % (v, lo, hi))
        return v

    def lit(self):
        v = self.num(-INT_MAX, INT_MAX)
        if v == 0:
            raise Reject('literal 0')
        return v

    def lst(self, elem, prealloc=False):
        n = self.num(0, UINT_MAX)
        if prealloc:
            self.prealloc = max(self.prealloc, 4 * n)
        r = []
        for _ in range(n):
            r.append(elem())
        return r

    def string(self):
        n = self.num(0, INT_MAX)
        self.prealloc = max(self.prealloc, n)
        d = self.d
        # exactly one separator character; a CR LF pair counts as one
        if self.i < len(d):
            if d[self.i] == 13 and self.i + 1 < len(d) and d[self.i + 1] == 10:
                self.i += 2
            else:
                self.i += 1
        s = d[self.i:self.i + n]
        self.i += len(s)
        if len(s) != n:
            raise Reject('string truncated')
        return s

    def line_rest(self):
        d, n = self.d, len(self.d)
        while self.i < n:
            c = d[self.i]
            self.i += 1
            if c == 10:
                break
            if c == 13:
                if self.i < n and d[self.i] == 10:
                    self.i += 1
                break

    def end(self):
        return self.i >= len(self.d)


def _fields(sc):
    atom = lambda: sc.num(1, INT_MAX)
    ident = lambda: sc.num(0, UINT_MAX)
    i32 = lambda: sc.num(INT_MIN, INT_MAX)
    upto = lambda m: (lambda: sc.num(0, m))
    wl = lambda minw: (lambda: (sc.lit(), sc.num(minw, INT_MAX)))
    atoms = lambda: sc.lst(atom)
    lits = lambda: sc.lst(sc.lit)
    ids = lambda: sc.lst(ident, True)
    wls = lambda minw: (lambda: [p for p in sc.lst(wl(minw)) if p[1] != 0])
    return atom, ident, i32, upto, atoms, lits, ids, wls


def judge(text):
    """(accepted, calls, reason)"""
    sc = Scan(text)
    calls = []
    atom, ident, i32, upto, atoms, lits, ids, wls = _fields(sc)
    # field tables: directive code -> (field readers, call builder)
    DIR = {
        2: ([i32, wls(INT_MIN)], lambda p, l: (6, p, l)),
        3: ([atoms], lambda a: (7, a)),
        4: ([sc.string, lits], lambda s, c: (8, s, c)),
        5: ([atom, upto(3)], lambda a, v: (9, a, v)),
        6: ([lits], lambda l: (10, l)),
        7: ([upto(5), atom, i32, upto(INT_MAX), lits], lambda t, a, b, p, c: (11, a, t, b, p, c)),
        8: ([upto(INT_MAX), upto(INT_MAX), lits], lambda s, t, c: (12, s, t, c)),
    }
    TH = {
        0: ([i32], lambda i, n: (13, i, n)),
        1: ([sc.string], lambda i, s: (14, i, s)),
        2: ([lambda: sc.num(-3, INT_MAX), ids], lambda i, c, a: (15, i, c, a)),
        4: ([ids, lits], lambda i, t, c: (16, i, t, c)),
        5: ([ident, ids], lambda a, t, e: (17, a, t, e)),
        6: ([ident, ids, ident, ident], lambda a, t, e, o, r: (18, a, t, e, o, r)),
    }
    try:
        sc.ws()
        if sc.d[sc.i:sc.i + 4] != b'asp ':
            raise Reject('no header')
        sc.i += 4
        if sc.num(0, UINT_MAX) != 1 or sc.num(0, UINT_MAX) != 0:
            raise Reject('version')
        sc.num(0, UINT_MAX)
        while sc.d[sc.i:sc.i + 1] == b' ':
            sc.i += 1
        inc = sc.d[sc.i:sc.i + 11] == b'incremental'
        if inc:
            sc.i += 11
        calls.append((1, inc))
        nl = sc.d[sc.i:sc.i + 1]
        if nl == b'\r':
            sc.i += 2 if sc.d[sc.i + 1:sc.i + 2] == b'\n' else 1
        elif nl == b'\n':
            sc.i += 1
        else:
            raise Reject('header line')
        while True:
            calls.append((2,))
            while True:
                code = sc.num(0, 10)
                if code == 0:
                    break
                if code == 10:
                    sc.line_rest()
                elif code == 1:
                    ht = sc.num(0, 1)
                    head = atoms()
                    bt = sc.num(0, 2)
                    if bt == 0:
                        calls.append((4, ht, head, lits()))
                    else:
                        bound = i32()
                        calls.append((5, ht, head, bound, wls(0)()))
                elif code == 9:
                    tt = sc.num(0, UINT_MAX)
                    tid = ident()
                    if tt not in TH:
                        raise Reject('theory type')
                    fs, mk = TH[tt]
                    calls.append(mk(tid, *[f() for f in fs]))
                else:
                    fs, mk = DIR[code]
                    calls.append(mk(*[f() for f in fs]))
            calls.append((3,))
            sc.ws()
            if sc.end():
                break
            if not inc:
                raise Reject('extra input')
    except Reject as e:
        judge.prealloc = sc.prealloc
        return False, calls, str(e)
    judge.prealloc = sc.prealloc
    return True, calls, ''


def cheap(text, limit=4000000):
    """the real reader sizes id vectors / strings by the announced count before reading; keep generated texts below limit bytes"""
    judge(text)
    return judge.prealloc <= limit


def count_lines(text):
    """1 + number of line terminators (LF, CR, CRLF)"""
    n, i, d = 1, 0, bytes(text)
    while i < len(d):
        if d[i] == 10:
            n += 1
        elif d[i] == 13:
            n += 1
            if i + 1 < len(d) and d[i + 1] == 10:
                i += 1
        i += 1
    return n


def dec_obs_read(obs):
    """accepted line reports calls...  ->  (acc, line, reports, calls, rest)"""
    acc, line, rep = obs[0], obs[1], obs[2]
    cs, rest = C.dec_all(obs[3:])
    return acc, line, rep, cs, rest
