"""C14 - option lookup resolves a key to the unique matching option or fails correctly.

Case (integers; <str> = len bytes), mirrored by coq/C14/Model.v run_ops and harness/h_c14.cpp:
  1 <cap> n (<name> alias)*          add(group)
  2 <name> i                         addAlias(name, begin()+min(i,size))
  3 g (<cap> n (<name> alias)*)*     add(other context built from g groups)
  4 <key> t | 5 <key> t | 6 <key> t m    find / tryFind / findImpl
The oracle is independent of the Coq model: it keeps the plain LIST OF OPTIONS (name, alias, extra alias names) that the
calls were meant to build, computes the set of matching options by brute force over that list (no index, no order) and
judges every observation of the implementation, including which additions must be refused and the final index dump.
"""
import random

PID = 'C14'
HARNESS = 'h_c14'
MODEL_MODULE = 'V.C14.Model'
FIND_NAME, FIND_PREFIX, FIND_NOP, FIND_ALIAS = 1, 2, 3, 4
DASH = 45


# ------------------------------------------------------------------------------------------------ decoding
def _str(c, p):
    n = c[p]
    return list(c[p + 1:p + 1 + n]), p + 1 + n


def _group(c, p):
    cap, p = _str(c, p)
    n = c[p]
    p += 1
    os_ = []
    for _ in range(n):
        nm, p = _str(c, p)
        os_.append((nm, c[p]))
        p += 1
    return (cap, os_), p


def decode(c):
    ops, p = [], 0
    try:
        while p < len(c):
            o = c[p]
            p += 1
            if o == 1:
                g, p = _group(c, p)
                ops.append((1, g))
            elif o == 2:
                nm, p = _str(c, p)
                ops.append((2, nm, c[p]))
                p += 1
            elif o == 3:
                n = c[p]
                p += 1
                gs = []
                for _ in range(n):
                    g, p = _group(c, p)
                    gs.append(g)
                ops.append((3, gs))
            elif o in (4, 5):
                k, p = _str(c, p)
                ops.append((o, k, c[p]))
                p += 1
            elif o == 6:
                k, p = _str(c, p)
                ops.append((6, k, c[p], c[p + 1]))
                p += 2
            else:
                break
    except IndexError:
        pass
    return ops


def _estr(s):
    return [len(s)] + list(s)


def _egroup(g):
    e = _estr(g[0]) + [len(g[1])]
    for nm, a in g[1]:
        e += _estr(nm) + [a]
    return e


def encode(ops):
    e = []
    for o in ops:
        if o[0] == 1:
            e += [1] + _egroup(o[1])
        elif o[0] == 2:
            e += [2] + _estr(o[1]) + [o[2]]
        elif o[0] == 3:
            e += [3, len(o[1])]
            for g in o[1]:
                e += _egroup(g)
        elif o[0] in (4, 5):
            e += [o[0]] + _estr(o[1]) + [o[2]]
        elif o[0] == 6:
            e += [6] + _estr(o[1]) + [o[2], o[3]]
    return e


def _s(b):
    return bytes(x & 255 for x in b).decode('latin-1').encode('unicode_escape').decode()


def describe(c):
    out = []
    for o in decode(c):
        if o[0] == 1:
            out.append('add(group %r: %s)' % (_s(o[1][0]), ', '.join(_s(n) + (',-' + chr(a) if a else '') for n, a in o[1][1])))
        elif o[0] == 2:
            out.append('addAlias(%r, #%d)' % (_s(o[1]), o[2]))
        elif o[0] == 3:
            out.append('add(ctx %s)' % '; '.join('%r: %s' % (_s(g[0]), ', '.join(_s(n) + (',-' + chr(a) if a else '') for n, a in g[1])) for g in o[1]))
        elif o[0] == 4:
            out.append('find(%r,%d)' % (_s(o[1]), o[2]))
        elif o[0] == 5:
            out.append('tryFind(%r,%d)' % (_s(o[1]), o[2]))
        elif o[0] == 6:
            out.append('findImpl(%r,%d,%d)' % (_s(o[1]), o[2], o[3]))
    return ' '.join(out)


# ------------------------------------------------------------------------------------------------ reference
class Ref:
    """The intended context: a list of options; nothing sorted, nothing indexed."""

    def __init__(self):
        self.opts = []       # [name, alias, [extra names]]
        self.groups = []     # [caption, [option ids]]

    def taken(self, key):
        for nm, a, ex in self.opts:
            if key == nm or key in ex or (a and key == [DASH, a]):
                return True
        return False

    def add_group(self, cap, os_):
        """returns None or the refused option's name"""
        g = None
        for x in self.groups:
            if x[0] == cap:
                g = x
                break
        if g is None:
            g = [cap, []]
            self.groups.append(g)
        for nm, a in os_:
            if (a and self.taken([DASH, a])) or self.taken(nm) or (a and nm == [DASH, a]):
                return nm
            g[1].append(len(self.opts))
            self.opts.append([nm, a, []])
        return None

    def add_alias(self, nm, i):
        if i >= len(self.opts) or not nm:
            return None
        if self.taken(nm):
            return nm
        self.opts[i][2].append(nm)
        return None

    def names(self, i):
        return [self.opts[i][0]] + self.opts[i][2]

    def matches(self, key, t):
        n = len(self.opts)
        exact = [i for i in range(n) if key in self.names(i)]
        pref = [i for i in range(n) if any(x[:len(key)] == key for x in self.names(i))]
        if t == FIND_NAME:
            return exact
        if t == FIND_PREFIX:
            return pref
        if t == FIND_NOP:
            return exact if exact else pref
        if t == FIND_ALIAS:
            ch = key[0] if len(key) == 1 else key[1]
            return [i for i in range(n) if self.opts[i][1] == ch]
        return None

    def in_domain(self, hi=126):
        for nm, a, ex in self.opts:
            for x in [nm] + ex:
                if not x or x[0] == DASH or any(b < 1 or b > hi for b in x):
                    return False
            if a and (a < 1 or a > 126 or a == DASH):
                return False
        return True


def key_in_claim(key, t):
    if not key or any(b < 1 or b > 255 for b in key) or t not in (1, 2, 3, 4):
        return False
    if t == FIND_ALIAS:
        return (len(key) == 1 and key[0] != DASH) or (len(key) == 2 and key[0] == DASH and key[1] != DASH)
    return key[0] != DASH


class Reader:
    def __init__(self, obs):
        self.o, self.p = obs, 0

    def num(self):
        v = self.o[self.p]
        self.p += 1
        return v

    def str(self):
        n = self.num()
        s = self.o[self.p:self.p + n]
        self.p += n
        return list(s)

    def add_result(self):
        r = self.num()
        return (r, self.str()) if r == 1 else (r, None)

    def cands(self):
        return [self.str() for _ in range(self.num())]


def check_cands(ref, key, t, ms, cands):
    """candidates listed for an ambiguous key: each is a name (with the key as prefix) of a matching option and every
    matching option is listed."""
    covered = set()
    for cn in cands:
        owners = [i for i in ms if cn in ref.names(i)]
        if not owners or cn[:len(key)] != key:
            return False
        covered.update(owners)
    return covered == set(ms)


def oracle(c, obs):
    ops = decode(c)
    ref = Ref()
    rd = Reader(obs)
    sig = []
    try:
        for o in ops:
            if o[0] in (1, 2, 3):
                if o[0] == 1:
                    exp = ref.add_group(o[1][0], o[1][1])
                elif o[0] == 2:
                    exp = ref.add_alias(o[1], o[2])
                else:
                    other = Ref()
                    bad = None
                    for g in o[1]:
                        bad = other.add_group(g[0], g[1])
                        if bad is not None:
                            break
                    if bad is not None:
                        if rd.num() != 2:
                            sig.append('other-context-refusal-differs')
                            break
                        continue
                    exp = None
                    for cap, ids in other.groups:
                        exp = ref.add_group(cap, [(other.opts[i][0], other.opts[i][1]) for i in ids])
                        if exp is not None:
                            break
                r, k = rd.add_result()
                if exp is None and r != 0:
                    sig.append('free-name-refused-as-duplicate')
                    break
                if exp is not None and r != 1:
                    sig.append('taken-name-not-refused')
                    break
                continue
            key, t = o[1], o[2]
            claim = key_in_claim(key, t) and ref.in_domain()
            ms = ref.matches(key, t) if claim else None
            if o[0] == 4:
                r = rd.num()
                cands = rd.cands() if r == 2 else None
                i = rd.num() if r == 0 else None
                if not claim:
                    # known limitation of the CHAR_MAX sentinel (judged only in exactly this shape): a unique option whose
                    # name continues with a byte >= 0x7f behind the key is reported unknown by prefix lookup
                    if key_in_claim(key, t) and t in (FIND_PREFIX, FIND_NOP) and ref.in_domain(hi=255) and r == 1:
                        ms2 = ref.matches(key, t)
                        if len(ms2) == 1 and all(len(x) > len(key) and x[len(key)] >= 127 for x in ref.names(ms2[0]) if x[:len(key)] == key):
                            sig.append('prefix-lookup-misses-name-whose-byte-behind-the-key-is-ge-0x7f')
                            break
                    continue
                if len(ms) == 0 and r != 1:
                    sig.append('no-option-matches-but-find-%s' % {0: 'returned-an-option', 2: 'reported-ambiguous'}.get(r, 'failed'))
                elif len(ms) == 1 and r != 0:
                    sig.append('one-option-matches-but-find-reported-%s' % {1: 'unknown', 2: 'ambiguous'}.get(r, 'failure'))
                elif len(ms) == 1 and i != ms[0]:
                    sig.append('find-returned-the-wrong-option')
                elif len(ms) > 1 and r != 2:
                    sig.append('several-options-match-but-find-%s' % {0: 'returned-one', 1: 'reported-unknown'}.get(r, 'failed'))
                elif len(ms) > 1 and not check_cands(ref, key, t, ms, cands):
                    sig.append('ambiguous-candidates-are-not-the-matching-options')
            elif o[0] == 5:
                i = rd.num()
                if not claim:
                    continue
                if len(ms) == 1 and i != ms[0]:
                    sig.append('tryfind-missed-the-unique-option' if i == -1 else 'tryfind-returned-the-wrong-option')
                elif len(ms) != 1 and i != -1:
                    sig.append('tryfind-returned-an-option-for-a-%s-key' % ('unknown' if not ms else 'ambiguous'))
            elif o[0] == 6:
                m = o[3]
                r = rd.num()
                cands = rd.cands() if r == 2 else None
                ids = [rd.num() for _ in range(rd.num())] if r == 0 else None
                if not claim:
                    continue
                if len(ms) == 0:
                    ok = (r == 1) if (m & 1) else (r == 0 and ids == [])
                elif len(ms) == 1:
                    ok = (r == 0 and ids == ms)
                else:
                    ok = (r == 2 and check_cands(ref, key, t, ms, cands)) if (m & 2) else (r == 0 and set(ids) == set(ms) and len(ids) > 1)
                if not ok:
                    sig.append('findimpl-%s-matches-wrong-result' % ('no' if not ms else 'one' if len(ms) == 1 else 'several'))
            if sig:
                break
        if not sig:
            # final dump: size, groups, index
            size, ng = rd.num(), rd.num()
            groups = []
            for _ in range(ng):
                cap = rd.str()
                groups.append((cap, [rd.str() for _ in range(rd.num())]))
            index = []
            for _ in range(rd.num()):
                k = rd.str()
                index.append((k, rd.num()))
            if size != len(ref.opts):
                sig.append('option-count-differs')
            elif groups != [(cap, [ref.opts[i][0] for i in ids]) for cap, ids in ref.groups]:
                sig.append('groups-differ')
            else:
                exp = []
                for i, (nm, a, ex) in enumerate(ref.opts):
                    exp += [(nm, i)] + [(x, i) for x in ex] + ([([DASH, a], i)] if a else [])
                if sorted(exp) != index:
                    sig.append('index-is-not-the-set-of-keys-of-the-accepted-options')
    except IndexError:
        sig.append('observation-truncated')
    return sig


def nontrivial(c, obs):
    ops = decode(c)
    n = sum(len(o[1][1]) for o in ops if o[0] == 1) + sum(len(g[1]) for o in ops if o[0] == 3 for g in o[1])
    return n >= 2 and any(o[0] in (4, 5, 6) for o in ops)


# ------------------------------------------------------------------------------------------------ generation
def rname(rnd, alpha, lo=1, hi=5):
    return [rnd.choice(alpha) for _ in range(rnd.randint(lo, hi))]


def keys_for(rnd, ref_names, aliases, alpha, n):
    """keys aimed at the lookup's case splits: names, proper prefixes, extensions, neighbours in sort order."""
    ks = []
    for _ in range(n):
        r = rnd.random()
        if ref_names and r < 0.85:
            nm = list(rnd.choice(ref_names))
            q = rnd.random()
            if q < 0.25:
                k = nm
            elif q < 0.55:
                k = nm[:rnd.randint(1, len(nm))]
            elif q < 0.7:
                k = nm + [rnd.choice(alpha)]
            elif q < 0.8:
                k = nm[:-1] + [max(1, nm[-1] - 1)]
            elif q < 0.9:
                k = nm[:-1] + [min(255, nm[-1] + 1)]
            else:
                k = nm + [126]
            t = rnd.choice([1, 2, 2, 3, 3, 3])
        elif r < 0.95:
            a = rnd.choice(aliases + alpha) if aliases else rnd.choice(alpha)
            k = [a] if rnd.random() < 0.5 else [DASH, a]
            t = 4
        else:
            k = rname(rnd, alpha, 1, 3)
            t = rnd.choice([1, 2, 3, 4])
        ks.append((k, t))
    return ks


def lookups(rnd, ks):
    ops = []
    for k, t in ks:
        q = rnd.random()
        if q < 0.45:
            ops.append((4, k, t))
        elif q < 0.7:
            ops.append((5, k, t))
        else:
            ops.append((6, k, t, rnd.choice([0, 1, 2, 3, 3, 2 ** 32 - 1])))
    return ops


def all_names(ops):
    ns, al = [], []
    for o in ops:
        gs = [o[1]] if o[0] == 1 else o[1] if o[0] == 3 else []
        for g in gs:
            for nm, a in g[1]:
                ns.append(nm)
                if a:
                    al.append(a)
        if o[0] == 2:
            ns.append(o[1])
    return [n for n in ns if n], al


def gen_one(rnd, kind, nkeys):
    AB = [97, 98]
    alpha = {'shared-prefixes': AB, 'prefix-chain': [97], 'boundary-bytes': [97, 1, 126, 125, 2],
             'alias-clash': [97, 98, 99], 'merge': AB + [99], 'alias-names': AB + [110], 'high-bytes': [97, 127, 128, 255, 126],
             'dash-inside': [97, 45, 98]}[kind]
    ops = []
    caps = [[], [71], [72]]
    aliases = [0, 0, 0, 120, 121, 122, 97]

    def mkname():
        nm = rname(rnd, alpha)
        if nm[0] == DASH:
            nm[0] = 97
        return nm

    def mkopts(k):
        return [(mkname(), rnd.choice(aliases)) for _ in range(k)]
    if kind == 'prefix-chain':
        base = rname(rnd, [97, 98], 1, 2)
        os_ = [(base + [97] * i, rnd.choice(aliases)) for i in range(rnd.randint(2, 5))]
        rnd.shuffle(os_)
        ops.append((1, (rnd.choice(caps), os_)))
        if rnd.random() < 0.5:
            ops.append((1, (rnd.choice(caps), [(base + [98], 0), (base[:1], 0)])))
    elif kind == 'boundary-bytes':
        base = [97] * rnd.randint(1, 2)
        os_ = [(base + t, 0) for t in ([126], [126, 126], [1], [125], [126, 1], [2, 126]) if rnd.random() < 0.7]
        os_ += mkopts(rnd.randint(0, 2))
        ops.append((1, (rnd.choice(caps), os_)))
    elif kind == 'alias-clash':
        for _ in range(rnd.randint(2, 4)):
            os_ = [(mkname(), rnd.choice([0, 120, 120, 121, 97])) for _ in range(rnd.randint(1, 3))]
            ops.append((1, (rnd.choice(caps), os_)))
            if rnd.random() < 0.3:
                ops += lookups(rnd, [([120], 4), ([DASH, 121], 4), ([97], 4)])
    elif kind == 'merge':
        for _ in range(rnd.randint(1, 3)):
            if rnd.random() < 0.5:
                ops.append((1, (rnd.choice(caps), mkopts(rnd.randint(0, 3)))))
            else:
                ops.append((3, [(rnd.choice(caps), mkopts(rnd.randint(0, 3))) for _ in range(rnd.randint(1, 3))]))
    elif kind == 'alias-names':
        os_ = mkopts(rnd.randint(1, 4))
        ops.append((1, (rnd.choice(caps), os_)))
        for _ in range(rnd.randint(1, 4)):
            i = rnd.randint(0, len(os_))
            nm = os_[min(i, len(os_) - 1)][0]
            q = rnd.random()
            if q < 0.4:
                an = nm[:rnd.randint(1, len(nm))]              # shares a prefix with its own option
            elif q < 0.6:
                an = nm + [rnd.choice(alpha)]
            elif q < 0.8:
                an = list(rnd.choice(os_)[0][:rnd.randint(1, 3)]) + [rnd.choice(alpha)]
            else:
                an = mkname() if rnd.random() < 0.9 else []
            ops.append((2, an, i))
        if rnd.random() < 0.3:
            ops.append((1, (rnd.choice(caps), mkopts(2))))
    else:
        for _ in range(rnd.randint(1, 3)):
            ops.append((1, (rnd.choice(caps), mkopts(rnd.randint(1, 5)))))
        if rnd.random() < 0.3:
            ops.append((2, mkname(), rnd.randint(0, 4)))
    ns, al = all_names(ops)
    ops += lookups(rnd, keys_for(rnd, ns, al, alpha, nkeys))
    return encode(ops)


KINDS = ['shared-prefixes', 'prefix-chain', 'boundary-bytes', 'alias-clash', 'merge', 'alias-names', 'alias-names', 'dash-inside', 'high-bytes']


def S(s):
    return [ord(ch) for ch in s]


def fixed_cases():
    out = []
    # the probed findings (now repaired in /repo)
    out.append((encode([(1, (S('G'), [(S('number'), 0), (S('other'), 0)])), (2, S('num'), 0),
                        (4, S('nu'), 2), (4, S('nu'), 3), (5, S('nu'), 2), (6, S('nu'), 3, 2), (4, S('n'), 2), (4, S('num'), 1)]), {'kind': 'regress-alias-name-prefix'}))
    out.append((encode([(1, (S('G'), [(S('foo'), 0)])), (1, (S('H'), [(S('foo'), 120)])), (6, S('x'), 4, 0), (1, (S('H'), [(S('bar'), 0)])),
                        (4, S('x'), 4), (5, S('-x'), 4)]), {'kind': 'regress-refused-insert'}))
    out.append((encode([(1, ([], [(S('help'), 104), (S('help2'), 0)])), (5, S('help'), 1), (5, S('help'), 3), (5, S('help'), 2), (2, S('Hilfe'), 0),
                        (5, S('Hilfe'), 1), (4, S('he'), 2), (4, S('h'), 4), (4, S('-h'), 4), (4, S('q'), 4), (4, S('help3'), 3)]), {'kind': 'repo-test-context'}))
    out.append((encode([(1, ([], [([99, 97, 102, 233], 0), (S('other'), 0)])), (4, S('caf'), 2), (4, S('caf'), 3), (4, [99, 97, 102, 233], 1)]), {'kind': 'known-highbyte'}))
    return out


def gen(seed, tier):
    rnd = random.Random(seed * 1000003 + 14)
    total = {'quick': 3000, 'thorough': 100000, 'search': 4000}.get(tier, 3000)
    out = fixed_cases()
    while len(out) < total:
        kind = rnd.choice(KINDS)
        out.append((gen_one(rnd, kind, rnd.choice([8, 30, 30])), {'kind': kind}))
    return out


def mutate(case, rnd):
    ops = decode(case)
    res = []
    for _ in range(4):
        t = list(ops)
        ns, al = all_names(t)
        t += lookups(rnd, keys_for(rnd, ns, al, [97, 98, 110, 126], 10))
        res.append(encode(t))
    return res


def shrink(case, fails):
    ops = decode(case)
    changed = True
    while changed:
        changed = False
        for i in range(len(ops) - 1, -1, -1):
            t = ops[:i] + ops[i + 1:]
            if t and fails(encode(t)):
                ops = t
                changed = True
        for i, o in enumerate(ops):
            if o[0] == 1 and len(o[1][1]) > 1:
                for j in range(len(o[1][1]) - 1, -1, -1):
                    g = (o[1][0], o[1][1][:j] + o[1][1][j + 1:])
                    t = ops[:i] + [(1, g)] + ops[i + 1:]
                    if fails(encode(t)):
                        ops = t
                        changed = True
                        break
                if changed:
                    break
    return encode(ops)


RULE = ('cases = (a sequence of add(group) / addAlias / add(context) calls building an OptionContext through the real API, interleaved with and followed by '
        '8-30 find / tryFind / findImpl(eMask) calls); generators: names over {a,b} sharing prefixes, chains of names that are prefixes of each other, names ending '
        'in bytes 0x01/0x7d/0x7e next to the CHAR_MAX sentinel, alias and name clashes across groups (refusals, then lookups), merged captions and merged contexts, '
        'alias names sharing a prefix with their own option, names containing "-", and (correspondence only) bytes >= 0x7f; keys = names, proper prefixes, '
        'extensions, neighbours in sort order, alias characters with and without "-"; non-trivial = at least two options declared and at least one lookup; '
        'distinct = distinct case tuples')
TRUSTED_BASE = ['std::map<std::string,size_t> (ordering, insert, erase, lower_bound, upper_bound) modelled as a strictly sorted association list with linear-scan bounds',
                'props/C14.py reference (brute force over the option list) as oracle on the implementation',
                'tools/consts/C14.py anchors (FindType values, CHAR_MAX of the harness compiler, error-mask bits, shape of findImpl/insertOption)']
ASSUMPTIONS = ['option names and alias names: non-empty, bytes 1..126, not starting with "-"; alias characters in 1..126 and not "-" (bytes >= 0x7f after the key are '
               'outside the CHAR_MAX sentinel argument: correspondence only, not judged by the oracle)',
               'keys: non-empty; name lookups with keys not starting with "-"; alias lookups with keys "c" or "-c"',
               'alias names (addAlias) count as names of their option for exact AND prefix lookup',
               'names without newline (the harness reads the candidates from the AmbiguousOption message)']
LEVEL_TEXT = ('Machine-checked proof (Coq): for every context reachable through add(group)/addAlias/add(context) (including refused calls) and every key in the claim, '
              'findImpl/find/tryFind/getOption of the model return exactly the unique matching option, Unknown iff no option matches, Ambiguous with exactly the matching '
              'options as candidates iff several do; the [lower_bound k, upper_bound k.0x7f) range is exactly the set of index entries with prefix k; additions are refused '
              'iff a key is taken and leave the index unchanged. Model tied to the code by differential correspondence incl. a dump of the private index.')
LEVEL_NOTE = ('Trusted: Coq kernel, extraction+driver (sample cross-checked by vm_compute), harness, translator; std::map modelled; names/keys over bytes 1..126.')
TECHNIQUE = 'Coq proof about an executable model of the sorted index + differential correspondence with the implementation'
DESIGN_REF = 'DESIGN.md section 5, C14'
READY = True
