"""C14 - option lookup resolves a key to the unique matching option or fails correctly.

Case (integers; <str> = len bytes), mirrored by coq/C14/Model.v run_ops and harness/h_c14.cpp:
  1 <cap> n (<name> alias)*          add(group)
  2 <name> i                         addAlias(name, begin()+min(i,size))
  3 g (<cap> n (<name> alias)*)*     add(other context built from g groups)
  4 <key> t | 5 <key> t | 6 <key> t m    find / tryFind / findImpl
  7 <key> short allow entry          the name resolved by a real PARSER (DefaultContext::getOption): entry % 4 = 0 parseCommandLine, 1 parseCommandArray,
                                     2 parseCommandString, 3 parseCfgFile; token "--key=1" / "-c1" / line "key = 1"; allow = allowUnregistered
  8 n (<key> short)^n allow entry    n names resolved within ONE run of a real parser (one DefaultContext): token j = "--key=j" / "-cj" / line "key = j"
  9 k                                add(group "N" of k GENERATED options 'o' + four base-36 digits of 0..k-1); k cut to 70000 on a context without options and
                                     keys, to 300 otherwise; contexts of more than 4096 options are dumped in short (size, groups (caption, size), number of keys)
The oracle is independent of the Coq model: it keeps the plain LIST OF OPTIONS (name, alias, extra alias names) that the
calls were meant to build, computes the set of matching options by brute force over that list (no index, no order) and
judges every observation of the implementation, including which additions must be refused and the final index dump.
"""
import random

PID = 'C14'
HARNESS = 'h_c14'
MODEL_MODULE = 'V.C14.Model'
FIND_NAME, FIND_PREFIX, FIND_NOP, FIND_ALIAS = 1, 2, 3, 4
DASH = 45


# ------------------------------------------------------------------------------------------------ decoding
def _str(c, p):
    n = c[p]
    return list(c[p + 1:p + 1 + n]), p + 1 + n


def _group(c, p):
    cap, p = _str(c, p)
    n = c[p]
    p += 1
    os_ = []
    for _ in range(n):
        nm, p = _str(c, p)
        os_.append((nm, c[p]))
        p += 1
    return (cap, os_), p


def decode(c):
    ops, p = [], 0
    try:
        while p < len(c):
            o = c[p]
            p += 1
            if o == 1:
                g, p = _group(c, p)
                ops.append((1, g))
            elif o == 2:
                nm, p = _str(c, p)
                ops.append((2, nm, c[p]))
                p += 1
            elif o == 3:
                n = c[p]
                p += 1
                gs = []
                for _ in range(n):
                    g, p = _group(c, p)
                    gs.append(g)
                ops.append((3, gs))
            elif o in (4, 5):
                k, p = _str(c, p)
                ops.append((o, k, c[p]))
                p += 1
            elif o == 6:
                k, p = _str(c, p)
                ops.append((6, k, c[p], c[p + 1]))
                p += 2
            elif o == 7:
                k, p = _str(c, p)
                ops.append((7, k, c[p], c[p + 1], c[p + 2]))
                p += 3
            elif o == 8:
                n = c[p]
                p += 1
                toks = []
                for _ in range(n):
                    k, p = _str(c, p)
                    toks.append((k, c[p]))
                    p += 1
                ops.append((8, toks, c[p], c[p + 1]))
                p += 2
            elif o == 9:
                ops.append((9, c[p]))
                p += 1
            else:
                break
    except IndexError:
        pass
    return ops


def _estr(s):
    return [len(s)] + list(s)


def _egroup(g):
    e = _estr(g[0]) + [len(g[1])]
    for nm, a in g[1]:
        e += _estr(nm) + [a]
    return e


def encode(ops):
    e = []
    for o in ops:
        if o[0] == 1:
            e += [1] + _egroup(o[1])
        elif o[0] == 2:
            e += [2] + _estr(o[1]) + [o[2]]
        elif o[0] == 3:
            e += [3, len(o[1])]
            for g in o[1]:
                e += _egroup(g)
        elif o[0] in (4, 5):
            e += [o[0]] + _estr(o[1]) + [o[2]]
        elif o[0] == 6:
            e += [6] + _estr(o[1]) + [o[2], o[3]]
        elif o[0] == 7:
            e += [7] + _estr(o[1]) + [o[2], o[3], o[4]]
        elif o[0] == 8:
            e += [8, len(o[1])]
            for k, sh in o[1]:
                e += _estr(k) + [sh]
            e += [o[2], o[3]]
        elif o[0] == 9:
            e += [9, o[1]]
    return e


B36 = '0123456789abcdefghijklmnopqrstuvwxyz'
BULK_MAX, BULK_SMALL, DUMP_FULL = 70000, 300, 4096


def gen_name(j):
    """name of the j-th generated option of op 9: 'o' + the four base-36 digits of j"""
    d = []
    for _ in range(4):
        d.append(ord(B36[j % 36]))
        j //= 36
    return [111] + d[::-1]


def _s(b):
    return bytes(x & 255 for x in b).decode('latin-1').encode('unicode_escape').decode()


def describe(c):
    out = []
    for o in decode(c):
        if o[0] == 1:
            out.append('add(group %r: %s)' % (_s(o[1][0]), ', '.join(_s(n) + (',-' + chr(a) if a else '') for n, a in o[1][1])))
        elif o[0] == 2:
            out.append('addAlias(%r, #%d)' % (_s(o[1]), o[2]))
        elif o[0] == 3:
            out.append('add(ctx %s)' % '; '.join('%r: %s' % (_s(g[0]), ', '.join(_s(n) + (',-' + chr(a) if a else '') for n, a in g[1])) for g in o[1]))
        elif o[0] == 4:
            out.append('find(%r,%d)' % (_s(o[1]), o[2]))
        elif o[0] == 5:
            out.append('tryFind(%r,%d)' % (_s(o[1]), o[2]))
        elif o[0] == 6:
            out.append('findImpl(%r,%d,%d)' % (_s(o[1]), o[2], o[3]))
        elif o[0] == 7:
            e = o[4] % 4
            short = o[2] != 0 and e != 3
            out.append('%s(%s, allowUnregistered=%s)' % (ENTRY[e], ('"%s = 1"' if e == 3 else '"-%s1"' if short else '"--%s=1"') % _s(o[1]), 'true' if o[3] else 'false'))
        elif o[0] == 8:
            e = o[3] % 4
            if e == 3:
                body = '\\n'.join('%s = %d' % (_s(k), j + 1) for j, (k, sh) in enumerate(o[1]))
            else:
                body = ' '.join(('-%s%d' if sh else '--%s=%d') % (_s(k), j + 1) for j, (k, sh) in enumerate(o[1]))
            out.append('%s("%s", allowUnregistered=%s)' % (ENTRY[e], body, 'true' if o[2] else 'false'))
        elif o[0] == 9:
            k = max(0, min(o[1], BULK_MAX))
            out.append("add(group 'N': %d generated options %s)" % (o[1], ' .. '.join(_s(gen_name(j)) for j in sorted(set([0, max(k - 1, 0)])))))
    return ' '.join(out)


ENTRY = ['parseCommandLine', 'parseCommandArray', 'parseCommandString', 'parseCfgFile']


def spellable(key, short):
    """a key the harness can hand to a parser as one token"""
    if not key or key[0] in (DASH, 35) or any(b < 33 or b > 126 or b in (34, 39, 61, 92) for b in key):
        return False
    return len(key) == 1 if short else True


# ------------------------------------------------------------------------------------------------ reference
class Ref:
    """The intended context: a list of options; nothing sorted, nothing indexed."""

    def __init__(self):
        self.opts = []       # [name, alias, [extra names]]
        self.groups = []     # [caption, [option ids]]
        self.keys = set()    # every name, alias name and "-c" key given to an accepted option (what `taken` would find by going through self.opts)
        self.dom = {}

    def taken(self, key):
        return tuple(key) in self.keys

    def add_group(self, cap, os_):
        """returns None or the refused option's name"""
        g = None
        for x in self.groups:
            if x[0] == cap:
                g = x
                break
        if g is None:
            g = [cap, []]
            self.groups.append(g)
        for nm, a in os_:
            if (a and self.taken([DASH, a])) or self.taken(nm) or (a and nm == [DASH, a]):
                return nm
            g[1].append(len(self.opts))
            self.opts.append([nm, a, []])
            self.keys.add(tuple(nm))
            if a:
                self.keys.add((DASH, a))
            self.dom = {}
        return None

    def add_alias(self, nm, i):
        if i >= len(self.opts) or not nm:
            return None
        if self.taken(nm):
            return nm
        self.opts[i][2].append(nm)
        self.keys.add(tuple(nm))
        self.dom = {}
        return None

    def names(self, i):
        return [self.opts[i][0]] + self.opts[i][2]

    def matches(self, key, t):
        n = len(self.opts)
        exact = [i for i in range(n) if key in self.names(i)]
        pref = [i for i in range(n) if any(x[:len(key)] == key for x in self.names(i))]
        if t == FIND_NAME:
            return exact
        if t == FIND_PREFIX:
            return pref
        if t == FIND_NOP:
            return exact if exact else pref
        if t == FIND_ALIAS:
            ch = key[0] if len(key) == 1 else key[1]
            return [i for i in range(n) if self.opts[i][1] == ch]
        return None

    def in_domain(self, hi=126):
        if hi not in self.dom:
            self.dom[hi] = self._in_domain(hi)
        return self.dom[hi]

    def _in_domain(self, hi):
        for nm, a, ex in self.opts:
            for x in [nm] + ex:
                if not x or x[0] == DASH or any(b < 1 or b > hi for b in x):
                    return False
            # alias characters: every byte 1..255 except '-' is judged (the '-c' key is looked up EXACTLY, the CHAR_MAX sentinel of
            # the prefix range never meets it: a name key does not start with '-'); the Coq domain stops at 126 (ASSUMPTIONS)
            if a and (a < 1 or a > 255 or a == DASH):
                return False
        return True


def key_in_claim(key, t):
    if not key or any(b < 1 or b > 255 for b in key) or t not in (1, 2, 3, 4):
        return False
    if t == FIND_ALIAS:
        return (len(key) == 1 and key[0] != DASH) or (len(key) == 2 and key[0] == DASH and key[1] != DASH)
    return key[0] != DASH


class Reader:
    def __init__(self, obs):
        self.o, self.p = obs, 0

    def num(self):
        v = self.o[self.p]
        self.p += 1
        return v

    def str(self):
        n = self.num()
        s = self.o[self.p:self.p + n]
        self.p += n
        return list(s)

    def add_result(self):
        r = self.num()
        return (r, self.str()) if r == 1 else (r, None)

    def cands(self):
        return [self.str() for _ in range(self.num())]


def check_cands(ref, key, t, ms, cands):
    """candidates listed for an ambiguous key: each is a name (with the key as prefix) of a matching option and every
    matching option is listed."""
    covered = set()
    for cn in cands:
        owners = [i for i in ms if cn in ref.names(i)]
        if not owners or cn[:len(key)] != key:
            return False
        covered.update(owners)
    return covered == set(ms)


def oracle_seq(ref, o, rd):
    """Several names resolved within ONE parser run.  What is demanded (independent of the model): every token resolves exactly as it would
    if it were the only token - by the options that match ITS key in ITS lookup mode (alias lookup for -c, name-or-prefix for --key / a config
    line), whatever was looked up before it: the options found are returned in token order with the token's value; a key that matches nothing
    is left alone with allowUnregistered and UnknownOption otherwise; a key that matches several options is AmbiguousOption; the first such
    error ends the parse."""
    toks, allow, entry = o[1], o[2] != 0, o[3] % 4
    r = rd.num()
    got, cands = None, None
    if r == 0:
        got = []
        for _ in range(rd.num()):
            j = rd.num()
            got.append((j, rd.num()))
    elif r == 2:
        cands = rd.cands()
    modes = [(k, (sh != 0 and entry != 3)) for k, sh in toks]
    if (r == 7) != (not all(spellable(k, sh) for k, sh in modes)):
        return 'parser-sequence-skipped-or-not-skipped-wrongly'
    if r == 7:
        return None
    if not ref.in_domain() or not all(key_in_claim(k, FIND_ALIAS if sh else FIND_NOP) for k, sh in modes):
        return None
    want, err = [], None
    for j, (k, sh) in enumerate(modes):
        t = FIND_ALIAS if sh else FIND_NOP
        ms = ref.matches(k, t)
        if len(ms) == 1:
            want.append((j + 1, ms[0]))
        elif not ms:
            if not allow:
                err = (1, j, k, t, ms)
                break
        else:
            err = (2, j, k, t, ms)
            break
    if err is None:
        if r != 0:
            return 'parser-sequence-every-key-resolvable-but-parse-%s' % {1: 'reported-unknown-option', 2: 'reported-ambiguous-option'}.get(r, 'failed')
        if got != want:
            gd, wd = dict(got), dict(want)
            for j, (k, sh) in enumerate(modes):
                if gd.get(j + 1) != wd.get(j + 1):
                    prev = [q for q in range(j) if modes[q][0] == k and modes[q][1] != sh]
                    if prev and gd.get(j + 1) is not None and gd.get(j + 1) == gd.get(prev[-1] + 1):
                        return 'parser-sequence-key-resolved-to-the-option-of-the-previous-lookup-of-the-same-string-in-another-mode'
                    if wd.get(j + 1) is None:
                        return 'parser-sequence-key-that-matches-nothing-resolved-to-an-option'
                    if gd.get(j + 1) is None:
                        return 'parser-sequence-key-of-one-option-not-resolved'
                    return 'parser-sequence-key-resolved-to-another-option-than-alone'
            return 'parser-sequence-values-out-of-order-or-duplicated'
        return None
    cls, j, k, t, ms = err
    if r == 0:
        return 'parser-sequence-%s-key-accepted' % ('unknown' if cls == 1 else 'ambiguous')
    if r != cls:
        return 'parser-sequence-%s-key-reported-as-%s' % ('unknown' if cls == 1 else 'ambiguous', {1: 'unknown', 2: 'ambiguous'}.get(r, 'failure'))
    if cls == 2 and not check_cands(ref, k, t, ms, cands):
        return 'ambiguous-candidates-are-not-the-matching-options'
    return None


def oracle(c, obs):
    ops = decode(c)
    ref = Ref()
    rd = Reader(obs)
    sig = []
    try:
        for o in ops:
            if o[0] in (1, 2, 3, 9):
                if o[0] == 9:
                    k = max(0, min(o[1], BULK_MAX if not ref.opts and not ref.keys else BULK_SMALL))
                    exp = ref.add_group([78], [(gen_name(j), 0) for j in range(k)])
                elif o[0] == 1:
                    exp = ref.add_group(o[1][0], o[1][1])
                elif o[0] == 2:
                    exp = ref.add_alias(o[1], o[2])
                else:
                    other = Ref()
                    bad = None
                    for g in o[1]:
                        bad = other.add_group(g[0], g[1])
                        if bad is not None:
                            break
                    if bad is not None:
                        if rd.num() != 2:
                            sig.append('other-context-refusal-differs')
                            break
                        continue
                    exp = None
                    for cap, ids in other.groups:
                        exp = ref.add_group(cap, [(other.opts[i][0], other.opts[i][1]) for i in ids])
                        if exp is not None:
                            break
                r, k = rd.add_result()
                if exp is None and r != 0:
                    sig.append('free-name-refused-as-duplicate')
                    break
                if exp is not None and r != 1:
                    sig.append('taken-name-not-refused')
                    break
                continue
            if o[0] == 7:
                # DefaultContext::getOption behind every parser entry point: the error policy differs from find() in ONE point only -
                # with allowUnregistered a key that matches NO option is left alone instead of UnknownOption.  A key that matches SEVERAL
                # options is ambiguous in every lookup mode, through every entry point, with allowUnregistered on and off.
                key, allow, entry = o[1], o[3] != 0, o[4] % 4
                short = o[2] != 0 and entry != 3
                r = rd.num()
                cands = rd.cands() if r == 2 else None
                i = rd.num() if r in (0, 8) else None
                if (r == 7) != (not spellable(key, short)):
                    sig.append('parser-lookup-skipped-or-not-skipped-wrongly')
                    break
                if r == 7:
                    continue
                t = FIND_ALIAS if short else FIND_NOP
                if not (key_in_claim(key, t) and ref.in_domain()):
                    continue
                ms = ref.matches(key, t)
                got = {0: 'resolved-to-one-option', 1: 'reported-unknown', 2: 'reported-ambiguous', 3: 'left-alone-as-unregistered'}.get(r, 'failed')
                if len(ms) > 1:
                    if r == 0 and allow:
                        sig.append('ambiguous-prefix-accepted-with-allow-unregistered')
                    elif r != 2:
                        sig.append('parser-lookup-several-options-match-but-key-%s' % got)
                    elif not check_cands(ref, key, t, ms, cands):
                        sig.append('ambiguous-candidates-are-not-the-matching-options')
                elif len(ms) == 1:
                    if r != 0:
                        sig.append('parser-lookup-one-option-matches-but-key-%s' % got)
                    elif i != ms[0]:
                        sig.append('parser-lookup-returned-the-wrong-option')
                elif r != (3 if allow else 1):
                    sig.append('parser-lookup-no-option-matches-but-key-%s' % got)
                if sig:
                    break
                continue
            if o[0] == 8:
                sg = oracle_seq(ref, o, rd)
                if sg:
                    sig.append(sg)
                    break
                continue
            key, t = o[1], o[2]
            claim = key_in_claim(key, t) and ref.in_domain()
            ms = ref.matches(key, t) if claim else None
            if o[0] == 4:
                r = rd.num()
                cands = rd.cands() if r == 2 else None
                i = rd.num() if r == 0 else None
                if not claim:
                    # known limitation of the CHAR_MAX sentinel (judged only in exactly this shape): a unique option whose
                    # name continues with a byte >= 0x7f behind the key is reported unknown by prefix lookup
                    if key_in_claim(key, t) and t in (FIND_PREFIX, FIND_NOP) and ref.in_domain(hi=255) and r == 1:
                        ms2 = ref.matches(key, t)
                        if len(ms2) == 1 and all(len(x) > len(key) and x[len(key)] >= 127 for x in ref.names(ms2[0]) if x[:len(key)] == key):
                            sig.append('prefix-lookup-misses-name-whose-byte-behind-the-key-is-ge-0x7f')
                            break
                    continue
                if len(ms) == 0 and r != 1:
                    sig.append('no-option-matches-but-find-%s' % {0: 'returned-an-option', 2: 'reported-ambiguous'}.get(r, 'failed'))
                elif len(ms) == 1 and r != 0:
                    sig.append('one-option-matches-but-find-reported-%s' % {1: 'unknown', 2: 'ambiguous'}.get(r, 'failure'))
                elif len(ms) == 1 and i != ms[0]:
                    sig.append('find-returned-the-wrong-option')
                elif len(ms) > 1 and r != 2:
                    sig.append('several-options-match-but-find-%s' % {0: 'returned-one', 1: 'reported-unknown'}.get(r, 'failed'))
                elif len(ms) > 1 and not check_cands(ref, key, t, ms, cands):
                    sig.append('ambiguous-candidates-are-not-the-matching-options')
            elif o[0] == 5:
                i = rd.num()
                if not claim:
                    continue
                if len(ms) == 1 and i != ms[0]:
                    sig.append('tryfind-missed-the-unique-option' if i == -1 else 'tryfind-returned-the-wrong-option')
                elif len(ms) != 1 and i != -1:
                    sig.append('tryfind-returned-an-option-for-a-%s-key' % ('unknown' if not ms else 'ambiguous'))
            elif o[0] == 6:
                m = o[3]
                r = rd.num()
                cands = rd.cands() if r == 2 else None
                ids = [rd.num() for _ in range(rd.num())] if r == 0 else None
                if not claim:
                    continue
                if len(ms) == 0:
                    ok = (r == 1) if (m & 1) else (r == 0 and ids == [])
                elif len(ms) == 1:
                    ok = (r == 0 and ids == ms)
                else:
                    ok = (r == 2 and check_cands(ref, key, t, ms, cands)) if (m & 2) else (r == 0 and set(ids) == set(ms) and len(ids) > 1)
                if not ok:
                    sig.append('findimpl-%s-matches-wrong-result' % ('no' if not ms else 'one' if len(ms) == 1 else 'several'))
            if sig:
                break
        if not sig:
            # final dump: size, groups, index
            size, ng = rd.num(), rd.num()
            groups = []
            if size > DUMP_FULL:
                for _ in range(ng):
                    cap = rd.str()
                    groups.append((cap, rd.num()))
                nkeys = rd.num()
                if size != len(ref.opts):
                    sig.append('option-count-differs')
                elif groups != [(cap, len(ids)) for cap, ids in ref.groups]:
                    sig.append('groups-differ')
                elif nkeys != len(ref.keys - {()}):
                    sig.append('index-is-not-the-set-of-keys-of-the-accepted-options')
                return sig
            for _ in range(ng):
                cap = rd.str()
                groups.append((cap, [rd.str() for _ in range(rd.num())]))
            index = []
            for _ in range(rd.num()):
                k = rd.str()
                index.append((k, rd.num()))
            if size != len(ref.opts):
                sig.append('option-count-differs')
            elif groups != [(cap, [ref.opts[i][0] for i in ids]) for cap, ids in ref.groups]:
                sig.append('groups-differ')
            else:
                exp = []
                for i, (nm, a, ex) in enumerate(ref.opts):
                    exp += [(nm, i)] + [(x, i) for x in ex] + ([([DASH, a], i)] if a else [])
                if sorted(exp) != index:
                    sig.append('index-is-not-the-set-of-keys-of-the-accepted-options')
    except IndexError:
        sig.append('observation-truncated')
    return sig


def nontrivial(c, obs):
    ops = decode(c)
    n = sum(len(o[1][1]) for o in ops if o[0] == 1) + sum(len(g[1]) for o in ops if o[0] == 3 for g in o[1]) + sum(max(0, o[1]) for o in ops if o[0] == 9)
    return n >= 2 and any(o[0] in (4, 5, 6, 7, 8) for o in ops)


# ------------------------------------------------------------------------------------------------ generation
def rname(rnd, alpha, lo=1, hi=5):
    return [rnd.choice(alpha) for _ in range(rnd.randint(lo, hi))]


def keys_for(rnd, ref_names, aliases, alpha, n):
    """keys aimed at the lookup's case splits: names, proper prefixes, extensions, neighbours in sort order."""
    ks = []
    for _ in range(n):
        r = rnd.random()
        if ref_names and r < 0.85:
            nm = list(rnd.choice(ref_names))
            q = rnd.random()
            if q < 0.25:
                k = nm
            elif q < 0.55:
                k = nm[:rnd.randint(1, len(nm))]
            elif q < 0.7:
                k = nm + [rnd.choice(alpha)]
            elif q < 0.8:
                k = nm[:-1] + [max(1, nm[-1] - 1)]
            elif q < 0.9:
                k = nm[:-1] + [min(255, nm[-1] + 1)]
            else:
                k = nm + [126]
            t = rnd.choice([1, 2, 2, 3, 3, 3])
        elif r < 0.95:
            a = rnd.choice(aliases + alpha) if aliases else rnd.choice(alpha)
            k = [a] if rnd.random() < 0.5 else [DASH, a]
            t = 4
        else:
            k = rname(rnd, alpha, 1, 3)
            t = rnd.choice([1, 2, 3, 4])
        ks.append((k, t))
    return ks


def parser_op(rnd, k, t, p_allow=0.6):
    return (7, k, 1 if t == FIND_ALIAS else 0, 1 if rnd.random() < p_allow else 0, rnd.randrange(4))


def lookups(rnd, ks, p_parser=0.25):
    ops = []
    for k, t in ks:
        q = rnd.random()
        if rnd.random() < p_parser and t in (FIND_NOP, FIND_ALIAS) and spellable(k[-1:] if t == FIND_ALIAS else k, t == FIND_ALIAS):
            ops.append(parser_op(rnd, k[-1:] if t == FIND_ALIAS else k, t))
        elif q < 0.45:
            ops.append((4, k, t))
        elif q < 0.7:
            ops.append((5, k, t))
        else:
            ops.append((6, k, t, rnd.choice([0, 1, 2, 3, 3, 2 ** 32 - 1])))
    return ops


def seq_ops(rnd, ns, al, nseq):
    """op 8: 2..6 names resolved within ONE parser run.  Aimed at state carried from one lookup to the next: the SAME key string under different
    lookup modes next to each other (-c then --c, --c then -c), with another token in between (control), the same mode twice (control), a key
    that is an alias character AND the unique prefix / the exact name of another option / a prefix of nothing / an ambiguous prefix, repeated
    keys, allowUnregistered on and off, all four entry points."""
    ops = []
    one = sorted({nm[0] for nm in ns if spellable(nm[:1], True)})                # first letters of names
    achars = sorted({a for a in al if spellable([a], True)})
    chars = sorted(set(one) | set(achars)) or [120]
    for _ in range(nseq):
        toks = []
        for _ in range(rnd.choice([1, 1, 1, 2, 2, 3])):
            q = rnd.random()
            ch = rnd.choice(achars) if (achars and q < 0.6) else rnd.choice(chars) if q < 0.9 else rnd.choice([113, 122, 120])
            shape = rnd.choice(['sl', 'ls', 'sl', 'ls', 'sxl', 'lxs', 'ss', 'll', 'sls', 'lsl', 'sL', 'Ls'])
            other = None
            if ns and rnd.random() < 0.8:
                nm = rnd.choice(ns)
                other = list(nm[:rnd.randint(1, len(nm))])
            for x in shape:
                if x == 's':
                    toks.append(([ch], 1))
                elif x == 'l':
                    toks.append(([ch], 0))
                elif x in 'LS':                     # a longer key that starts with the character
                    cand = [nm for nm in ns if nm[:1] == [ch] and len(nm) > 1]
                    toks.append((list(rnd.choice(cand)) if cand else [ch, 97], 0))
                elif other and spellable(other, False):
                    toks.append((other, 0))
                elif achars:
                    toks.append(([rnd.choice(achars)], 1))
        toks = [(k, sh) for k, sh in toks if spellable(k, sh != 0)][:7]
        if toks:
            ops.append((8, toks, 1 if rnd.random() < 0.45 else 0, rnd.choice([0, 1, 2, 2, 3])))
    return ops


def all_names(ops):
    ns, al = [], []
    for o in ops:
        gs = [o[1]] if o[0] == 1 else o[1] if o[0] == 3 else []
        for g in gs:
            for nm, a in g[1]:
                ns.append(nm)
                if a:
                    al.append(a)
        if o[0] == 2:
            ns.append(o[1])
    return [n for n in ns if n], al


def gen_one(rnd, kind, nkeys):
    AB = [97, 98]
    alpha = {'shared-prefixes': AB, 'prefix-chain': [97], 'boundary-bytes': [97, 1, 126, 125, 2],
             'alias-clash': [97, 98, 99], 'merge': AB + [99], 'alias-names': AB + [110], 'high-bytes': [97, 127, 128, 255, 126],
             'dash-inside': [97, 45, 98], 'parser': [104, 101, 108, 112, 117], 'parser-seq': [120, 118, 113, 97], 'high-alias': AB + [99]}[kind]
    ops = []
    caps = [[], [71], [72]]
    aliases = [0, 0, 0, 120, 121, 122, 97]

    def mkname():
        nm = rname(rnd, alpha)
        if nm[0] == DASH:
            nm[0] = 97
        return nm

    def mkopts(k):
        return [(mkname(), rnd.choice(aliases)) for _ in range(k)]
    if kind == 'prefix-chain':
        base = rname(rnd, [97, 98], 1, 2)
        os_ = [(base + [97] * i, rnd.choice(aliases)) for i in range(rnd.randint(2, 5))]
        rnd.shuffle(os_)
        ops.append((1, (rnd.choice(caps), os_)))
        if rnd.random() < 0.5:
            ops.append((1, (rnd.choice(caps), [(base + [98], 0), (base[:1], 0)])))
    elif kind == 'boundary-bytes':
        base = [97] * rnd.randint(1, 2)
        os_ = [(base + t, 0) for t in ([126], [126, 126], [1], [125], [126, 1], [2, 126]) if rnd.random() < 0.7]
        os_ += mkopts(rnd.randint(0, 2))
        ops.append((1, (rnd.choice(caps), os_)))
    elif kind == 'alias-clash':
        for _ in range(rnd.randint(2, 4)):
            os_ = [(mkname(), rnd.choice([0, 120, 120, 121, 97])) for _ in range(rnd.randint(1, 3))]
            ops.append((1, (rnd.choice(caps), os_)))
            if rnd.random() < 0.3:
                ops += lookups(rnd, [([120], 4), ([DASH, 121], 4), ([97], 4)])
    elif kind == 'parser':
        # names as a program has them: sharing prefixes (help / heuristic), exact names that are prefixes of others (he / help, opt / option /
        # options), alias names (addAlias) that share prefixes with names; looked up through the parsers, allowUnregistered on and off
        words = [S(w) for w in ('help', 'heuristic', 'he', 'hel', 'heu', 'number', 'num', 'nu', 'n', 'opt', 'option', 'options', 'opt-x',
                                'no-opt', 'h', 'verbose', 'version', 'v', 'quiet')]
        pool = rnd.sample(words, rnd.randint(2, 7)) + [mkname() for _ in range(rnd.randint(0, 2))]
        rnd.shuffle(pool)
        cut = rnd.randint(1, len(pool))
        for part in (pool[:cut], pool[cut:]):
            if part:
                ops.append((1, (rnd.choice(caps), [(nm, rnd.choice([0, 0, 104, 110, 118, 120])) for nm in part])))
        for _ in range(rnd.randint(0, 3)):
            base = rnd.choice(pool)
            an = rnd.choice([base[:rnd.randint(1, len(base))] + [rnd.choice(alpha)], rnd.choice(words), S('hilfe'), base + [rnd.choice(alpha)]])
            ops.append((2, an, rnd.randrange(len(pool) + 1)))
    elif kind == 'parser-seq':
        # alias characters that are also the first letter / the unique prefix / the exact one-letter name of ANOTHER option, or the prefix of nothing
        words = [S(w) for w in ('foo', 'x-ray', 'xy', 'verbose', 'version', 'v', 'silent', 'quiet', 'q', 'x', 'help', 'heuristic', 'h', 'number', 'n', 'a', 'all')]
        pool = rnd.sample(words, rnd.randint(2, 7)) + [mkname() for _ in range(rnd.randint(0, 2))]
        rnd.shuffle(pool)
        letters = sorted({nm[0] for nm in pool}) + [120, 118, 113, 104, 110, 122]
        used, os_ = set(), []
        for nm in pool:
            a = 0
            if rnd.random() < 0.65:
                cand = [ch for ch in letters if ch not in used and (ch != nm[0] or rnd.random() < 0.3)]
                if cand:
                    a = rnd.choice(cand)
                    used.add(a)
            os_.append((nm, a))
        cut = rnd.randint(1, len(os_))
        for part in (os_[:cut], os_[cut:]):
            if part:
                ops.append((1, (rnd.choice(caps), part)))
        if rnd.random() < 0.3:
            ops.append((2, rnd.choice([S('xx'), S('vv'), S('q2'), mkname()]), rnd.randrange(len(os_))))
    elif kind == 'high-alias':
        # one-character aliases with the high bit set (char is signed on the harness platform: 0x80..0xff are NEGATIVE chars; seeded C14-r16 tested
        # `alias() > 0`): 0x80 / 0xe9 / 0xff next to 0x7f, 0x7e and ASCII; the same alias twice (within a group, across groups, through a merged
        # context), alias names behind them, lookups by the alias character with and without '-', between the additions and at the end
        HI = [128, 233, 255, 127, 126, 120]
        for _ in range(rnd.randint(2, 4)):
            os_ = [(mkname(), rnd.choice([0] + HI + HI[:3])) for _ in range(rnd.randint(1, 3))]
            if rnd.random() < 0.7:
                ops.append((1, (rnd.choice(caps), os_)))
            else:
                ops.append((3, [(rnd.choice(caps), os_)] + [(rnd.choice(caps), mkopts(rnd.randint(0, 2))) for _ in range(rnd.randint(0, 1))]))
            if rnd.random() < 0.4:
                ops += lookups(rnd, [([rnd.choice(HI)], 4), ([DASH, rnd.choice(HI)], 4), ([rnd.choice(HI[:3])], 4)], 0.1)
            if rnd.random() < 0.3:
                ops.append((2, mkname(), rnd.randint(0, 6)))
        al0 = all_names(ops)[1]
        ops += lookups(rnd, [([a], 4) for a in al0[:4]] + [([DASH, a], 4) for a in al0[:4]], 0.0)
    elif kind == 'merge':
        for _ in range(rnd.randint(1, 3)):
            if rnd.random() < 0.5:
                ops.append((1, (rnd.choice(caps), mkopts(rnd.randint(0, 3)))))
            else:
                ops.append((3, [(rnd.choice(caps), mkopts(rnd.randint(0, 3))) for _ in range(rnd.randint(1, 3))]))
    elif kind == 'alias-names':
        os_ = mkopts(rnd.randint(1, 4))
        ops.append((1, (rnd.choice(caps), os_)))
        for _ in range(rnd.randint(1, 4)):
            i = rnd.randint(0, len(os_))
            nm = os_[min(i, len(os_) - 1)][0]
            q = rnd.random()
            if q < 0.4:
                an = nm[:rnd.randint(1, len(nm))]              # shares a prefix with its own option
            elif q < 0.6:
                an = nm + [rnd.choice(alpha)]
            elif q < 0.8:
                an = list(rnd.choice(os_)[0][:rnd.randint(1, 3)]) + [rnd.choice(alpha)]
            else:
                an = mkname() if rnd.random() < 0.9 else []
            ops.append((2, an, i))
        if rnd.random() < 0.3:
            ops.append((1, (rnd.choice(caps), mkopts(2))))
    else:
        for _ in range(rnd.randint(1, 3)):
            ops.append((1, (rnd.choice(caps), mkopts(rnd.randint(1, 5)))))
        if rnd.random() < 0.3:
            ops.append((2, mkname(), rnd.randint(0, 4)))
    ns, al = all_names(ops)
    if kind == 'parser':
        ks = keys_for(rnd, ns, al, alpha, nkeys)
        ks += [(rnd.choice([S('x'), S('zz'), S('helq'), S('q'), rnd.choice(ns) + S('q')]), FIND_NOP) for _ in range(3)]     # prefixes of nothing
        ks += [(list(nm), FIND_NOP) for nm in ns if any(x != nm and x[:len(nm)] == nm for x in ns)][:4]                       # exact names that are prefixes of others
        amb = sorted({tuple(nm[:j]) for nm in ns for j in range(1, len(nm) + 1) if sum(1 for x in ns if x[:j] == nm[:j]) > 1})
        ks += [(list(rnd.choice(amb)), FIND_NOP) for _ in range(8)] if amb else []                                             # shared prefixes
        rnd.shuffle(ks)
        ops += lookups(rnd, ks, 0.9)
        return encode(ops)
    if kind == 'parser-seq':
        ops += seq_ops(rnd, ns, al, rnd.randint(3, 8))
        ops += lookups(rnd, keys_for(rnd, ns, al, alpha, 4), 0.5)
        return encode(ops)
    ops += lookups(rnd, keys_for(rnd, ns, al, alpha, nkeys))
    if rnd.random() < 0.25:
        ops += seq_ops(rnd, ns, al, rnd.randint(1, 3))
    return encode(ops)


KINDS = ['shared-prefixes', 'prefix-chain', 'boundary-bytes', 'alias-clash', 'merge', 'alias-names', 'alias-names', 'dash-inside', 'high-bytes', 'parser', 'parser', 'parser-seq', 'parser-seq',
         'high-alias', 'high-alias']


def S(s):
    return [ord(ch) for ch in s]


def fixed_cases():
    out = []
    # the probed findings (now repaired in /repo)
    out.append((encode([(1, (S('G'), [(S('number'), 0), (S('other'), 0)])), (2, S('num'), 0),
                        (4, S('nu'), 2), (4, S('nu'), 3), (5, S('nu'), 2), (6, S('nu'), 3, 2), (4, S('n'), 2), (4, S('num'), 1)]), {'kind': 'regress-alias-name-prefix'}))
    out.append((encode([(1, (S('G'), [(S('foo'), 0)])), (1, (S('H'), [(S('foo'), 120)])), (6, S('x'), 4, 0), (1, (S('H'), [(S('bar'), 0)])),
                        (4, S('x'), 4), (5, S('-x'), 4)]), {'kind': 'regress-refused-insert'}))
    out.append((encode([(1, ([], [(S('help'), 104), (S('help2'), 0)])), (5, S('help'), 1), (5, S('help'), 3), (5, S('help'), 2), (2, S('Hilfe'), 0),
                        (5, S('Hilfe'), 1), (4, S('he'), 2), (4, S('h'), 4), (4, S('-h'), 4), (4, S('q'), 4), (4, S('help3'), 3)]), {'kind': 'repo-test-context'}))
    out.append((encode([(1, ([], [([99, 97, 102, 233], 0), (S('other'), 0)])), (4, S('caf'), 2), (4, S('caf'), 3), (4, [99, 97, 102, 233], 1)]), {'kind': 'known-highbyte'}))
    # one-character aliases with the high bit set (negative chars; seeded C14-r16 `alias() > 0`): found by alias lookup with and without '-',
    # by find / tryFind / findImpl, a second option with the same alias is refused (also through a merged context and within one group), the
    # refused group leaves nothing behind, 0x7f / ASCII as controls, an alias name behind such an option
    E9, X80, XFF, X7F = 233, 128, 255, 127
    out.append((encode([(1, (S('G'), [(S('cafe'), E9), (S('low'), X80), (S('del'), X7F), (S('last'), XFF), (S('plain'), 120)])),
                        (4, [E9], 4), (4, [DASH, E9], 4), (5, [X80], 4), (5, [DASH, X80], 4), (6, [XFF], 4, 3), (6, [DASH, XFF], 4, 0), (4, [X7F], 4), (5, [DASH, X7F], 4),
                        (4, S('x'), 4), (4, [234], 4), (5, [DASH, 129], 4), (6, [254], 4, 0),
                        (1, (S('H'), [(S('other'), E9)])), (1, (S('H'), [(S('ok'), 0), (S('other2'), X80)])), (3, [(S('I'), [(S('other3'), XFF)])]),
                        (1, (S('J'), [(S('p'), 200), (S('q'), 200)])), (2, S('kaffee'), 0), (4, S('kaf'), 2), (4, S('caf'), 3), (4, [E9], 4), (4, [200], 4), (5, S('ok'), 1)]),
                {'kind': 'high-alias'}))
    out.append((encode([(1, ([], [(S('a'), E9)])), (1, ([], [(S('b'), E9)])), (4, [E9], 4), (5, [DASH, E9], 4)]), {'kind': 'high-alias'}))
    out.append((encode([(3, [(S('G'), [(S('a'), XFF), (S('b'), X80)])]), (3, [(S('G'), [(S('c'), X80)])]), (6, [X80], 4, 3), (6, [XFF], 4, 3), (4, S('c'), 1)]), {'kind': 'high-alias'}))
    # the parsers (DefaultContext::getOption): --he with help / heuristic is ambiguous through every entry point, allowUnregistered on and off;
    # an exact name that is a prefix of others, a unique prefix, an alias name, an unknown key, the short spelling
    ctx = [(1, (S('Basic'), [(S('help'), 104), (S('heuristic'), 0), (S('he-x'), 0)])), (1, (S('Other'), [(S('opt'), 0), (S('option'), 0), (S('number'), 110)])),
           (2, S('num'), 5), (2, S('hilfe'), 0)]
    for allow in (1, 0):
        out.append((encode(ctx + [(7, S(k), 0, allow, e) for e in range(4) for k in ('he', 'h', 'opt', 'opti', 'nu', 'hi', 'hel', 'zz', 'op', 'heu', 'n')]
                           + [(7, S(k), 1, allow, e) for e in range(4) for k in ('h', 'n', 'x')]), {'kind': 'parser-entry-points'}))
    # several names within ONE parser run: alias x / unique prefix x (x-ray), alias v / exact name v, alias q / prefix of nothing
    sq = [(1, (S('Demo'), [(S('foo'), 120), (S('x-ray'), 0), (S('verbose'), 118), (S('v'), 0), (S('silent'), 113)]))]
    X, V, Q = S('x'), S('v'), S('q')
    for allow in (0, 1):
        out.append((encode(sq + [(8, tk, allow, e) for e in range(4) for tk in (
            [(X, 1), (X, 0)], [(X, 0), (X, 1)], [(V, 1), (V, 0)], [(V, 0), (V, 1)], [(Q, 1), (Q, 0)], [(Q, 0), (Q, 1)],
            [(X, 1), (S('sil'), 0), (X, 0)], [(X, 1), (X, 1), (X, 0), (X, 0), (X, 1)], [(X, 1), (S('x-'), 0), (X, 0), (S('ve'), 0)])]), {'kind': 'parser-sequence-same-key'}))
    return out


def many_options_fixed():
    """Contexts of more than 65536 options (op 9): the option NUMBER an index entry stores must stay exact (seeded C14-r15: key_type narrowed to unsigned short,
    option #n >= 65536 indexed as #(n mod 65536)).  Names with index below / at / above 65535, 65536, 65537; ordinary options and alias names added behind the
    generated ones that share a prefix with option #(n - 65536); the parsers; a control below the boundary; the small / refused forms of op 9."""
    N = gen_name
    out = []
    a = [(9, 65537)] + [(4, N(j), FIND_NAME) for j in (0, 1, 65534, 65535, 65536)] + [
        (5, N(65536), FIND_NOP), (6, N(65536), FIND_PREFIX, 0), (6, N(65535), FIND_NAME, 3), (4, N(65536)[:4], FIND_PREFIX), (5, N(65536)[:4], FIND_PREFIX),
        (7, N(65536), 0, 0, 2), (7, N(65536), 0, 1, 3), (4, N(65537), FIND_NAME), (5, S('o1ekh'), FIND_NOP)]
    out.append(a)
    b = [(9, 65536), (1, (S('G'), [(S('o0000x'), 0), (S('o0001y'), ord('q')), (S('late'), 0)])),
         (4, S('o0000'), FIND_PREFIX), (5, S('o0000'), FIND_PREFIX), (6, S('o0000'), FIND_PREFIX, 0), (4, S('o0000x'), FIND_NAME), (4, S('q'), FIND_ALIAS),
         (4, S('o0001'), FIND_NOP), (4, S('o0001'), FIND_PREFIX), (4, S('o0001y'), FIND_NOP), (5, S('lat'), FIND_PREFIX), (7, S('o0000x'), 0, 1, 0), (7, S('q'), 1, 0, 1),
         (7, S('o0001'), 0, 1, 2), (8, [(S('o0000x'), 0), (S('q'), 1), (S('late'), 0)], 0, 2), (5, S('-q'), FIND_ALIAS)]
    out.append(b)
    c = [(9, 66000), (2, S('zeta'), 65999), (2, S('o1ekgq'), 65536), (2, S('yps'), 464), (2, S('o00cvx'), 65999),
         (4, S('zeta'), FIND_NAME), (4, S('ze'), FIND_PREFIX), (5, S('o1ekg'), FIND_PREFIX), (4, S('yps'), FIND_NOP), (4, S('o00cv'), FIND_PREFIX), (5, S('o00cv'), FIND_PREFIX),
         (6, S('o00cv'), FIND_PREFIX, 1), (4, S('o00cv'), FIND_NOP), (7, S('o00cvx'), 0, 0, 1), (7, S('zet'), 0, 1, 3), (2, S('zeta'), 3), (4, N(65999), FIND_NAME)]
    out.append(c)
    d = [(9, 65535), (1, (S('G'), [(S('aa'), 0), (S('ab'), 0), (S('ac'), ord('c'))])), (3, [(S('H'), [(S('ad'), 0)])]),
         (4, S('aa'), FIND_NAME), (4, S('ab'), FIND_NAME), (4, S('ac'), FIND_NAME), (4, S('ad'), FIND_NAME), (4, S('a'), FIND_PREFIX), (4, S('c'), FIND_ALIAS),
         (5, S('ab'), FIND_NOP), (6, S('a'), FIND_PREFIX, 0), (7, S('ab'), 0, 0, 0), (7, S('c'), 1, 0, 2), (4, N(65534), FIND_NOP), (4, N(65535), FIND_NOP)]
    out.append(d)
    e = [(9, 65000), (1, (S('G'), [(S('o0000x'), 0)])), (4, S('o0000'), FIND_PREFIX), (5, S('o0000x'), FIND_NAME), (4, N(64999), FIND_NAME), (4, N(65000), FIND_NAME),
         (6, S('o0000'), FIND_PREFIX, 0)]
    out.append(e)
    res = [(encode(x), {'kind': 'many-options'}) for x in out]
    # small and refused forms of op 9 (the generic insertion of the model: context not empty; second group refused at its first name)
    small = [[(9, 5), (9, 400), (4, N(3), FIND_NAME), (4, S('o000'), FIND_PREFIX)],
             [(1, (S('G'), [(S('x'), 0)])), (9, 400), (4, N(299), FIND_NAME), (4, N(300), FIND_NAME), (5, S('o008'), FIND_PREFIX), (9, 2)],
             [(1, (S('N'), [(S('o0002'), 0)])), (9, 7), (4, N(1), FIND_NAME), (4, N(2), FIND_NAME)],
             [(9, 0), (9, -3), (9, 40), (2, S('o000'), 39), (4, S('o000'), FIND_NOP), (4, S('o000'), FIND_PREFIX), (4, N(36), FIND_NAME)],
             [(1, (S('N'), [])), (1, (S('M'), [])), (9, 3), (1, (S('N'), [(S('w'), 0)])), (4, S('w'), FIND_NAME)]]
    res += [(encode(x), {'kind': 'generated-options-small'}) for x in small]
    return res


def many_options_random(rnd):
    k = rnd.choice([65536, 65537, 65538, rnd.randint(65530, 65545), rnd.randint(65539, 66200)])
    ops = [(9, k)]
    late = list(range(65536, k))
    near = [j for j in (0, 1, 65534, 65535, 65536, 65537, k - 2, k - 1, k) if j >= 0]
    extra = []
    for _ in range(rnd.randint(0, 3)):
        j = rnd.choice([rnd.randrange(0, 700), rnd.randrange(0, max(1, k - 65536))])
        nm = gen_name(j) + [rnd.choice([120, 121, 95])]
        if nm not in extra:
            extra.append(nm)
    if extra:
        ops.append((1, (S('G'), [(nm, 0) for nm in extra])))
    al = []
    for _ in range(rnd.randint(0, 2)):
        i = rnd.choice(late) if late and rnd.random() < 0.7 else rnd.randrange(0, k)
        nm = rnd.choice([gen_name(i - 65536) + [113] if i >= 65536 else gen_name(i) + [113], S('z') + gen_name(i)[1:]])
        al.append(nm)
        ops.append((2, nm, i))
    keys = [gen_name(j) for j in near] + extra + al + [x[:5] for x in extra] + [x[:5] for x in al if x[0] == 111] + [gen_name(rnd.randrange(0, k)) for _ in range(2)]
    rnd.shuffle(keys)
    for key in keys[:rnd.randint(8, 14)]:
        r = rnd.random()
        t = rnd.choice([FIND_NAME, FIND_PREFIX, FIND_NOP])
        if r < 0.45:
            ops.append((4, key, t))
        elif r < 0.65:
            ops.append((5, key, t))
        elif r < 0.8:
            ops.append((6, key, t, rnd.choice([0, 1, 2, 3])))
        else:
            ops.append((7, key, 0, rnd.randint(0, 1), rnd.randint(0, 3)))
    return encode(ops)


def gen(seed, tier):
    rnd = random.Random(seed * 1000003 + 14)
    total = {'quick': 3000, 'thorough': 100000, 'search': 4000}.get(tier, 3000)
    out = fixed_cases() + many_options_fixed()
    for _ in range({'quick': 2, 'thorough': 10, 'search': 2}.get(tier, 2)):
        out.append((many_options_random(rnd), {'kind': 'many-options'}))
    while len(out) < total:
        kind = rnd.choice(KINDS)
        out.append((gen_one(rnd, kind, rnd.choice([8, 30, 30])), {'kind': kind}))
    return out


def mutate(case, rnd):
    ops = decode(case)
    res = []
    for _ in range(4):
        t = list(ops)
        ns, al = all_names(t)
        t += lookups(rnd, keys_for(rnd, ns, al, [97, 98, 110, 126], 10), 0.5)
        res.append(encode(t))
    return res


def shrink(case, fails):
    ops = decode(case)
    changed = True
    while changed:
        changed = False
        for i in range(len(ops) - 1, -1, -1):
            t = ops[:i] + ops[i + 1:]
            if t and fails(encode(t)):
                ops = t
                changed = True
        for i, o in enumerate(ops):
            if o[0] == 8 and len(o[1]) > 1:
                for j in range(len(o[1]) - 1, -1, -1):
                    t = ops[:i] + [(8, o[1][:j] + o[1][j + 1:], o[2], o[3])] + ops[i + 1:]
                    if fails(encode(t)):
                        ops = t
                        changed = True
                        break
                if changed:
                    break
        for i, o in enumerate(ops):
            if o[0] == 1 and len(o[1][1]) > 1:
                for j in range(len(o[1][1]) - 1, -1, -1):
                    g = (o[1][0], o[1][1][:j] + o[1][1][j + 1:])
                    t = ops[:i] + [(1, g)] + ops[i + 1:]
                    if fails(encode(t)):
                        ops = t
                        changed = True
                        break
                if changed:
                    break
    return encode(ops)


RULE = ('cases = (a sequence of add(group) / addAlias / add(context) calls building an OptionContext through the real API, interleaved with and followed by '
        '8-30 find / tryFind / findImpl(eMask) calls and lookups through the real parser entry points parseCommandLine / parseCommandArray / parseCommandString / '
        'parseCfgFile (DefaultContext::getOption; --key=1, -c1, "key = 1"; allowUnregistered on and off), singly and as SEQUENCES of 1..7 names resolved within one parser run '
        '(token j = --key=j / -cj / "key = j": the same key string under different lookup modes next to each other - -c then --c, --c then -c -, with another token in between and the same '
        'mode twice as controls, keys that are an alias character AND the unique prefix / the exact one-letter name of another option / an ambiguous prefix / a prefix of nothing; every '
        'token must resolve exactly as it would alone)); generators: names over {a,b} sharing prefixes, chains of names that are prefixes of each other, names ending '
        'in bytes 0x01/0x7d/0x7e next to the CHAR_MAX sentinel, alias and name clashes across groups (refusals, then lookups), merged captions and merged contexts, '
        'alias names sharing a prefix with their own option, names containing "-", program-like names (help / heuristic / he, opt / option / options) looked up '
        'through the parsers with ambiguous prefixes, prefixes of nothing, exact names that are prefixes of others and alias names, and (correspondence only) bytes >= 0x7f; ONE-CHARACTER ALIASES WITH THE HIGH BIT SET (kind high-alias, 2/15 of the cases + 3 fixed cases: alias bytes 0x80 / 0xe9 / 0xff - negative chars - next to 0x7f, 0x7e and ASCII; the same alias twice within a group, across groups and through a merged context; alias names behind such options; find / tryFind / findImpl by the alias character with and without "-", between the additions and at the end; judged by the oracle; the short spelling -c of the parsers is skipped for such bytes as not spellable); keys = names, proper prefixes, '
        'extensions, neighbours in sort order, alias characters with and without "-"; non-trivial = at least two options declared and at least one lookup; '
        'contexts of MORE THAN 65536 OPTIONS (op 9: a group of 65535..66200 generated options o0000, o0001, .. added at once, then ordinary options / alias names / merged contexts behind them): names with index '
        '0, 1, 65534..65537, last; late options and alias names sharing a prefix with option #(n-65536); every lookup mode and the parsers; a control below the boundary; small and refused forms of op 9; '
        'distinct = distinct case tuples')
TRUSTED_BASE = ['std::map<std::string,size_t> (ordering, insert, erase, lower_bound, upper_bound) modelled as a strictly sorted association list with linear-scan bounds',
                'props/C14.py reference (brute force over the option list) as oracle on the implementation',
                'tools/consts/C14.py anchors (FindType values, CHAR_MAX of the harness compiler, error-mask bits, shape of findImpl/insertOption, declared type of OptionContext::key_type and the integer limits of the harness compiler)']
ASSUMPTIONS = ['option names and alias names: non-empty, bytes 1..126, not starting with "-"; alias characters in 1..126 and not "-" (bytes >= 0x7f after the key are '
               'outside the CHAR_MAX sentinel argument: correspondence only, not judged by the oracle)',
               'alias characters 0x7f..0xff: outside the domain of the Coq theorems, but generated, compared with the model (which treats the alias as a byte 1..255: key "-c" iff alias != 0) and JUDGED by '
               'the python oracle (refusal of a taken alias, alias lookup with and without "-", final index) - the "-c" key is looked up exactly and never meets the CHAR_MAX sentinel',
               'keys: non-empty; name lookups with keys not starting with "-"; alias lookups with keys "c" or "-c"',
               'alias names (addAlias) count as names of their option for exact AND prefix lookup',
               'names without newline (the harness reads the candidates from the AmbiguousOption message)',
               'contexts of fewer than 2^32 options (every option is a heap object of more than 100 bytes incl. its index node: 2^32 of them are memory-exhaustion scale)']
LEVEL_TEXT = ('Machine-checked proof (Coq): for every context reachable through add(group)/addAlias/add(context) (including refused calls) and every key in the claim, '
              'findImpl/find/tryFind/getOption of the model return exactly the unique matching option, Unknown iff no option matches, Ambiguous with exactly the matching '
              'options as candidates iff several do - an ambiguous key is ambiguous in every lookup mode and through every parser entry point, with allowUnregistered on and off; '
              'several names resolved within one parser run are resolved independently: the run returns, token by token, what the single lookups return (up to the first lookup that throws), '
              'each determined by the options that match its own key in its own lookup mode; '
              'the option number stored in the index (key_type, range generated from the typedef) is exact and injective for every reachable context of at most key_max+1 options, and key_max >= 2^32-1 '
              '(2^32 options are beyond memory-exhaustion scale); the closed form by which the model adds a group of up to 70000 generated options equals the generic add(group) for every count; '
              'the [lower_bound k, upper_bound k.0x7f) range is exactly the set of index entries with prefix k; additions are refused '
              'iff a key is taken and leave the index unchanged. Tested beyond the proved domain (correspondence + oracle, no theorem): alias characters with the high bit set (0x80..0xff) get their "-c" key, are found by alias lookup and refuse a second use. Model tied to the code by differential correspondence incl. a dump of the private index and lookups through the four real parser entry points.')
LEVEL_NOTE = ('Trusted: Coq kernel, extraction+driver (sample cross-checked by vm_compute), harness, translator; std::map modelled; names/keys over bytes 1..126.')
TECHNIQUE = 'Coq proof about an executable model of the sorted index + differential correspondence with the implementation'
DESIGN_REF = 'DESIGN.md section 5, C14'
READY = True
