"""Python side of harness/reuse.h (reader reuse): the same FNV-1a hash of the case, the same "primed" bit and primer choice, and the primer
tables READ FROM harness/reuse.h itself (so the texts cannot drift apart). Used by describe() of the plugins C01, C03, C04, C07, C08, C10.
A correct reader makes every primer invisible: neither the models nor the oracles depend on anything in here."""
import ast
import os
import re

_H = os.path.join(os.path.dirname(os.path.abspath(__file__)), '..', 'harness', 'reuse.h')
_TOK = re.compile(r'"(?:[^"\\]|\\.)*"|[A-Za-z_][A-Za-z_0-9]*|,')


def _lit(tok, macros):
    return ast.literal_eval('b' + tok) if tok.startswith('"') else macros[tok]


def _load():
    src = open(_H).read()
    macros = {}
    for m in re.finditer(r'^#define (RU_[A-Z_]+) ("(?:[^"\\]|\\.)*")\s*$', src, re.M):
        macros[m.group(1)] = ast.literal_eval('b' + m.group(2))
    tabs = {}
    for m in re.finditer(r'static const Primer ([A-Z_]+)\[\] = \{[^\n]*\n(.*?)\n\};', src, re.S):
        rows = []
        for line in m.group(2).split('\n'):
            line = line.strip()
            if not line:
                continue
            if not (line.startswith('{') and line.endswith('},')):
                raise ValueError('harness/reuse.h: unexpected primer table line %r' % line)
            toks = _TOK.findall(line[1:-2])
            k = toks.index(',')
            tag = b''.join(_lit(t, macros) for t in toks[:k])
            text = b''.join(_lit(t, macros) for t in toks[k + 1:])
            rows.append((tag.decode(), text))
        tabs[m.group(1)] = rows
    for need in ('ASPIF_PRIMERS', 'SMODELS_PRIMERS', 'SMODELS_EXT_PRIMERS', 'TEXT_PRIMERS'):
        if not tabs.get(need):
            raise ValueError('harness/reuse.h: primer table %s not found' % need)
    return tabs


TABLES = _load()


def fnv(c):
    h = 1469598103934665603
    for x in c:
        h = ((h ^ (x & 0xFFFFFFFFFFFFFFFF)) * 1099511628211) & 0xFFFFFFFFFFFFFFFF
    return h


def primed(c):
    """bit 17 of the hash over ALL integers of the case: every other case is read by a reader OBJECT that has read / refused a primer before"""
    return bool((fnv(c) >> 17) & 1)


def pick(c, n):
    return (fnv(c) >> 20) % n


def primer(c, fmt, clasp_ext=False):
    """(table name, index, tag, text) of the primer harness/reuse.h uses for case c; fmt in 'aspif' | 'smodels' | 'text'"""
    if fmt == 'aspif':
        name, k = 'ASPIF_PRIMERS', pick(c, len(TABLES['ASPIF_PRIMERS']))
    elif fmt == 'text':
        name, k = 'TEXT_PRIMERS', pick(c, len(TABLES['TEXT_PRIMERS']))
    else:
        n = len(TABLES['SMODELS_PRIMERS'])
        k = pick(c, n + (len(TABLES['SMODELS_EXT_PRIMERS']) if clasp_ext else 0))
        name = 'SMODELS_PRIMERS'
        if k >= n:
            name, k = 'SMODELS_EXT_PRIMERS', k - n
    tag, text = TABLES[name][k]
    return name, k, tag, text


def reader(c, fmt, clasp_ext=False):
    """text for describe(): which reader object read the case"""
    if not primed(c):
        return 'fresh'
    name, k, tag, text = primer(c, fmt, clasp_ext)
    shown = text if len(text) <= 120 else text[:100] + b'...(%d bytes)' % len(text)
    return 'reused(after primer %s[%d] %s = %r)' % (name, k, tag, shown)
