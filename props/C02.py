"""C02 - aspif -> smodels conversion preserves answer sets, optimisation and externals.

Case: [mode, ext, items...]   mode 0 = SmodelsConvert in front of a Recorder, 1 = Recorder + real SmodelsOutput(os, ext, 0),
2 = as 1 and the oracle additionally runs the real `lpconvert` binary on the same program written as aspif text;
item = encoded AbstractProgram call (props/calls.py) | 30 lit (SmodelsConvert::get) | 31 atom (getName).
Observation: see harness/h_c02.cpp.

The oracle never looks at the Coq model. It judges what the implementation emitted:
  * a brute-force python implementation of the reference semantics (stable models via the reduct, choice / disjunctive heads,
    weight bodies, externals, compute as filter, minimize cost per priority, shown names) is run on the ORIGINAL program and on
    the EMITTED program (decoded from the recorder output) and the two are compared through the atom mapping reported by get();
  * the SAME comparison is run END TO END on the text the real SmodelsOutput wrote behind the real SmodelsConvert (modes 1, 2): the
    text is read back by an independent python reader of the smodels numeric format (read_smodels: rule types 1 2 3 5 6 8 / 90 91 92,
    symbol table, B+/B-, E) into the same program representation; signatures carry the prefix `text:` (the call-level judgement
    cannot see which rule type the writer picks for a call or what it drops - seeded change C02-r3);
  * the mapping is checked directly (injective, >= 2, stable over the whole case, disjoint from auxiliary atoms);
  * errors: an independent statement of which inputs smodels cannot carry in the given mode;
  * lpconvert: stdout / exit status against the API path.
"""
import random, os, sys, subprocess, tempfile
from props import calls as K

PID = 'C02'
HARNESS = 'h_c02'
HARNESS_EXTRA = ('rec.h',)
MODEL_MODULE = 'V.C02.Model'
INT_MAX = 2 ** 31 - 1
INT_MIN = -2 ** 31
THEORY = (13, 14, 15, 16, 17, 18)
HELPER_PREFIXES = (b'_heuristic(', b'_edge(', b'_atom(')
SEM_MAX_ATOMS = 13      # atoms of the emitted program up to which the brute-force comparison is run

RULE = ('cases = (mode, clasp extensions on/off, a well-formed call sequence init/(begin, directives, end){1..3} with get/getName probes); '
        'directives: rules with disjunctive/choice/empty heads x normal/weight bodies (bounds -2..sum+1, weights 0..3 and 2^31-1; a dedicated stream of '
        'weight bodies with all weights in {0,1}: all 1 / one 0 among 1s / all 0 / mixed, heads single / empty / choice / proper disjunction, bounds at '
        '(number of 1s)+-1 and at the literal count, body atoms free, every atom shown), minimize '
        'with negative weights / repeated priorities / INT_MIN / INT_MAX, outputs with empty/negative/compound/repeated conditions and repeated '
        'names, externals of all four values before/after a defining rule and repeated, heuristic/edge/project/assume/theory for the error side; '
        'in modes 1 and 2 the written smodels text is read back and judged like the emitted calls; '
        'non-trivial = the semantic comparison ran on a program with at least one stable model, or an expected error was observed, or lpconvert was compared; '
        'distinct = distinct case tuples')
TRUSTED_BASE = ['props/C02.py reference semantics and brute-force enumerator (oracle on the implementation)',
                'props/C02.py read_smodels: python reader of the smodels numeric format used to judge the written text',
                'coq/C02/Sem.v reference semantics of ground programs (a definition, read it)',
                'StringBuilder::appendFormat modelled as ideal sprintf; std::sort on <= 16 symbols = insertion sort (stable)',
                'SmodelsOutput modelled only as an acceptance automaton (its text is C05); the oracle reads the written text back and judges it semantically; '
                'lpconvert text compared byte-for-byte with the API path by the oracle']
ASSUMPTIONS = ['fewer than 2^28 smodels atoms are created (next_ < 2^28; beyond it the 28-bit smId field wraps) - hypothesis of every theorem',
               'input atoms small enough for atoms_.resize (memory), literals != INT_MIN, enum arguments within their enum',
               'rule-body weights >= 0 (aspif contract) for every semantic statement; names without NUL bytes',
               'call sequences follow the AbstractProgram protocol (init, then begin/directives/end per step)']


# ------------------------------------------------------------------------------------------------
# decoding
# ------------------------------------------------------------------------------------------------
def decode(case):
    """-> mode, ext, items  with items = ('call', tuple) | ('get', lit) | ('name', atom)"""
    mode, ext = case[0], case[1]
    rest = list(case[2:])
    items = []
    while rest:
        if rest[0] == 30 and len(rest) >= 2:
            items.append(('get', rest[1])); rest = rest[2:]
        elif rest[0] == 31 and len(rest) >= 2:
            items.append(('name', rest[1])); rest = rest[2:]
        else:
            cs, tail = K.dec_all(rest)
            # dec_all decodes greedily; stop at the first probe tag
            if not cs:
                break
            items.append(('call', cs[0]))
            rest = rest[len(K.enc(cs[0])):]
    return mode, ext, items


def encode(mode, ext, items):
    out = [mode, ext]
    for k, v in items:
        if k == 'call':
            out += K.enc(v)
        elif k == 'get':
            out += [30, v]
        else:
            out += [31, v]
    return out


def parse_obs(obs):
    ev = []
    p = list(obs)
    while p:
        cs, rest = K.dec_all(p)
        ev += [('call', c) for c in cs]
        if not rest:
            break
        t = rest[0]
        if t == 20 and len(rest) >= 2:
            ev.append(('max', rest[1])); p = rest[2:]
        elif t == 21 and len(rest) >= 2:
            ev.append(('err', rest[1])); p = rest[2:]
        elif t == 22 and len(rest) >= 2:
            n = rest[1]
            ev.append(('text', bytes(x & 255 for x in rest[2:2 + n]))); p = rest[2 + n:]
        elif t == 30 and len(rest) >= 2:
            ev.append(('get', rest[1])); p = rest[2:]
        elif t == 31 and len(rest) >= 2:
            n = rest[1]
            if n < 0:
                ev.append(('name', None)); p = rest[2:]
            else:
                ev.append(('name', bytes(x & 255 for x in rest[2:2 + n]))); p = rest[2 + n:]
        else:
            ev.append(('garbage', rest[:6]))
            break
    return ev


def strip_text(obs):
    """observation without the trailing `22 len bytes` block (the model does not produce the writer's text)"""
    ev_pos = None
    p = 0
    obs = list(obs)
    # find the last top-level 22 marker by re-parsing
    q = obs
    consumed = 0
    while q:
        cs, rest = K.dec_all(q)
        consumed += len(q) - len(rest)
        if not rest:
            break
        t = rest[0]
        if t in (20, 21, 30):
            step = 2
        elif t == 31:
            step = 2 + max(rest[1], 0)
        elif t == 22:
            return obs[:consumed]
        else:
            break
        consumed += step
        q = rest[step:]
    return obs


def obs_equal(case, impl, model):
    return strip_text(impl) == list(model)


def align(items, ev):
    """per input item: dict(out=[calls], max=, err=, get=, name=); plus text.  None if the observation is malformed."""
    res = []
    i = 0
    text = None
    ended = False
    for k, v in items:
        if ended:
            res.append(None)
            continue
        if i >= len(ev):
            return None, None
        if k == 'get':
            if ev[i][0] != 'get':
                return None, None
            res.append({'get': ev[i][1]}); i += 1
        elif k == 'name':
            if ev[i][0] != 'name':
                return None, None
            res.append({'name': ev[i][1]}); i += 1
        else:
            out = []
            while i < len(ev) and ev[i][0] == 'call':
                out.append(ev[i][1]); i += 1
            if i >= len(ev):
                return None, None
            if ev[i][0] == 'max':
                res.append({'out': out, 'max': ev[i][1]}); i += 1
            elif ev[i][0] == 'err':
                res.append({'out': out, 'err': ev[i][1]}); i += 1
                ended = True
            else:
                return None, None
    if i < len(ev) and ev[i][0] == 'text':
        text = ev[i][1]; i += 1
    if i != len(ev):
        return None, None
    return res, text


# ------------------------------------------------------------------------------------------------
# reference semantics (python, brute force)
# ------------------------------------------------------------------------------------------------
class Prog:
    def __init__(self):
        self.rules = []      # (ht, [head], ('n', [lits]) | ('w', bound, [(lit, w)]))
        self.ext = {}        # atom -> value (last one wins)
        self.assume = []     # literals (filter)
        self.mins = []       # (prio, [(lit, w)]) in order
        self.outs = []       # (name, [lits])
        self.negw = False

    def add(self, c):
        t = c[0]
        if t == 4:
            self.rules.append((c[1], list(c[2]), ('n', list(c[3]))))
        elif t == 5:
            if any(w < 0 for _, w in c[4]):
                self.negw = True
            self.rules.append((c[1], list(c[2]), ('w', c[3], list(c[4]))))
        elif t == 6:
            self.mins.append((c[1], list(c[2])))
        elif t == 8:
            self.outs.append((bytes(c[1]), list(c[2])))
        elif t == 9:
            self.ext[c[1]] = c[2]
        elif t == 10:
            self.assume += list(c[1])

    def atoms(self):
        s = set()
        for ht, h, b in self.rules:
            s.update(h)
            s.update(abs(l) for l in (b[1] if b[0] == 'n' else [x for x, _ in b[2]]))
        for _, ls in self.mins:
            s.update(abs(l) for l, _ in ls)
        for _, ls in self.outs:
            s.update(abs(l) for l in ls)
        s.update(self.ext)
        s.update(abs(l) for l in self.assume)
        return s

    def heads(self):
        s = set()
        for ht, h, b in self.rules:
            s.update(h)
        return s


def stable_models(P, atoms):
    """all stable models (frozensets) of rules + externals of P over `atoms`, filtered by P.assume"""
    atoms = sorted(atoms)
    idx = {a: i for i, a in enumerate(atoms)}
    n = len(atoms)
    heads = P.heads()
    rules = []
    for ht, h, b in P.rules:
        hm = [1 << idx[a] for a in h]
        if b[0] == 'n':
            pos = [1 << idx[l] for l in b[1] if l > 0]
            neg = [1 << idx[-l] for l in b[1] if l < 0]
            rules.append((ht, hm, 0, len(pos) + len(neg), [(m, 1) for m in pos], [(m, 1) for m in neg], True))
        else:
            pos = [(1 << idx[l], w) for l, w in b[2] if l > 0]
            neg = [(1 << idx[-l], w) for l, w in b[2] if l < 0]
            rules.append((ht, hm, 1, b[1], pos, neg, False))
    for a, v in P.ext.items():
        if a in heads:
            continue
        if v == 0:
            rules.append((1, [1 << idx[a]], 0, 0, [], [], True))
        elif v == 1:
            rules.append((0, [1 << idx[a]], 0, 0, [], [], True))

    def body(r, X, Y):
        s = 0
        for m, w in r[4]:
            if Y & m:
                s += w
        for m, w in r[5]:
            if not X & m:
                s += w
        return s >= r[3]

    def model(X, Y):
        for r in rules:
            if body(r, X, Y):
                if r[0] == 0:
                    if not any(Y & m for m in r[1]):
                        return False
                else:
                    for m in r[1]:
                        if X & m and not Y & m:
                            return False
        return True
    res = []
    for X in range(1 << n):
        # supportedness pre-filter
        sup = 0
        for r in rules:
            if body(r, X, X):
                for m in r[1]:
                    sup |= m
        if X & ~sup:
            continue
        if not model(X, X):
            continue
        Y = (X - 1) & X
        ok = True
        while X:
            if model(X, Y):
                ok = False
                break
            if Y == 0:
                break
            Y = (Y - 1) & X
        if not ok:
            continue
        S = frozenset(atoms[i] for i in range(n) if X >> i & 1)
        if all((l > 0 and l in S) or (l < 0 and -l not in S) for l in P.assume):
            res.append(S)
    return res


_SM = {}


def stable_models_memo(P, atoms):
    """stable_models is a function of the rules up to the order of body literals (sums commute): the call-level program and the
    program read back from the written text are usually equal in that sense, so the enumeration is shared"""
    key = (tuple(sorted(atoms)),
           tuple((ht, tuple(h), (b[0], tuple(sorted(b[1]))) if b[0] == 'n' else (b[0], b[1], tuple(sorted(b[2])))) for ht, h, b in P.rules),
           tuple(sorted(P.ext.items())), tuple(P.assume))
    if key not in _SM:
        if len(_SM) > 20000:
            _SM.clear()
        _SM[key] = stable_models(P, atoms)
    return _SM[key]


def holds(l, S):
    return (l in S) if l > 0 else (-l not in S)


def shown(P, S, drop_helpers):
    r = set()
    for name, cond in P.outs:
        if drop_helpers and name.startswith(HELPER_PREFIXES):
            continue
        if all(holds(l, S) for l in cond):
            r.add(name)
    return r


def cost(lits, S):
    return sum(w for l, w in lits if holds(l, S))


# ------------------------------------------------------------------------------------------------
# expectations on errors
# ------------------------------------------------------------------------------------------------
def unsupported(c, mode, ext):
    """does this input call make the conversion fail in this mode (independent statement of the property's error side)"""
    t = c[0]
    if t in (7, 10) or t in THEORY:
        return True
    if t == 6 and any(w == INT_MIN for _, w in c[2]):
        return True
    if mode == 0:
        return False
    if t in (11, 12) and not ext:
        return True
    if t == 1 and c[1] and not ext:
        return True
    if t == 5 and c[3] < 0 and (c[2] or c[1] == 0):
        return True
    return False


def wf_trace(calls):
    st = 0   # 0 = before init, 1 = between steps, 2 = inside a step
    for c in calls:
        if c[0] == 1:
            if st != 0:
                return False
            st = 1
        elif c[0] == 2:
            if st != 1:
                return False
            st = 2
        elif c[0] == 3:
            if st != 2:
                return False
            st = 1
        elif st != 2:
            return False
    return st == 1


# ------------------------------------------------------------------------------------------------
# aspif text + lpconvert
# ------------------------------------------------------------------------------------------------
def aspif_text(calls):
    out = []
    for c in calls:
        t = c[0]
        if t == 1:
            out.append(b'asp 1 0 0' + (b' incremental' if c[1] else b''))
        elif t == 2:
            pass
        elif t == 3:
            out.append(b'0')
        elif t == 4:
            out.append(('1 %d %d %s 0 %d %s' % (c[1], len(c[2]), ' '.join(map(str, c[2])), len(c[3]), ' '.join(map(str, c[3])))).encode())
        elif t == 5:
            out.append(('1 %d %d %s 1 %d %d %s' % (c[1], len(c[2]), ' '.join(map(str, c[2])), c[3], len(c[4]),
                                                 ' '.join('%d %d' % x for x in c[4]))).encode())
        elif t == 6:
            out.append(('2 %d %d %s' % (c[1], len(c[2]), ' '.join('%d %d' % x for x in c[2]))).encode())
        elif t == 7:
            out.append(('3 %d %s' % (len(c[1]), ' '.join(map(str, c[1])))).encode())
        elif t == 8:
            out.append(b'4 %d ' % len(c[1]) + bytes(c[1]) + (' %d %s' % (len(c[2]), ' '.join(map(str, c[2])))).encode())
        elif t == 9:
            out.append(('5 %d %d' % (c[1], c[2])).encode())
        elif t == 10:
            out.append(('6 %d %s' % (len(c[1]), ' '.join(map(str, c[1])))).encode())
        elif t == 11:
            out.append(('7 %d %d %d %d %d %s' % (c[2], c[1], c[3], c[4], len(c[5]), ' '.join(map(str, c[5])))).encode())
        elif t == 12:
            out.append(('8 %d %d %d %s' % (c[1], c[2], len(c[3]), ' '.join(map(str, c[3])))).encode())
        else:
            return None
    return b'\n'.join(b' '.join(l.split(b' ')) if False else l for l in out) + b'\n'


def aspif_faithful(calls):
    """can the aspif reader be expected to deliver exactly these calls (so that lpconvert sees the same program)"""
    for c in calls:
        t = c[0]
        if t in THEORY:
            return False
        if t in (4, 5) and (any(a < 1 for a in c[2])):
            return False
        if t == 4 and any(l == 0 for l in c[3]):
            return False
        if t == 5 and any(l == 0 or w <= 0 for l, w in c[4]):   # the aspif reader's RuleBuilder drops zero-weight literals
            return False
        if t == 6 and any(l == 0 or w == 0 for l, w in c[2]):
            return False
        if t == 8 and (any(b in (0, 10, 13) for b in c[1]) or any(l == 0 for l in c[2])):
            return False
        if t == 9 and c[1] < 1:
            return False
        if t in (7,) and any(a < 1 for a in c[1]):
            return False
        if t == 11 and (c[1] < 1 or not 0 <= c[4] <= INT_MAX or any(l == 0 for l in c[5])):
            return False
        if t == 12 and (c[1] < 0 or c[2] < 0 or any(l == 0 for l in c[3])):
            return False
    return True


_LPC = {}


def lpconvert_exe():
    if 'exe' not in _LPC:
        try:
            sys.path.insert(0, os.path.join(os.path.dirname(os.path.dirname(os.path.abspath(__file__))), 'tools'))
            import check as drv
            exe, err = drv.build_lpconvert()
            _LPC['exe'] = exe
            _LPC['env'] = dict(os.environ, **drv.SAN_ENV)
            _LPC['err'] = err
        except Exception as e:  # the driver decides what a missing binary means (signature below)
            _LPC['exe'] = None
            _LPC['err'] = repr(e)
    return _LPC['exe']


def run_lpconvert(text, ext):
    exe = lpconvert_exe()
    if not exe:
        return None
    try:
        p = subprocess.run([exe] + (['-p'] if ext else []), input=text, stdout=subprocess.PIPE, stderr=subprocess.PIPE, timeout=30, env=_LPC['env'])
    except subprocess.TimeoutExpired:
        return ('timeout', b'', b'')
    return (p.returncode, p.stdout, p.stderr)


# ------------------------------------------------------------------------------------------------
# independent reader of the smodels numeric format (the WRITTEN program is what the property is about)
# ------------------------------------------------------------------------------------------------
class SmError(Exception):
    pass


def read_smodels(data):
    """smodels text (bytes) -> list of call tuples in the alphabet of props/calls.py, the same representation Prog.add consumes:
    (1, incremental) then per step (2,), rules, minimize statements (priority = position within the step, first = 0), symbol table
    entries (8, name, [atom]), the compute statement as ONE (10, [lits]) (B+ a -> a must hold, B- a -> a must not hold; as a filter on
    stable models this is the constraint reading), externals (`91 a v` / `92 a` / E section) as (9, atom, Value_t), (3,).
    Rule types 1 2 3 5 6 8 and 90 91 92; anything else raises SmError.  Written from the format description (lparse manual + the
    clasp extensions), not from the C++ reader."""
    d = bytes(data)
    n = len(d)
    pos = [0]

    def ws():
        while pos[0] < n and d[pos[0]] in b' \t\r\n':
            pos[0] += 1

    def num(what):
        ws()
        i = pos[0]
        while pos[0] < n and 48 <= d[pos[0]] <= 57:
            pos[0] += 1
        if i == pos[0]:
            raise SmError(what + '-expected')
        return int(d[i:pos[0]])

    def atom(what):
        a = num(what)
        if not 1 <= a <= INT_MAX:
            raise SmError(what + '-out-of-range')
        return a

    def atoms_until_zero(what):
        r = []
        while True:
            a = num(what)
            if a == 0:
                return r
            if a > INT_MAX:
                raise SmError(what + '-out-of-range')
            r.append(a)

    def body_lits(ln, neg):
        if neg > ln or ln > n:
            raise SmError('body-counts')
        at = [atom('body-atom') for _ in range(ln)]
        return [-a if i < neg else a for i, a in enumerate(at)]

    def token(t):
        ws()
        if d[pos[0]:pos[0] + len(t)] != t:
            raise SmError(t.decode() + '-expected')
        pos[0] += len(t)

    calls = []
    inc = False
    steps = 0
    while True:
        ws()
        if pos[0] >= n:
            break
        if steps and not inc:
            raise SmError('input-after-program')
        step = [(2,)]
        prio = 0
        first = True
        while True:
            rt = num('rule-type')
            if rt == 0:
                break
            if rt == 1:
                h = atom('head-atom')
                ln, neg = num('len'), num('neg')
                step.append((4, 0, [h], body_lits(ln, neg)))
            elif rt in (3, 8):
                hn = num('head-size')
                if not 1 <= hn <= n:
                    raise SmError('head-size')
                hs = [atom('head-atom') for _ in range(hn)]
                ln, neg = num('len'), num('neg')
                step.append((4, 1 if rt == 3 else 0, hs, body_lits(ln, neg)))
            elif rt == 2:
                h = atom('head-atom')
                ln, neg, bound = num('len'), num('neg'), num('bound')
                step.append((5, 0, [h], bound, [(l, 1) for l in body_lits(ln, neg)]))
            elif rt in (5, 6):
                h = atom('head-atom') if rt == 5 else None
                bound, ln, neg = num('bound'), num('len'), num('neg')
                ls = body_lits(ln, neg)
                ws_ = [num('weight') for _ in ls]
                if rt == 5:
                    step.append((5, 0, [h], bound, list(zip(ls, ws_))))
                else:
                    step.append((6, prio, list(zip(ls, ws_))))
                    prio += 1
            elif rt == 90:
                if num('increment') != 0 or not first:
                    raise SmError('increment-rule')
                inc = True
            elif rt == 91:
                a = atom('external-atom')
                v = num('external-value')
                if v not in (0, 1, 2):
                    raise SmError('external-value')
                step.append((9, a, {0: 2, 1: 1, 2: 0}[v]))      # file: 0 false, 1 true, 2 free;  Value_t: 0 free, 1 true, 2 false
            elif rt == 92:
                step.append((9, atom('external-atom'), 3))
            else:
                raise SmError('unknown-rule-type-%d' % rt)
            first = False
        if steps and not inc:
            raise SmError('input-after-program')
        # symbol table: `atom SP name LF` per line, terminated by a line `0`
        while True:
            a = num('symbol-atom')
            if a == 0:
                break
            if a > INT_MAX or pos[0] >= n or d[pos[0]] != 32:
                raise SmError('symbol-line')
            e = d.find(b'\n', pos[0])
            if e < 0:
                raise SmError('symbol-name-unterminated')
            step.append((8, d[pos[0] + 1:e], [a]))
            pos[0] = e + 1
        token(b'B+')
        comp = atoms_until_zero('compute-atom')
        token(b'B-')
        comp += [-a for a in atoms_until_zero('compute-atom')]
        step.append((10, comp))
        ws()
        if pos[0] < n and d[pos[0]] == 69:      # E section: atoms left open (free externals)
            pos[0] += 1
            step += [(9, a, 0) for a in atoms_until_zero('external-section-atom')]
        num('number-of-models')
        step.append((3,))
        calls += step
        steps += 1
    return [(1, inc)] + calls


# ------------------------------------------------------------------------------------------------
# the oracle
# ------------------------------------------------------------------------------------------------
_CACHE = {}


def judge(case, obs):
    key = (tuple(case), tuple(obs))
    if key in _CACHE:
        return _CACHE[key]
    r = _judge(case, obs)
    if len(_CACHE) > 200000:
        _CACHE.clear()
    _CACHE[key] = r
    return r


def _judge(case, obs):
    sig = []
    info = {'sem': False, 'models': 0, 'err': False, 'lpc': False, 'text': False}
    mode, ext, items = decode(case)
    ext = 1 if ext else 0
    ev = parse_obs(obs)
    res, text = align(items, ev)
    if res is None:
        return ['harness:malformed-observation'], info
    calls = [v for k, v in items if k == 'call']
    wf = wf_trace(calls)

    # ---- errors -------------------------------------------------------------------------------
    err_at = None
    for i, r in enumerate(res):
        if r is not None and 'err' in r:
            err_at = i
    exp_at = None
    for i, (k, v) in enumerate(items):
        if k == 'call' and unsupported(v, mode, ext):
            exp_at = i
            break
    if wf:
        if exp_at is not None and err_at is None:
            sig.append('error:unsupported-input-converted-silently:' + K.NAMES.get(items[exp_at][1][0], '?'))
        elif exp_at is None and err_at is not None:
            sig.append('error:supported-input-rejected:' + K.NAMES.get(items[err_at][1][0], '?'))
        elif exp_at is not None and err_at != exp_at:
            sig.append('error:reported-at-the-wrong-call')
        if err_at is not None and res[err_at]['err'] != 1:
            sig.append('error:unexpected-exception-class-%d' % res[err_at]['err'])
        if exp_at is not None and err_at == exp_at:
            info['err'] = True

    # ---- the atom mapping, checked directly ----------------------------------------------------
    gmap = {}
    emitted = []
    aux_heads = set()
    lastmax = 1
    for (k, v), r in zip(items, res):
        if r is None:
            break
        if k == 'get':
            a, x = abs(v), r['get']
            if (x < 0) != (v < 0) or x == 0:
                sig.append('map:get-changes-the-sign')
            x = abs(x)
            if a in gmap and gmap[a] != x:
                sig.append('map:image-of-an-atom-changed')
            gmap.setdefault(a, x)
            if x < 2:
                sig.append('map:atom-mapped-to-%d' % x)
            lastmax = max(lastmax, x)   # get() may itself create the image
        elif k == 'call':
            emitted += r['out']
            if 'max' in r:
                if r['max'] < lastmax:
                    sig.append('map:maxAtom-decreased')
                lastmax = max(lastmax, r['max'])
    inv = {}
    for a, x in gmap.items():
        if x in inv:
            sig.append('map:two-atoms-share-an-image')
        inv[x] = a
    for (k, v), r in zip(items, res):
        if r is None or k != 'call' or 'max' not in r:
            continue
        for c in r['out']:
            ats = []
            if c[0] == 4:
                ats = list(c[2]) + [abs(l) for l in c[3]]
            elif c[0] == 5:
                ats = list(c[2]) + [abs(l) for l, _ in c[4]]
            elif c[0] == 6:
                ats = [abs(l) for l, _ in c[2]]
            elif c[0] == 8:
                ats = [abs(l) for l in c[2]]
            elif c[0] == 9:
                ats = [c[1]]
            if any(a < 1 or a > r['max'] for a in ats):
                sig.append('map:emitted-atom-outside-1..maxAtom')

    # ---- shape of the emitted program (what smodels can carry) ----------------------------------
    if wf and err_at is None and not any(k == 'call' and unsupported(v, 1, ext) for k, v in items):
        for c in emitted:
            if c[0] in (4, 5) and not c[2]:
                sig.append('shape:rule-with-empty-head-emitted')
            if c[0] == 5 and (c[1] != 0 or len(c[2]) != 1 or c[3] < 0):
                sig.append('shape:weight-rule-not-expressible')
            if c[0] == 6 and any(w < 0 for _, w in c[2]):
                sig.append('shape:negative-minimize-weight-emitted')
            if c[0] == 8 and (len(c[2]) != 1 or c[2][0] <= 0):
                sig.append('shape:general-output-condition-emitted')
            if c[0] == 9 and not ext:
                sig.append('shape:external-emitted-without-extensions')

    # ---- semantics -------------------------------------------------------------------------------
    complete = wf and err_at is None and exp_at is None and all(r is not None for r in res)
    if complete and calls:
        sig += semantic(calls, emitted, gmap, ext, info)
    # ---- the same judgement on the WRITTEN program (the text the real SmodelsOutput produced behind the real converter) -------
    # the call-level comparison above cannot see what the writer makes of a call (which rule type it picks, what it drops)
    if complete and calls and text is not None:
        sig += written_check(calls, text, gmap, ext, info, 'text')

    # ---- lpconvert ---------------------------------------------------------------------------------
    if mode == 2 and wf and aspif_faithful(calls) and text is not None:
        at = aspif_text(calls)
        if at is not None:
            r = run_lpconvert(at, ext)
            if r is None:
                sig.append('harness:lpconvert-not-built')
            else:
                info['lpc'] = True
                rc, out, errtxt = r
                if rc not in (0, 1):
                    sig.append('lpconvert:crash-or-timeout')
                elif (rc != 0) != (err_at is not None):
                    sig.append('lpconvert:exit-status-differs-from-api-path')
                elif rc == 0 and out != text:
                    sig.append('lpconvert:output-differs-from-api-path')
                    if complete and calls:      # (equal texts: the judgement on `text` above IS the judgement on lpconvert's output)
                        sig += written_check(calls, out, gmap, ext, {}, 'lpconvert-text')
                elif rc != 0 and b'ERROR' not in errtxt:
                    sig.append('lpconvert:failure-without-a-reported-error')
    out = []
    for s in sig:
        if s not in out:
            out.append(s)
    return out, info


def written_check(calls, text, gmap, ext, info, tag):
    """read the written smodels text back with the independent reader and judge it exactly like the emitted calls"""
    if any(c[0] == 8 and (10 in bytes(c[1]) or 0 in bytes(c[1])) for c in calls):
        return []       # a name with LF / NUL cannot be carried by the line-based symbol table (names are C strings): not judged
    try:
        written = read_smodels(text)
    except SmError as e:
        return ['%s:written-program-unreadable:%s' % (tag, e)]
    sub = {}
    sig = ['%s:%s' % (tag, x) for x in semantic(calls, written, gmap, ext, sub, ordinal=True)]
    if sub.get('sem'):
        info['text'] = True
    return sig


def semantic(calls, emitted, gmap, ext, info, ordinal=False):
    """`emitted` = the calls the converter made on its output object, or (ordinal=True) the program READ BACK from the text the
    writer produced: there a minimize statement carries no priority, its position within the step is its rank (first = least
    significant), so the k-th statement is compared with the k-th smallest input priority."""
    sig = []
    nsteps = sum(1 for c in calls if c[0] == 3)
    if not ext and nsteps > 1:
        # smodels format without extensions has no steps (SmodelsOutput rejects initProgram(true)): a multi-step run with ext off
        # can only be observed behind the recorder and is outside 'converting a program to smodels format'
        return sig
    P, Q = Prog(), Prog()
    step = 0
    for c in calls:
        if c[0] == 3:
            step += 1
        # minimize / assume are per step: keep those of the last step only
        if c[0] in (6, 10) and step != nsteps - 1:
            continue
        P.add(c)
    step = 0
    for c in emitted:
        if c[0] == 3:
            step += 1
        if c[0] in (6, 10) and step != nsteps - 1:
            continue
        Q.add(c)
    helpers = any(c[0] in (11, 12) for c in calls)
    if P.negw:
        return sig
    skip_cost = False
    if ordinal:
        if sum(1 for c in emitted if c[0] == 3) != nsteps:
            sig.append('sem:number-of-steps-differs')
            return sig
        prios_in = sorted(set(p for p, _ in P.mins))
        if [p for p, _ in Q.mins] != list(range(len(prios_in))):
            sig.append('cost:priorities-not-merged-in-ascending-order')
            skip_cost = True
        else:
            Q.mins = [(prios_in[k], ls) for k, ls in Q.mins]
    pa, qa = P.atoms(), Q.atoms()
    if 0 in pa:
        return sig
    if any(a not in gmap for a in pa):
        return sig          # the case carries no complete probe of the mapping
    # costs: independent of stable models (all interpretations of the minimized atoms)
    if not skip_cost:
        sig += cost_check(P, Q, gmap)
    # externals (extensions on): same status for atoms that no rule defines
    if ext:
        ph, qh = P.heads(), Q.heads()
        for a, v in P.ext.items():
            if a in ph:
                continue
            if gmap[a] in qh:
                sig.append('external:undefined-external-atom-has-a-rule-in-the-output')
            elif Q.ext.get(gmap[a]) != v:
                sig.append('external:value-differs')
        for x in Q.ext:
            if x not in [gmap[a] for a in P.ext]:
                sig.append('external:unknown-external-emitted')
    if len(qa) > SEM_MAX_ATOMS or len(pa) > SEM_MAX_ATOMS:
        return sig
    info['sem'] = True
    SP = stable_models_memo(P, pa)
    SQ = stable_models_memo(Q, qa | {1})
    info['models'] = len(SP)
    proj = {}
    for S in SQ:
        k = frozenset(a for a in pa if gmap[a] in S)
        proj.setdefault(k, []).append(S)
    setP = set(SP)
    for k, l in proj.items():
        if k not in setP:
            sig.append('sem:output-has-an-answer-set-the-input-lacks')
        elif len(l) > 1:
            sig.append('sem:one-input-answer-set-has-several-images')
    for S in SP:
        if S not in proj:
            sig.append('sem:input-answer-set-lost')
    for S in SP:
        for T in proj.get(S, [])[:1]:
            if shown(P, S, helpers) != shown(Q, T, helpers):
                sig.append('sem:shown-names-differ')
    return sig


def cost_check(P, Q, gmap):
    sig = []
    prios_in = sorted(set(p for p, _ in P.mins))
    prios_out = [p for p, _ in Q.mins]
    if prios_out != prios_in:
        sig.append('cost:priorities-not-merged-in-ascending-order')
        return sig
    ats = sorted(set(abs(l) for _, ls in P.mins for l, _ in ls))
    if len(ats) > 10:
        return sig
    for p, qls in Q.mins:
        pls = [x for q, ls in P.mins if q == p for x in ls]
        diff = None
        for X in range(1 << len(ats)):
            S = frozenset(ats[i] for i in range(len(ats)) if X >> i & 1)
            T = frozenset(gmap[a] for a in S)
            d = cost(qls, T) - cost(pls, S)
            if diff is None:
                diff = d
            elif d != diff:
                sig.append('cost:difference-not-constant')
                return sig
    return sig


def oracle(case, obs):
    return judge(case, obs)[0]


def nontrivial(case, obs):
    info = judge(case, obs)[1]
    return bool((info['sem'] and info['models'] > 0) or info['err'] or info['lpc'])


def describe(case):
    mode, ext, items = decode(case)
    parts = []
    for k, v in items:
        parts.append(K.pretty([v]) if k == 'call' else '%s(%d)' % ('get' if k == 'get' else 'getName', v))
    return 'mode=%d ext=%d: %s' % (mode, ext, '; '.join(parts))


# ------------------------------------------------------------------------------------------------
# generators
# ------------------------------------------------------------------------------------------------
NAME_ALPHA = list(b'abpq(),_"1 x')


def g_name(rnd, pool):
    if pool and rnd.random() < 0.35:
        return rnd.choice(pool)
    n = rnd.choice([0, 1, 1, 2, 3, 6])
    s = bytes(rnd.choice(NAME_ALPHA) for _ in range(n))
    pool.append(s)
    return s


def g_atom(rnd, na, big=False):
    if big and rnd.random() < 0.05:
        return rnd.choice([70000, 1 << 16, 4097, 65535])
    return rnd.randint(1, na)


def g_lit(rnd, na, big=False):
    a = g_atom(rnd, na, big)
    return -a if rnd.random() < 0.4 else a


def g_rule(rnd, na, big=False):
    ht = rnd.choice([0, 0, 0, 1])
    hl = rnd.choice([0, 1, 1, 1, 2, 3])
    head = [g_atom(rnd, na, big) for _ in range(hl)]
    if rnd.random() < 0.55:
        return (4, ht, head, [g_lit(rnd, na, big) for _ in range(rnd.choice([0, 1, 2, 2, 3]))])
    if rnd.random() < 0.15:
        return g_wrule01(rnd, list(range(1, na + 1)), list(range(1, na + 1)))
    body = [(g_lit(rnd, na, big), rnd.choice([0, 1, 1, 1, 2, 3, 3, INT_MAX] if rnd.random() < 0.3 else [1, 1, 2, 3])) for _ in range(rnd.choice([0, 1, 2, 3, 4]))]
    tot = sum(w for _, w in body)
    bound = rnd.choice([-2, -1, 0, 1, 1, 2, 2, 3, tot, tot + 1, max(tot - 1, 0), INT_MAX])
    if rnd.random() < 0.7:
        bound = max(bound, 0)
    return (5, ht, head, min(bound, INT_MAX), body)


def g_wrule01(rnd, body_atoms, head_atoms, form=None, pattern=None):
    """a weight rule whose weights are all in {0,1}: the boundary between smodels' cardinality rule (type 2, no weights written) and
    weight rule (type 5).  pattern: all weights 1 | exactly one 0 among 1s | all 0 | random mix;  form: 'single' (one head atom, written
    directly), 'constraint' (empty head -> false atom, written directly), 'choice' / 'disj' (auxiliary atom for the body).
    The bound is chosen so that counting a zero-weight literal as 1 (or a 1 as 0) changes whether it can be reached."""
    form = form or rnd.choice(['single', 'single', 'constraint', 'choice', 'choice', 'disj'])
    pattern = pattern or rnd.choice(['all1', 'one0', 'one0', 'one0', 'all0', 'mix'])
    n = rnd.choice([1, 2, 2, 3, 3, 4])
    ats = [rnd.choice(body_atoms) for _ in range(n)] if rnd.random() < 0.2 else (rnd.sample(body_atoms, n) if n <= len(body_atoms) else [rnd.choice(body_atoms) for _ in range(n)])
    lits = [-a if rnd.random() < 0.3 else a for a in ats]
    if pattern == 'all1':
        ws = [1] * n
    elif pattern == 'one0':
        ws = [1] * n
        ws[rnd.randrange(n)] = 0
    elif pattern == 'all0':
        ws = [0] * n
    else:
        ws = [rnd.randint(0, 1) for _ in range(n)]
    ones = sum(ws)
    bound = rnd.choice([ones + 1, ones + 1, ones, max(ones, 1), 1, n, rnd.randint(0, n + 1)])
    if form == 'single':
        ht, head = 0, [rnd.choice(head_atoms)]
    elif form == 'constraint':
        ht, head = 0, []
    elif form == 'choice':
        ht, head = 1, rnd.sample(head_atoms, rnd.choice([1, 2]) if len(head_atoms) > 1 else 1)
    else:
        ht, head = 0, (rnd.sample(head_atoms, 2) if len(head_atoms) > 1 else head_atoms * 2)
    return (5, ht, head, bound, list(zip(lits, ws)))


def g_program01(rnd, ext, form=None):
    """free body atoms (one choice rule or free externals), 1-3 weight rules with {0,1} weights, every atom shown; final probes"""
    nb = rnd.choice([2, 2, 3, 3, 4])
    body_atoms = list(range(1, nb + 1))
    head_atoms = list(range(nb + 1, nb + 1 + rnd.choice([1, 2, 2])))
    items = [('call', (1, bool(ext) and rnd.random() < 0.1)), ('call', (2,))]
    free = list(body_atoms)
    if rnd.random() < 0.25:
        x = free.pop(rnd.randrange(len(free)))
        items.append(('call', (9, x, rnd.choice([0, 0, 1, 2]))))
    rules = [('call', (4, 1, free, []))] if free else []
    for _ in range(rnd.choice([1, 1, 2, 3])):
        rules.append(('call', g_wrule01(rnd, body_atoms, head_atoms, form=form)))
    if rnd.random() < 0.3:
        rnd.shuffle(rules)
    items += rules
    if rnd.random() < 0.3:
        items.append(('call', (6, rnd.choice([0, 1]), [(rnd.choice(head_atoms), rnd.choice([1, 2, -1]))])))
    for a in body_atoms + head_atoms:
        if rnd.random() < 0.8:
            items.append(('call', (8, bytes([96 + a]), [a])))
    items.append(('call', (3,)))
    for a in sorted(atoms_of(items)):
        items.append(('get', a))
    return items


def g_min(rnd, na, extreme):
    n = rnd.choice([0, 1, 2, 3])
    ws = [-3, -2, -1, 0, 1, 2, 3]
    if extreme:
        ws += [INT_MAX, -INT_MAX, INT_MIN, INT_MAX - 1]
    return (6, rnd.choice([0, 0, 1, 2, -1, 5] + ([INT_MAX, INT_MIN] if extreme else [])), [(g_lit(rnd, na), rnd.choice(ws)) for _ in range(n)])


def g_output(rnd, na, pool):
    k = rnd.choice(['single', 'single', 'single', 'neg', 'empty', 'compound', 'repeat'])
    if k == 'single':
        cond = [g_atom(rnd, na)]
    elif k == 'neg':
        cond = [-g_atom(rnd, na)]
    elif k == 'empty':
        cond = []
    elif k == 'compound':
        cond = [g_lit(rnd, na) for _ in range(rnd.choice([2, 2, 3]))]
    else:
        a = g_lit(rnd, na)
        cond = [a, a] if rnd.random() < 0.6 else [a, -a]
    return (8, g_name(rnd, pool), cond)


def g_program(rnd, ext, na, nsteps, ndir, errors=False, extreme=False, big=False, probes=True, heur=False):
    """a well-formed call sequence with probes; returns items"""
    pool = []
    items = [('call', (1, nsteps > 1 or (bool(ext) and rnd.random() < 0.15)))]
    used = set()
    for st in range(nsteps):
        items.append(('call', (2,)))
        for _ in range(ndir):
            r = rnd.random()
            if r < 0.45:
                c = g_rule(rnd, na, big)
            elif r < 0.58:
                c = g_min(rnd, na, extreme)
            elif r < 0.76:
                c = g_output(rnd, na, pool)
            elif r < 0.92:
                c = (9, g_atom(rnd, na, big), rnd.randint(0, 3))
                if rnd.random() < 0.25:
                    items.append(('call', c))
                    c = (9, c[1], rnd.randint(0, 3))
            elif heur or errors:
                k = rnd.choice([11, 12] if heur else [7, 10, 11, 12, 13, 14, 15, 16, 17, 18])
                if k == 11:
                    c = (11, g_atom(rnd, na), rnd.randint(0, 5), rnd.choice([0, 1, -1, 7, INT_MAX, -INT_MAX, INT_MIN]), rnd.choice([0, 1, 2, INT_MAX]),
                         [g_lit(rnd, na) for _ in range(rnd.choice([0, 1, 1, 2]))])
                elif k == 12:
                    c = (12, rnd.choice([0, 1, 2, 7]), rnd.choice([0, 1, 3]), [g_lit(rnd, na) for _ in range(rnd.choice([0, 1, 1, 2]))])
                else:
                    c = K.r_directive(rnd, small=na, kinds=[k])
            else:
                c = g_rule(rnd, na, big)
            items.append(('call', c))
            if probes and rnd.random() < 0.25:
                # get() on an atom the converter has not mapped yet (e.g. one that so far only occurs in a minimize statement)
                # creates its image - part of the behaviour under test; mode 2 (lpconvert cannot probe) has no mid-run probes
                seen = sorted(atoms_of(items))
                if seen:
                    a = rnd.choice(seen)
                    items.append(('get', a if rnd.random() < 0.7 else -a))
            if probes and rnd.random() < 0.08:
                items.append(('name', rnd.randint(1, 2 * na + 2)))
        items.append(('call', (3,)))
    # final probe of every atom of the program: the mapping the semantic comparison uses
    for a in sorted(atoms_of(items)):
        items.append(('get', a))
    if probes:
        for x in range(2, 2 + min(6, na + 3)):
            if rnd.random() < 0.3:
                items.append(('name', x))
    return items


def atoms_of(items):
    s = set()
    for k, c in items:
        if k != 'call':
            continue
        t = c[0]
        if t == 4:
            s.update(c[2]); s.update(abs(l) for l in c[3])
        elif t == 5:
            s.update(c[2]); s.update(abs(l) for l, _ in c[4])
        elif t == 6:
            s.update(abs(l) for l, _ in c[2])
        elif t == 8:
            s.update(abs(l) for l in c[2])
        elif t == 9:
            s.add(c[1])
        elif t == 11:
            s.add(c[1]); s.update(abs(l) for l in c[5])
        elif t == 12:
            s.update(abs(l) for l in c[3])
    return s


def fixed_cases():
    out = []
    I, B, E = ('call', (1, False)), ('call', (2,)), ('call', (3,))

    def add(kind, mode, ext, body, probe=True):
        items = [I, B] + [('call', c) for c in body] + [E]
        if probe:
            items += [('get', a) for a in sorted(atoms_of(items))]
        out.append((encode(mode, ext, items), {'kind': kind}))
    for mode in (0, 1, 2):
        for ext in (0, 1):
            add('fixed-min-int-min', mode, ext, [(4, 0, [1], []), (6, 0, [(1, INT_MIN)])])
            add('fixed-min-negative', mode, ext, [(4, 1, [1, 2], []), (6, 0, [(1, -3), (-2, -INT_MAX), (2, INT_MAX)]), (6, 0, [(1, 2)]), (6, -1, [(-1, 1)])])
            add('fixed-external-repeated', mode, ext, [(9, 1, 0), (9, 1, 0), (9, 2, 1), (9, 2, 0), (4, 0, [3], [1, 2]), (8, b'c', [3])])
            add('fixed-external-then-rule', mode, ext, [(9, 1, 0), (9, 2, 1), (4, 0, [1], [-3]), (4, 0, [2], [3]), (9, 3, 0), (8, b'a', [1]), (8, b'b', [2])])
            add('fixed-output-named-twice', mode, ext, [(4, 1, [1, 2], []), (8, b'a', [1]), (8, b'b', [1]), (8, b'a', [2]), (8, b'c', [1, -2]), (8, b'd', []), (8, b'e', [-1])])
            add('fixed-weight-split', mode, ext, [(4, 1, [1, 2, 3], []), (5, 1, [4, 5], 2, [(1, 1), (2, 2), (-3, 1)]), (5, 0, [], 3, [(1, 2), (2, 2)]), (5, 0, [6, 7], 1, [(1, 1), (2, 1)]),
                                                 (5, 0, [6], 2, [(1, 1), (2, 1), (3, 1)]), (8, b'x', [6])])
            # weights in {0,1}: cardinality rule (type 2) only when ALL weights are 1; a zero-weight literal must not count
            add('fixed-weight01-direct', mode, ext, [(4, 1, [2, 3], []), (5, 0, [1], 1, [(2, 0), (3, 1)]), (8, b'a', [1]), (8, b'b', [2]), (8, b'c', [3])])
            add('fixed-weight01-direct', mode, ext, [(4, 1, [1, 2, 3], []), (5, 0, [4], 2, [(1, 1), (-2, 0), (3, 1)]), (5, 0, [5], 1, [(1, 0), (2, 0)]),
                                                     (5, 0, [6], 2, [(1, 1), (2, 1)]), (5, 0, [], 2, [(1, 1), (3, 0)]), (8, b'x', [4]), (8, b'y', [5]), (8, b'z', [6])])
            add('fixed-weight01-split', mode, ext, [(4, 1, [1, 2], []), (5, 1, [3, 4], 1, [(1, 0), (2, 1)]), (5, 0, [5, 6], 2, [(1, 1), (-2, 0)]), (5, 1, [7], 1, [(1, 0)]),
                                                    (8, b'p', [3]), (8, b'q', [5]), (8, b'r', [7])])
            add('fixed-negative-bound', mode, ext, [(4, 1, [1], []), (5, 0, [2], -1, [(1, 1)])])
            add('fixed-choice-empty-head', mode, ext, [(4, 1, [], [1]), (5, 1, [], -1, [(2, 1)]), (4, 0, [], [1, -2]), (4, 1, [1, 2], [])])
            add('fixed-project', mode, ext, [(4, 0, [1], []), (7, [1])])
            add('fixed-assume', mode, ext, [(4, 0, [1], []), (10, [1])])
            add('fixed-heuristic', mode, ext, [(4, 1, [1, 2], []), (8, b'a', [1]), (11, 1, 0, -1, 2, [2]), (11, 2, 3, INT_MIN, 0, []), (11, 9, 1, 1, 1, [1])])
            add('fixed-edge', mode, ext, [(4, 1, [1, 2], []), (12, 0, 1, [1]), (12, 1, 0, [1, -2]), (11, 1, 4, 1, 1, [1])])
    for ext in (0, 1):
        items = [('call', (1, True)), B, ('call', (4, 1, [1], [])), ('call', (9, 2, 0)), ('call', (8, b'a', [1])), E, ('get', 1), ('get', 2),
                 B, ('call', (4, 0, [2], [1])), ('call', (8, b'b', [2])), ('call', (8, b'c', [1])), ('call', (9, 3, 1)), E, ('get', 1), ('get', 2), ('get', 3)]
        for mode in (0, 1, 2):
            out.append((encode(mode, ext, items), {'kind': 'fixed-incremental'}))
    return out


def gen(seed, tier):
    rnd = random.Random(seed * 7919 + 2)
    total = {'quick': 2600, 'thorough': 60000, 'search': 5000}.get(tier, 2600)
    n_lpc = {'quick': 150, 'thorough': 2500, 'search': 100}.get(tier, 150)
    out = fixed_cases()
    lpc = 0
    while len(out) < total:
        r = rnd.random()
        ext = rnd.randint(0, 1)
        mode = rnd.choice([0, 1, 1])
        if lpc < n_lpc and rnd.random() < 0.12:
            mode = 2
            lpc += 1
        if r < 0.10:
            form = rnd.choice([None, None, 'single', 'constraint', 'choice', 'disj'])
            items = g_program01(rnd, ext, form)
            kind = 'weights01-%s-ext%d' % (form or 'mixed', ext)
            if mode == 0:
                mode = 1        # the point of these cases is what the writer makes of the rule
        elif r < 0.55:
            # small programs for the semantic comparison
            na = rnd.choice([2, 3, 3, 4, 4, 5])
            steps = 1 if (not ext or rnd.random() < 0.75) else rnd.choice([2, 3])
            items = g_program(rnd, ext, na, steps, rnd.choice([2, 3, 4, 5, 6]) if steps == 1 else rnd.choice([1, 2, 3]), probes=(mode != 2 and rnd.random() < 0.5))
            kind = 'semantic-%dstep-ext%d' % (steps, ext)
        elif r < 0.70:
            na = rnd.choice([3, 5, 8])
            steps = 1 if not ext else rnd.choice([1, 2, 3])
            items = g_program(rnd, ext, na, steps, rnd.choice([3, 6, 10]), extreme=True, big=True, probes=mode != 2)
            kind = 'boundary-weights-atoms-ext%d' % ext
        elif r < 0.85:
            na = rnd.choice([3, 4])
            steps = rnd.choice([1, 1, 2])
            items = g_program(rnd, ext, na, steps, rnd.choice([2, 4, 6]), errors=True, extreme=rnd.random() < 0.3, probes=mode != 2)
            kind = 'errors-ext%d' % ext
        else:
            na = rnd.choice([3, 4])
            steps = 1 if not ext else rnd.choice([1, 2])
            items = g_program(rnd, ext, na, steps, rnd.choice([2, 4, 6]), heur=True, probes=mode != 2)
            kind = 'heuristic-edge-ext%d' % ext
        out.append((encode(mode, ext, items), {'kind': kind + ('-lpconvert' if mode == 2 else '')}))
    return out


def shrink(case, fails):
    mode, ext, items = decode(case)
    changed = True
    while changed:
        changed = False
        for i in range(len(items) - 1, -1, -1):
            k, v = items[i]
            if k == 'call' and v[0] in (1, 2, 3):
                continue
            t = items[:i] + items[i + 1:]
            if fails(encode(mode, ext, t)):
                items = t
                changed = True
    if mode == 2 and fails(encode(1, ext, items)):
        mode = 1
    return encode(mode, ext, items)


def mutate(case, rnd):
    mode, ext, items = decode(case)
    res = []
    for _ in range(6):
        t = list(items)
        if len(t) > 3 and rnd.random() < 0.5:
            i = rnd.randrange(len(t))
            if not (t[i][0] == 'call' and t[i][1][0] in (1, 2, 3)):
                del t[i]
        res.append(encode(rnd.choice([0, 1]), rnd.randint(0, 1), t))
    return res


LEVEL_TEXT = ('Machine-checked proofs (Coq) about an executable model of SmodelsConvert/SmData that emits call-for-call what the C++ emits: '
              'the atom-map invariant over all call sequences (c02_map), the exact error characterisation of the converter composed with the '
              'smodels writer\'s acceptance conditions (c02_errors), the cost statement (c02_cost), and the END-TO-END semantic equivalence of one '
              'whole step with the extensions on or off (c02_equiv_partial2): for rule / weight rule / minimize / output / external directives followed by '
              'endStep there is a bijection between the answer sets of the input program and those of the emitted program (false atom false), '
              'agreeing on mapped atoms, with the same shown names and per-priority costs equal up to a constant; built from definitional extension '
              '(c02_defext), the weight-rule split (c02_wrule_shape, c02_equiv_weight), output aux atoms (c02_output_*) and externals-as-rules '
              '(c02_external_*: choice rule / facts without the extensions, passed through with them). The model is tied to the code by differential correspondence '
              '(recorder behind the real SmodelsConvert, real SmodelsOutput, get/getName/maxAtom) and an independent brute-force semantic oracle '
              'that compares the answer sets, shown names, externals and costs of the input with those of what the implementation emitted '
              'and, end to end, with those of the smodels text the real writer produced (read back by an independent python reader), '
              'also through the real lpconvert binary.')
LEVEL_NOTE = ('Trusted: Coq kernel/vm_compute, extraction+driver (cross-checked), harness, translator, the reference semantics (Sem.v / python). '
              'Full: c02_map, c02_errors, c02_cost, c02_cost_sign, c02_rename_iso, c02_constraint_false, c02_defext, c02_wrule_shape, c02_equiv_weight, '
              'c02_output_shape/value/symbols, c02_external_flags/rules/sem/pass. The composed bijection c02_equiv_partial2 covers one step, ext on or off '
              '(any mix of rules, weight rules, minimize, outputs, externals); not composed in Coq and covered by the brute-force oracle only: '
              'heuristic/edge directives (ext on) and several steps (notes/C02.md).')
TECHNIQUE = 'Coq invariant/refinement proofs about an executable model + differential correspondence + brute-force semantic oracle'
DESIGN_REF = 'DESIGN.md section 5, C02'
READY = True
