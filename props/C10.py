"""C10 - the ground-text reader delivers exactly the statements written in its input syntax.
Case: n b1..bn [encoded expected calls].  The first n+1 integers are the input text (what harness and model read); for
texts printed from a program the rest of the case is that program's call sequence (ignored by harness and model),
against which the oracle compares what the implementation delivered.  Observation: status (1 accepted, 0 parse error),
error line, delivered calls.

Oracle (on the implementation alone): a text printed from program p under any spelling/layout must be accepted and
deliver exactly norm(p) (weight 0 omitted) - hence the same under every layout; for every input, accepted or not, the
delivered calls must respect the consumer contract (atoms >= 1, rule-body weights >= 0, priorities >= 0, enum ranges,
begin/end pairing when accepted)."""
import random
from props.calls import enc_all, dec_all, pretty, INT_MAX, ATOM_MAX
from props import reuse as RU

PID = 'C10'
HARNESS = 'h_c10'
HARNESS_EXTRA = ('rec.h', 'reuse.h')
MODEL_MODULE = 'V.C10.Model'
# The reader model is written against the abstract stream (C09 proves buffer independence); the implementation is additionally run at small
# buffer sizes so that tokens, CR/LF pairs, comments and strings of the generated texts land on refill boundaries (seeded change C10-r4).
VARIANTS = {'default': {}, 'N16': {'POTASSCO_VERIF_BUF_SIZE': 16}, 'N67': {'POTASSCO_VERIF_BUF_SIZE': 67}}


def variant_of(c):
    return ('default', 'N16', 'N67')[sum(c) % 3]


def primed(c):
    """harness/reuse.h: every other case (FNV-1a over the case's integers, bit 17) is read by a reader OBJECT that has read - or REFUSED - a
    primer text before, chosen by further hash bits (props/reuse.py reads the primer tables from reuse.h; reader reuse is invisible for a
    correct reader, so neither the model nor the oracle depends on it)"""
    return RU.primed(c)

READY = True
RULE = ('cases = input texts: (a) programs (1-4 steps, all directive kinds, empty heads/bodies/aggregates, negative bounds, weights 0, minimize with '
        'negative weights, all values/modifiers, terms with arguments and strings) printed under random atom spellings (a..z, x<n>, x_<n>) and random '
        'layouts (blank/tab/LF/CR/CRLF after tokens, comment lines and stray dots between statements), each program under several layouts; '
        '(b) malformed texts (mutations of (a), token soup); '
        'every other case (hash of the case) is read by a reader OBJECT that before read or REFUSED one of the 7 text primer texts of harness/reuse.h (accepted incremental ones; refused inside a rule body / aggregate / string / second step, #step without #incremental); '
        'non-trivial = accepted with at least one directive delivered; distinct = distinct case tuples')
TRUSTED_BASE = ['C09 refinement: BufferedStream behaves like the abstract stream of coq/C09/Spec.v (proved there)',
                'RuleBuilder delivers head/body as filled, dropping weight-0 literals (modelled, property C11)',
                'props/C10.py printer and comparison (oracle on the implementation)']
ASSUMPTIONS = ['input without NUL bytes', 'programs over atoms 1..2^31-1, int-range bounds/weights/priorities, rule-body weights >= 0',
               'a trailing #step. at end of input opens no step (documented)']
TECHNIQUE = 'Coq proof about an executable model (reader over the abstract stream + printer) + differential correspondence with the implementation'
DESIGN_REF = 'DESIGN.md section 5, C10'
LEVEL_TEXT = ('Machine-checked proofs (Coq) about a model of AspifTextInput over the abstract stream (refined by BufferedStream per C09): '
              'round trip for EVERY text of a valid program (relational grammar = all atom spellings, all white-space layouts, comments and stray dots '
              'between statements, optional parts present or absent) and for a concrete printer print_text sigma l for all sigma, l; layout independence; '
              'for EVERY byte list: consumer contract of the delivered calls, no open step when accepted, no fuel exhaustion of the model loops. '
              'Model tied to the code by differential correspondence on printed programs under random spellings/layouts and on malformed texts.')
LEVEL_NOTE = ('Trusted: Coq kernel, extraction (cross-checked), harness, translator, python oracle; RuleBuilder modelled by its delivered values (C11); '
              'boundaries of the grammar relation: strings without CR/NUL, comment lines end with a line break, text after "#step." not empty.')

HEU = ['level', 'sign', 'factor', 'init', 'true', 'false']
EXT = {0: 'free', 1: 'true', 2: 'false', 3: 'release'}
WS = ['', '', '', ' ', ' ', '\t', '\n', '\r\n', '\r', '  ', ' \n ']


# ------------------------------------------------------------------------------------------------
# printer: program -> tokens -> text
# ------------------------------------------------------------------------------------------------
def atom_tok(rnd, a):
    ch = []
    if 1 <= a <= 26:
        ch.append(chr(96 + a))
    ch += ['x%d' % a, 'x_%d' % a]
    return rnd.choice(ch)


def lit_toks(rnd, l):
    return (['not', 'WS1'] if l < 0 else []) + [atom_tok(rnd, abs(l))]


def seplist(rnd, items, seps):
    out = []
    for i, it in enumerate(items):
        if i:
            out.append(rnd.choice(seps))
        out += it
    return out


def cond_toks(rnd, c):
    return ([':'] + seplist(rnd, [lit_toks(rnd, l) for l in c], [','])) if c else ([':'] if rnd.random() < 0.1 else [])


def wlit_toks(rnd, l, w):
    t = lit_toks(rnd, l)
    if w != 1 or rnd.random() < 0.5:
        t += ['=', str(w)]
    return t


def term_toks(rnd, t):
    """t is a byte string from the term grammar; characters of an argument list are separate tokens (white space between
    them is dropped by the reader), identifiers and strings are single tokens."""
    s = bytes(t).decode('latin-1')
    if s.startswith('"'):
        return [s]
    k = s.find('(')
    if k < 0:
        return [s]
    toks = [s[:k], '(']
    body = s[k + 1:-1]
    i = 0
    while i < len(body):
        if body[i] == '"':
            j, esc = i + 1, False            # closing quote = first quote not preceded by an (unescaped) backslash
            while j < len(body) and (body[j] != '"' or esc):
                esc = (not esc) and body[j] == '\\'
                j += 1
            toks.append(body[i:j + 1])
            i = j + 1
        else:
            toks.append(body[i])
            i += 1
    toks.append(')')
    return toks


def dir_toks(rnd, c):
    t = c[0]
    if t in (4, 5):
        ht, head = c[1], c[2]
        if ht == 1:
            toks = ['{'] + seplist(rnd, [[atom_tok(rnd, a)] for a in head], [';', ',']) + ['}']
        else:
            toks = seplist(rnd, [[atom_tok(rnd, a)] for a in head], ['|', ';'])
        if t == 4:
            body = c[3]
            if body or not (head or ht == 1) or rnd.random() < 0.2:
                toks += [':-'] + seplist(rnd, [lit_toks(rnd, l) for l in body], [','])
        else:
            toks += [':-', str(c[3]), '{'] + seplist(rnd, [wlit_toks(rnd, l, w) for l, w in c[4]], [',']) + ['}']
        return toks + ['.']
    if t == 6:
        toks = ['#minimize', '{'] + seplist(rnd, [wlit_toks(rnd, l, w) for l, w in c[2]], [',']) + ['}']
        if c[1] != 0 or rnd.random() < 0.5:
            toks += ['@', str(c[1])]
        return toks + ['.']
    if t == 7:
        if not c[1] and rnd.random() < 0.5:
            return ['#project', '.']
        return ['#project', '{'] + seplist(rnd, [[atom_tok(rnd, a)] for a in c[1]], [',']) + ['}', '.']
    if t == 8:
        return ['#output', 'WS1'] + term_toks(rnd, c[1]) + cond_toks(rnd, c[2]) + ['.']
    if t == 9:
        toks = ['#external', atom_tok(rnd, c[1]), '.']
        if c[2] != 2 or rnd.random() < 0.5:
            toks += ['[', EXT[c[2]], ']']
        return toks
    if t == 10:
        if not c[1] and rnd.random() < 0.5:
            return ['#assume', '.']
        return ['#assume', '{'] + seplist(rnd, [lit_toks(rnd, l) for l in c[1]], [',']) + ['}', '.']
    if t == 11:
        toks = ['#heuristic', atom_tok(rnd, c[1])] + cond_toks(rnd, c[5]) + ['.', '[', str(c[3])]
        if c[4] != 0 or rnd.random() < 0.5:
            toks += ['@', str(c[4])]
        return toks + [',', HEU[c[2]], ']']
    if t == 12:
        return ['#edge', '(', str(c[1]), ',', str(c[2]), ')'] + cond_toks(rnd, c[3]) + ['.']
    raise ValueError(c)


def comment_line(rnd):
    """a comment line, its line end and the white space (blank lines, indentation) that may follow it"""
    return '%' + rnd.choice(['', ' comment', ' a :- b.', '#step.', '#incremental.', ' "x']) + rnd.choice(['\n', '\r\n', '\r']) + \
        rnd.choice(['', '', '\n', ' ', '\t ', '\n\n  ', '\r\n '])


def filler(rnd):
    """what may stand between statements: comment lines (followed by white space) and stray dots"""
    out = ''
    while True:
        r = rnd.random()
        if r < 0.15:
            out += comment_line(rnd)
        elif r < 0.22:
            out += '.' + rnd.choice(WS)
        else:
            return out


def print_text(rnd, prog, plain=False):
    """prog: calls incl. init/begin/end.  plain: canonical layout (one blank between tokens).
    Layouts put white space / blank lines / comment lines (each possibly followed by white space) before the first
    token - also before '#incremental' -, between statements, before '#step' and after '#step.'."""
    out = []
    inc = False
    nstep = 0
    for c in prog:
        if c[0] == 1:
            inc = bool(c[1])
            if not plain:
                out.append(rnd.choice(WS))
                while rnd.random() < 0.3:
                    out.append(comment_line(rnd))
            if inc:
                out += ['#incremental', '' if plain else rnd.choice(WS), '.', '\n' if plain else rnd.choice(WS)]
        elif c[0] == 2:
            if nstep > 0:
                if not plain:
                    out.append(filler(rnd))
                out += ['#step', '' if plain else rnd.choice(WS), '.', '\n' if plain else rnd.choice(WS)]
            nstep += 1
        elif c[0] == 3:
            pass
        else:
            if not plain:
                out.append(filler(rnd))
            for tk in dir_toks(rnd, c):
                if tk == 'WS1':
                    if out and out[-1] == '':
                        out[-1] = ' '
                    elif out and not out[-1][-1:] in ' \t\r\n':
                        out.append(' ')
                    continue
                out.append(tk)
                if plain:
                    out.append(' ' if tk == 'not' else '')
                else:
                    w = rnd.choice(WS)
                    if tk == 'not' and w == '':
                        w = rnd.choice([' ', '\t', '\n', '\r\n'])
                    out.append(w)
            if plain:
                out.append('\n')
    if not plain:
        out.append(filler(rnd))
    return ''.join(out)


def norm(prog):
    out = []
    for c in prog:
        if c[0] == 5:
            out.append((5, c[1], list(c[2]), c[3], [(l, w) for l, w in c[4] if w != 0]))
        elif c[0] == 6:
            out.append((6, c[1], [(l, w) for l, w in c[2] if w != 0]))
        elif c[0] == 1:
            out.append((1, bool(c[1])))
        elif c[0] == 8:
            out.append((8, bytes(c[1]), list(c[2])))
        else:
            out.append(tuple(list(x) if isinstance(x, (list, tuple)) else x for x in c))
    return out


# ------------------------------------------------------------------------------------------------
# oracle
# ------------------------------------------------------------------------------------------------
def split(case):
    n = case[0]
    text = case[1:1 + n]
    prog, rest = dec_all(case[1 + n:])
    return text, (prog if case[1 + n:] and not rest else None)


def contract(calls, accepted):
    sig = []
    depth = 0
    for c in calls:
        t = c[0]
        if t == 2:
            depth += 1
        elif t == 3:
            depth -= 1
        if depth not in (0, 1):
            sig.append('step-nesting')
        if t in (4, 5):
            if c[1] not in (0, 1) or any(not (1 <= a <= ATOM_MAX) for a in c[2]):
                sig.append('contract:rule-head')
        if t == 4 and any(l == 0 or abs(l) > ATOM_MAX for l in c[3]):
            sig.append('contract:literal')
        if t == 5 and any(w < 0 or l == 0 for l, w in c[4]):
            sig.append('contract:negative-or-zero-literal-weight' if any(w < 0 for l, w in c[4]) else 'contract:literal')
        if t == 5 and any(w == 0 for l, w in c[4]):
            sig.append('weight-zero-delivered')
        if t == 6 and any(w == 0 for l, w in c[2]):
            sig.append('weight-zero-delivered')
        if t == 7 and any(not (1 <= a <= ATOM_MAX) for a in c[1]):
            sig.append('contract:project-atom')
        if t == 9 and (not (1 <= c[1] <= ATOM_MAX) or c[2] not in (0, 1, 2, 3)):
            sig.append('contract:external')
        if t == 11 and (not (1 <= c[1] <= ATOM_MAX) or c[2] not in range(6) or c[4] < 0):
            sig.append('contract:heuristic')
    if accepted and depth != 0:
        sig.append('accepted-with-open-step')
    if calls and calls[0][0] != 1:
        sig.append('no-init-first')
    return sorted(set(sig))


def oracle(case, obs):
    if not obs:
        return ['no-observation']
    text, prog = split(case)
    status, line = obs[0], obs[1]
    calls, rest = dec_all(obs[2:])
    if rest:
        return ['observation-not-decodable']
    if status == 2:
        return ['unexpected-exception-class']
    sig = contract(calls, status == 1)
    if prog is not None:
        if status != 1:
            return sig + ['valid-text-rejected']
        if norm(calls) != norm(prog):
            return sig + ['delivered-program-differs']
    return sig


def nontrivial(case, obs):
    return bool(obs) and obs[0] == 1 and len(obs) > 8


def describe(case):
    text, prog = split(case)
    s = bytes(x & 255 for x in text).decode('latin-1').encode('unicode_escape').decode()
    rd = RU.reader(case, 'text')
    return 'buf=%s reader=%s text=%r' % (variant_of(case), rd, s) + (' program=' + pretty(prog) if prog is not None else '')


# ------------------------------------------------------------------------------------------------
# generators
# ------------------------------------------------------------------------------------------------
TERMS = [b'a', b'foo', b'_x', b'p(1)', b'q("a b",2)', b'r(f(x),y)', b'"str"', b'"  a b"', b'" "', b'"a\\"b"', b'f("(,",x)', b'aB_9', b'f(-1)', b'g(X,_y)', b'""',
         # escape-state boundaries of the string scanner: escaped backslashes directly before the closing quote, runs of backslashes,
         # escaped quote after an escaped backslash (seeded change C10-r3 was missed without these)
         b'"c:\\\\"', b'"\\\\"', b'"a\\\\\\\\"', b'"x\\\\\\"y"', b'f("p\\\\",q)', b'g("\\\\","\\"")', b'"\\\\ "']


def g_atom(rnd):
    r = rnd.random()
    if r < 0.7:
        return rnd.randint(1, 8)
    if r < 0.85:
        return rnd.choice([24, 26, 27, 14, 15, 20, ATOM_MAX, ATOM_MAX - 1, 65536, 100])
    return rnd.randint(1, ATOM_MAX)


def g_lit(rnd):
    a = g_atom(rnd)
    return -a if rnd.random() < 0.4 else a


def g_len(rnd, mx=4):
    return rnd.choice([0, 0, 1, 1, 2, 2, 3, mx])


def g_int(rnd):
    r = rnd.random()
    if r < 0.6:
        return rnd.randint(-3, 5)
    if r < 0.85:
        return rnd.choice([INT_MAX, -INT_MAX - 1, -INT_MAX, INT_MAX - 1, 0, 1])
    return rnd.randint(-INT_MAX - 1, INT_MAX)


LONG_SIZES = [9, 10, 11, 12, 13, 14, 20, 21, 27, 28, 43, 44, 59, 60, 61]


def g_head(rnd):
    """heads of 0..3 atoms; 6 %: a LONG head whose size sits at a block boundary of the rule builder's storage (64 bytes = 11 atoms in front of
    a sum bound, then the growth steps) - seeded C04-r5 / C10-r8: a pointer kept across the reallocation that the bound of a sum body triggers"""
    if rnd.random() < 0.06:
        n = rnd.choice(LONG_SIZES)
        return [i + 1 for i in range(n)] if rnd.random() < 0.6 else [g_atom(rnd) for _ in range(n)]
    return [g_atom(rnd) for _ in range(g_len(rnd, 3))]


def g_dir(rnd):
    k = rnd.choice([4, 4, 4, 5, 5, 6, 6, 7, 8, 8, 9, 10, 11, 12])
    if k == 4:
        return (4, rnd.choice([0, 0, 1]), g_head(rnd), [g_lit(rnd) for _ in range(g_len(rnd, 4))])
    if k == 5:
        body = [(g_lit(rnd), rnd.choice([0, 1, 1, 2, 3, INT_MAX, rnd.randint(0, INT_MAX)])) for _ in range(g_len(rnd, 4))]
        return (5, rnd.choice([0, 0, 1]), g_head(rnd), g_int(rnd), body)
    if k == 6:
        return (6, g_int(rnd), [(g_lit(rnd), g_int(rnd)) for _ in range(g_len(rnd, 4))])
    if k == 7:
        return (7, [g_atom(rnd) for _ in range(g_len(rnd, 4))])
    if k == 8:
        return (8, rnd.choice(TERMS), [g_lit(rnd) for _ in range(g_len(rnd, 3))])
    if k == 9:
        return (9, g_atom(rnd), rnd.randint(0, 3))
    if k == 10:
        return (10, [g_lit(rnd) for _ in range(g_len(rnd, 4))])
    if k == 11:
        return (11, g_atom(rnd), rnd.randint(0, 5), g_int(rnd), rnd.choice([0, 0, 1, 2, INT_MAX, rnd.randint(0, INT_MAX)]),
                [g_lit(rnd) for _ in range(g_len(rnd, 3))])
    return (12, g_int(rnd), g_int(rnd), [g_lit(rnd) for _ in range(g_len(rnd, 3))])


def g_program(rnd):
    nsteps = rnd.choice([1, 1, 1, 2, 3, 4])
    inc = nsteps > 1 or rnd.random() < 0.2
    prog = [(1, inc)]
    for s in range(nsteps):
        prog.append((2,))
        n = rnd.choice([0, 1, 2, 3, 5])
        if s > 0 and s == nsteps - 1 and n == 0:
            n = 1                                   # a trailing "#step." opens no step
        prog += [g_dir(rnd) for _ in range(n)]
        prog.append((3,))
    return prog


def mk_case(text, prog=None):
    b = text.encode('latin-1')
    return [len(b)] + list(b) + (enc_all(norm(prog)) if prog is not None else [])


FIXED_VALID = [
    [(1, False), (2,), (8, b'"  a b"', [1]), (3,)],
    [(1, False), (2,), (4, 0, [1], [-2]), (3,)],
    [(1, False), (2,), (4, 0, [], []), (4, 1, [], []), (4, 1, [], [1]), (3,)],
    [(1, False), (2,), (5, 0, [1], -2, []), (5, 1, [], 0, [(1, 0), (2, 0)]), (6, 0, []), (7, []), (10, []), (3,)],
    [(1, True), (2,), (3,), (2,), (4, 0, [24], [-24, 26]), (3,)],
]
FIXED_TEXT = ['#output "  a b" : x1.', 'a :- not\tb.', 'a :- not\nb.', 'a :- 1 {b = -2}.', '#minimize{a = -2}.', 'a :- notb.', 'a :- not', 'x_ 5.', 'x+5.', 'x_+5.',
              '#incremental.\na.\n#step.', '#step.', 'a. #incremental. b.', '#incremental.#step.#step. a.', 'a :- 1 {b = 0, c}.', '{a;b,c}.', 'a;b|c.',
              '#heuristic a. [1@-1, level]', '#heuristic a. [1, truefalse]', '#external a. [free', '#edge(1,2 : a.', '#output f(a,"x y", (b) ) : a.',
              '#output f(a.', '#output "abc', 'A.', '1.', '', ' \n', '% only a comment', 'x2147483647.', 'x2147483648.', 'x0.', 'a :- 2147483648 {b}.',
              '#project.', '#project{}.', '#assume.', '#minimize{}.', '#minimize{}@', 'not a.', '{not a}.', 'a :- -1{b=1,not c=2}.', 'a:-b\r\n.\r%x\rb.']


# texts with their program: white space / blank lines after leading comment lines, comments around #incremental and #step
P_AB = [(1, True), (2,), (4, 0, [1], []), (3,), (2,), (4, 0, [2], []), (3,)]
FIXED_PAIRS = [
    ('% c\n\n#incremental.\na.\n#step.\nb.', P_AB),
    ('% c\n  #incremental. a. #step. b.', P_AB),
    ('% c\n%d\n \n#incremental.\n% e\n \n a.\n% f\n\t#step.\n% g\n b.\n% h\n', P_AB),
    ('\n\n% c\r\n\r\n#incremental .\r\n a .\r\n#step .\r\n b .\r\n', P_AB),
    ('% c\n\n a.', [(1, False), (2,), (4, 0, [1], []), (3,)]),
]


def mutate_text(rnd, t):
    if not t:
        return t
    r = rnd.random()
    i = rnd.randrange(len(t))
    if r < 0.3:
        return t[:i] + t[i + 1:]
    if r < 0.6:
        return t[:i] + rnd.choice(['.', ',', ';', '{', '}', ':', '-', '1', 'x', 'a', ' ', '"', '#', '=', '@', '\n', 'not ', '(', ')', '%', '\\']) + t[i:]
    if r < 0.8:
        j = rnd.randrange(len(t))
        i, j = min(i, j), max(i, j)
        return t[:i] + t[j:]
    return t[:i] + t[i:].replace(rnd.choice([' ', ',', '.', ':-']), rnd.choice(['', ';', ' ', '. ']), 1)


def gen(seed, tier):
    rnd = random.Random(seed * 104729 + 10)
    total = {'quick': 3000, 'thorough': 100000, 'search': 6000}.get(tier, 3000)
    out = []
    for p in FIXED_VALID:
        out.append((mk_case(print_text(rnd, p, plain=True), p), {'kind': 'fixed-valid-plain'}))
        for _ in range(3):
            out.append((mk_case(print_text(rnd, p), p), {'kind': 'fixed-valid-layout'}))
    for t, p in FIXED_PAIRS:
        out.append((mk_case(t, p), {'kind': 'fixed-valid-text'}))
    for t in FIXED_TEXT:
        out.append((mk_case(t), {'kind': 'fixed-text'}))
    while len(out) < total:
        p = g_program(rnd)
        out.append((mk_case(print_text(rnd, p, plain=True), p), {'kind': 'valid-plain'}))
        k = rnd.choice([2, 3, 5])
        texts = [print_text(rnd, p) for _ in range(k)]
        for t in texts:
            out.append((mk_case(t, p), {'kind': 'valid-layout'}))
        for _ in range(2):
            t = rnd.choice(texts)
            for _ in range(rnd.choice([1, 1, 2, 3])):
                t = mutate_text(rnd, t)
            out.append((mk_case(t), {'kind': 'malformed-mutation'}))
    return out[:total]


def shrink(case, fails):
    text, prog = split(case)
    if prog is not None:
        # drop directives while the failure persists (re-print canonically)
        rnd = random.Random(1)
        changed = True
        while changed:
            changed = False
            for i in range(len(prog) - 1, -1, -1):
                if prog[i][0] in (1, 2, 3):
                    continue
                t = prog[:i] + prog[i + 1:]
                c = mk_case(print_text(rnd, t, plain=True), t)
                if fails(c):
                    prog = t
                    case = c
                    changed = True
        return case
    b = list(text)
    changed = True
    while changed:
        changed = False
        for i in range(len(b) - 1, -1, -1):
            t = b[:i] + b[i + 1:]
            c = [len(t)] + t
            if fails(c):
                b = t
                case = c
                changed = True
    return case
