"""C12 - theory store returns what was stored, tracks steps, replays faithfully.

Case:  np probe_1..probe_np  ops...        (see coq/C12/Model.v run_case / harness/h_c12.cpp)
  1 id num | 2 id len bytes (StringSpan) | 3 id len bytes (const char*) | 4 id func n args | 5 id tuple n args
  6 id (removeTerm) | 7 id n terms cond (addElement) | 8 id cond (setCondition) | 9 atom term n elems
  10 atom term n elems op rhs | 11 update | 12 reset | 13 m r (filter: atom % m == r) | 14 mode (visit: 0 all, 1 current)

Provenance of arguments (harness only; model and oracle see values): when alias_mode(case) != 0 the harness passes the
STORE'S OWN memory wherever the requested id list / symbol equals what the store currently holds for an item - first of
all for the very id the call re-defines (td.addTerm(id, g, td.getTerm(id).terms()) after update(), the symbol's own
symbol() pointer, the element's own terms()), otherwise the span of another stored term / element / atom.

The oracle is an independent shadow table (python dicts) with a live-allocation expectation; it judges the
implementation's observation alone.
"""
import random

PID = 'C12'
HARNESS = 'h_c12'
MODEL_MODULE = 'V.C12.Model'
DEFERRED = 2 ** 32 - 1
INT_MIN = -2 ** 31
INT_MAX = 2 ** 31 - 1
# harness/h_c12.cpp W_*: the ways of walking a TheoryElementIterator / TheoryTermIterator (IteratorAdaptor) that are compared
# with the direct begin()/size() view of the item
WALK_BITS = [(1, 'prefix-increment'), (2, 'postfix-increment'), (4, 'prefix-decrement'), (8, 'postfix-decrement'), (16, 'dereference'),
             (32, 'comparison'), (64, 'copy-swap-construct'), (128, 'std-bidirectional-algorithms')]
NAMES = {1: 'addNum', 2: 'addSym', 3: 'addSymC', 4: 'addFunc', 5: 'addTuple', 6: 'removeTerm', 7: 'addElement',
         8: 'setCondition', 9: 'addAtom', 10: 'addAtomGuard', 11: 'update', 12: 'reset', 13: 'filter', 14: 'visit'}

RULE = ('cases = (probe ids, history of TheoryData operations: addTerm x5, removeTerm, addElement, setCondition, addAtom x2, update, '
        'reset, filter, accept(all|current) with a recursive printing visitor); ids dense (0..5) or sparse (0, gaps, up to 16384), '
        'compound nesting up to 6 (chains, cycles, dangling references), numbers incl. INT_MIN/-1/INT_MAX, empty id lists, symbols of '
        'arbitrary non-NUL bytes (and a NUL kind), redefinition within and across update(), deferred conditions set once/twice, filter, '
        'reset-and-reuse, 0-4 marks; PUBLIC ITERATOR ADAPTORS: every element of a probe id, every atom, every compound term read back after an op and every item '
        'handed to the visitor by accept() is also walked through TheoryElementIterator / TheoryTermIterator (begin/end(TheoryData, atom|element) and the public constructor) '
        'forwards with prefix and postfix ++, backwards from end() with prefix and postfix --, dereferenced with * and -> (same object as getElement/getTerm, or the same logic_error), '
        'compared with ==/!= (also against a default-constructed one and one of another store), copied, assigned, swapped, and driven by std::distance/next/prev/advance/reverse_iterator; '
        'each walk must agree with the direct begin()/size() view (observed as a mask, 0 = all agree); PROVENANCE of arguments: in 3 of 4 cases (hash of the case) the harness passes the store\'s own memory '
        '(getTerm(i).begin(), getElement(i).begin(), atom->begin(), getTerm(i).symbol()) wherever the requested id list / symbol equals what the store holds - '
        'the item being re-defined first (addTerm(id, g, getTerm(id).terms()) after update()), else another stored item; 8 % of the random operations and a stream '
        '"own-span" (300 cases) re-define items from their own stored content; after every op the lookups of all probe ids, the atom list, currBegin and the live allocations are '
        'observed; non-trivial = history with >= 4 successful mutations and (a refused op or a mark or a visit or a removal); distinct = distinct case tuples')
TRUSTED_BASE = ['allocator modelled as returning fresh 4-aligned addresses (the code never compares or reuses addresses); MemoryRegion (malloc/realloc) '
                'growth of the id-indexed stacks modelled in closed form (size := max size (id+1))',
                'harness/h_c12.cpp replaces global operator new/delete to count the library\'s live allocations and their kind; its provenance switch (struct Own) decides from a hash of the case whether equal content is passed as the store\'s own memory',
                'props/C12.py shadow table (oracle on the implementation)',
                'the recursive visitor of the harness (marks an item before descending) is test scaffolding, modelled as visit_term/visit_elem/visit_atom',
                'the public iterator adaptors (IteratorAdaptor) are not modelled: the harness compares every walk over them with the direct view of the same item in C++ and prints the mask of differing walks (model: constant 0, oracle: must be 0)']
ASSUMPTIONS = ['ids, atoms and conditions are 32-bit unsigned values, numbers 32-bit signed; function ids < 2^31 (FuncData::base is int32_t), atoms < 2^31 (31-bit field)',
               'symbol contents are compared as C strings (TheoryTerm::symbol() is a const char*): a symbol with an embedded NUL comes back truncated (known finding symbol-nul)',
               'ids up to 16384 are exercised against the real code (the stacks realloc on every push: 2^20 is quadratic under ASan); the proofs are for all ids',
               'allocation failure (bad_alloc) is not modelled']
ALLOWED_AXIOMS = []
TECHNIQUE = 'Coq refinement + ledger invariant proof of an executable model + differential correspondence with the implementation'
DESIGN_REF = 'DESIGN.md section 5, C12'
LEVEL_TEXT = ('Machine-checked (Coq): the concrete model of TheoryData (sparse id-indexed stacks of tagged 64-bit words / pointers, frame triple, heap '
              'ledger with allocation kinds) refines a plain table for every operation and every history; the ledger invariant (live cells = exactly '
              'the stored items, each owned once) holds after every operation including refused ones and the ledger is empty after reset; accept() '
              'an item of an earlier step re-defined from its own stored content comes back with exactly that content (arguments are values; the harness passes '
              'the store\'s own spans / symbols to check it); accept() overloads visit exactly the stored referenced items (current mode: the new ones), the recursive printing visitor is sound, terminating and complete for the reference closure; the tagged word returns every 32-bit number. The public iterator adaptors (TheoryElementIterator / TheoryTermIterator) are checked by the harness only: every walk (prefix/postfix ++ and --, *, ->, ==, !=, copy, swap, std algorithms) over every item read back or visited agrees with the stored id list. The model is tied to the '
              'code by differential correspondence (sanitizer build, counting operator new/delete) and an independent shadow-table oracle.')
LEVEL_NOTE = ('Trusted: Coq kernel/vm_compute, extraction+driver (sample cross-checked), harness, translator; allocator and realloc growth modelled; '
              'heap addresses are fresh and never reused in the model.')


# ------------------------------------------------------------------------------------------------
# decoding
# ------------------------------------------------------------------------------------------------
def decode(c):
    np_ = c[0] if c else 0
    probes = [x % 2 ** 32 for x in c[1:1 + np_]]
    p = 1 + np_
    ops = []

    def lst():
        nonlocal p
        n = c[p]
        v = c[p + 1:p + 1 + n]
        p += 1 + n
        return list(v)
    try:
        while p < len(c):
            o = c[p]
            p += 1
            if o == 1:
                ops.append((1, c[p], c[p + 1])); p += 2
            elif o in (2, 3):
                i = c[p]; p += 1
                ops.append((o, i, lst()))
            elif o in (4, 5):
                i, f = c[p], c[p + 1]; p += 2
                ops.append((o, i, f, lst()))
            elif o == 6:
                ops.append((6, c[p])); p += 1
            elif o == 7:
                i = c[p]; p += 1
                t = lst()
                ops.append((7, i, t, c[p])); p += 1
            elif o == 8:
                ops.append((8, c[p], c[p + 1])); p += 2
            elif o == 9:
                a, t = c[p], c[p + 1]; p += 2
                ops.append((9, a, t, lst()))
            elif o == 10:
                a, t = c[p], c[p + 1]; p += 2
                e = lst()
                ops.append((10, a, t, e, c[p], c[p + 1])); p += 2
            elif o in (11, 12):
                ops.append((o,))
            elif o == 13:
                ops.append((13, c[p], c[p + 1])); p += 2
            elif o == 14:
                ops.append((14, c[p])); p += 1
            else:
                break
    except IndexError:
        pass
    return probes, ops


def enc_op(o):
    k = o[0]
    if k == 1:
        return [1, o[1], o[2]]
    if k in (2, 3):
        return [k, o[1], len(o[2])] + list(o[2])
    if k in (4, 5):
        return [k, o[1], o[2], len(o[3])] + list(o[3])
    if k == 6:
        return [6, o[1]]
    if k == 7:
        return [7, o[1], len(o[2])] + list(o[2]) + [o[3]]
    if k == 8:
        return [8, o[1], o[2]]
    if k == 9:
        return [9, o[1], o[2], len(o[3])] + list(o[3])
    if k == 10:
        return [10, o[1], o[2], len(o[3])] + list(o[3]) + [o[4], o[5]]
    if k in (11, 12):
        return [k]
    if k in (13, 14):
        return list(o)
    raise ValueError(o)


def encode(probes, ops):
    c = [len(probes)] + list(probes)
    for o in ops:
        c += enc_op(o)
    return c


def bstr(b):
    return bytes(x & 255 for x in b).decode('latin-1').encode('unicode_escape').decode()


def alias_mode(c):
    """harness/h_c12.cpp aliasMode: 0 = caller-owned arguments only; 1, 3 = pass the store's own span / symbol wherever the
    requested content equals the stored one (the item being re-defined first); 2 = another stored item first"""
    return (sum((v & 0xffffffff) * (i + 1) for i, v in enumerate(c)) & 0xffffffff) % 4


def own_marks(c):
    """per op: '' / '@own' (argument = the stored span/symbol of the very item being re-defined) / '@stored' (of another stored
    item) - what the harness does in the case's alias mode (which of several equal candidates it takes does not matter here)"""
    probes, ops = decode(c)
    mode = alias_mode(c)
    sh = Shadow()
    marks = []
    for o in ops:
        k, m = o[0], ''
        if mode != 0:
            if k in (2, 3):
                want = cut0(o[2])
                if k == 3 or 0 not in o[2]:
                    t0 = sh.T.get(o[1] % 2 ** 32)
                    mine = t0 is not None and t0[0] == 's' and cut0(t0[1]) == want
                    oth = any(t[0] == 's' and cut0(t[1]) == want for i, t in sh.T.items() if i != o[1] % 2 ** 32)
                    m = '@own' if mine and (mode != 2 or not oth) else ('@stored' if oth else ('@own' if mine else ''))
            elif k in (4, 5, 7, 9, 10):
                lst = [x % 2 ** 32 for x in (o[3] if k != 7 else o[2])]
                if lst:
                    i = o[1] % 2 ** 32
                    mine = (k in (4, 5) and sh.T.get(i, ('',))[0] == 'c' and sh.T[i][2] == lst) or (k == 7 and i in sh.E and sh.E[i][0] == lst)
                    oth = any(t[0] == 'c' and t[2] == lst for j, t in sh.T.items() if not (k in (4, 5) and j == i)) or \
                        any(e[0] == lst for j, e in sh.E.items() if not (k == 7 and j == i)) or any(a[2] == lst for a in sh.A)
                    m = '@own' if mine and (mode != 2 or not oth) else ('@stored' if oth else ('@own' if mine else ''))
        marks.append(m)
        if k != 14:
            sh.apply(norm_op(o))
    return marks


def norm_op(o):
    """ids as the 32-bit values the store sees (the shadow compares lists of them)"""
    k = o[0]
    u = lambda x: x % 2 ** 32
    if k in (1,):
        return (1, u(o[1]), o[2])
    if k in (2, 3):
        return (k, u(o[1]), list(o[2]))
    if k in (4, 5):
        return (k, u(o[1]), o[2], [u(x) for x in o[3]])
    if k == 7:
        return (7, u(o[1]), [u(x) for x in o[2]], u(o[3]))
    if k == 9:
        return (9, o[1], u(o[2]), [u(x) for x in o[3]])
    if k == 10:
        return (10, o[1], u(o[2]), [u(x) for x in o[3]], u(o[4]), u(o[5]))
    return o


def describe(c):
    probes, ops = decode(c)
    marks = own_marks(c)
    out = []
    for o, m in zip(ops, marks):
        k = o[0]
        if k in (2, 3):
            out.append('%s(%d,"%s")%s' % (NAMES[k], o[1], bstr(o[2]), m))
        elif k == 14:
            out.append('visit(%s)' % ('current' if o[1] else 'all'))
        else:
            out.append('%s(%s)%s' % (NAMES[k], ','.join(str(x) for x in o[1:]), m))
    note = ''
    if any(marks):
        note = '   [@own: the argument is the store\'s own span/symbol of the item being re-defined, @stored: of another stored item]'
    return 'probes=%s ops=[%s]%s' % (probes, ', '.join(out), note)


# ------------------------------------------------------------------------------------------------
# shadow table
# ------------------------------------------------------------------------------------------------
def cut0(b):
    b = list(b)
    return b[:b.index(0)] if 0 in b else b


class Shadow:
    def __init__(self):
        self.clear()

    def clear(self):
        self.T, self.E, self.A = {}, {}, []
        self.nT = self.nE = 0
        self.bA = self.bT = self.bE = 0

    def new_term(self, i):
        return i in self.T and i >= self.bT

    def new_elem(self, i):
        return i in self.E and i >= self.bE

    def live(self):
        return sum(1 for t in self.T.values() if t[0] != 'n') + len(self.E) + len(self.A)

    def apply(self, o):
        """returns expected exception class (0 none)"""
        k = o[0]
        if k in (1, 2, 3, 4, 5):
            i = o[1]
            if self.new_term(i):
                return 1
            if k == 1:
                self.T[i] = ('n', o[2])
            elif k == 2:
                self.T[i] = ('s', list(o[2]))
            elif k == 3:
                self.T[i] = ('s', cut0(o[2]))
            else:
                self.T[i] = ('c', o[2], list(o[3]))
            self.nT = max(self.nT, i + 1)
            return 0
        if k == 6:
            self.T.pop(o[1], None)
            return 0
        if k == 7:
            i = o[1]
            if self.new_elem(i):
                return 1
            self.E[i] = (list(o[2]), o[3])
            self.nE = max(self.nE, i + 1)
            return 0
        if k == 8:
            i = o[1]
            if i not in self.E or self.E[i][1] != DEFERRED:
                return 1
            self.E[i] = (self.E[i][0], o[2])
            return 0
        if k == 9:
            self.A.append((o[1], o[2], list(o[3]), None))
            return 0
        if k == 10:
            self.A.append((o[1], o[2], list(o[3]), (o[4], o[5])))
            return 0
        if k == 11:
            self.bA, self.bT, self.bE = len(self.A), self.nT, self.nE
            return 0
        if k == 12:
            self.clear()
            return 0
        if k == 13:
            m, r = max(1, o[1]), o[2]
            self.A = self.A[:self.bA] + [a for a in self.A[self.bA:] if not (a[0] != 0 and a[0] % m == r)]
            return 0
        return 0

    # directives as the integer records the harness prints
    def term_rec(self, i):
        t = self.T[i]
        if t[0] == 'n':
            return [13, i, t[1]]
        if t[0] == 's':
            return [14, i, len(t[1])] + t[1]
        return [15, i, t[1], len(t[2])] + t[2]

    def term_info(self, i):
        t = self.T[i]
        if t[0] == 'n':
            return [0, 0, 0, 0]
        if t[0] == 's':
            return [1, 0, 0, 0]
        return [2, len(t[2]), 1 if t[1] >= 0 else 0, 1 if t[1] < 0 else 0]

    def elem_rec(self, i):
        e = self.E[i]
        return [16, i, len(e[0])] + e[0] + [1, e[1]]

    @staticmethod
    def atom_rec(a):
        if a[3] is None:
            return [17, a[0], a[1], len(a[2])] + a[2]
        return [18, a[0], a[1], len(a[2])] + a[2] + [a[3][0], a[3][1]]

    def term_refs(self, i):
        t = self.T[i]
        if t[0] != 'c':
            return []
        return t[2] + ([t[1]] if t[1] >= 0 else [])

    def reach(self, cur):
        """(atoms, term ids, elem ids, dangling) reachable by following references; cur: only new items are entered."""
        atoms = self.A[self.bA:] if cur else list(self.A)
        terms, elems, dangling = set(), set(), False
        stack = []

        def push_t(i):
            nonlocal dangling
            if cur:
                if self.new_term(i) and i not in terms:
                    terms.add(i); stack.append(i)
            elif i not in self.T:
                dangling = True
            elif i not in terms:
                terms.add(i); stack.append(i)
        for a in atoms:
            push_t(a[1])
            for e in a[2]:
                if cur:
                    if self.new_elem(e) and e not in elems:
                        elems.add(e)
                        for t in self.E[e][0]:
                            push_t(t)
                elif e not in self.E:
                    dangling = True
                elif e not in elems:
                    elems.add(e)
                    for t in self.E[e][0]:
                        push_t(t)
            if a[3] is not None:
                push_t(a[3][0]); push_t(a[3][1])
            while stack:
                i = stack.pop()
                for r in self.term_refs(i):
                    push_t(r)
        return atoms, terms, elems, dangling


# ------------------------------------------------------------------------------------------------
# observation parser (self-delimiting records)
# ------------------------------------------------------------------------------------------------
class Bad(Exception):
    pass


def parse_rec(obs, p):
    tag = obs[p]
    if tag == 13:
        return obs[p:p + 3], p + 3
    if tag == 14:
        n = obs[p + 2]
        return obs[p:p + 3 + n], p + 3 + n
    if tag == 15:
        n = obs[p + 3]
        return obs[p:p + 4 + n], p + 4 + n
    if tag == 16:
        n = obs[p + 2]
        m = obs[p + 3 + n]
        return obs[p:p + 4 + n + m], p + 4 + n + m
    if tag == 17:
        n = obs[p + 3]
        return obs[p:p + 4 + n], p + 4 + n
    if tag == 18:
        n = obs[p + 3]
        return obs[p:p + 6 + n], p + 6 + n
    raise Bad('record tag %r at %d' % (tag, p))


def parse_obs(probes, ops, obs):
    """-> list of per-op dicts, final (code, live)"""
    p = 0
    res = []
    for o in ops:
        d = {'code': obs[p]}
        p += 1
        if o[0] == 14:
            calls = []
            while obs[p] != 0:
                r, p = parse_rec(obs, p)
                calls.append(r)
            p += 1
            d['calls'] = calls
        d['probes'] = []
        for _ in probes:
            e = {'hasT': obs[p], 'newT': obs[p + 1]}
            p += 2
            if obs[p] < 0:
                e['term'] = obs[p]; p += 1
            else:
                r, p = parse_rec(obs, p)
                e['term'] = r
                e['info'] = obs[p:p + 4]; p += 4
            e['hasE'] = obs[p]; e['newE'] = obs[p + 1]
            p += 2
            if obs[p] < 0:
                e['elem'] = obs[p]; p += 1
            else:
                r, p = parse_rec(obs, p)
                e['elem'] = r
            d['probes'].append(e)
        n = obs[p]; p += 1
        d['numAtoms'] = n
        d['atoms'] = []
        for _ in range(n):
            r, p = parse_rec(obs, p)
            d['atoms'].append(r)
        d['curr'] = obs[p]; d['live'] = obs[p + 1]; d['walk'] = obs[p + 2]
        p += 3
        res.append(d)
    fin = obs[p:p + 2]
    if len(fin) != 2 or p + 2 != len(obs):
        raise Bad('trailing data')
    return res, fin


def oracle(c, obs):
    probes, ops = decode(c)
    try:
        per, fin = parse_obs(probes, ops, obs)
    except (Bad, IndexError) as e:
        return ['observation-malformed']
    sh = Shadow()
    sig = []

    def add(s):
        if s not in sig:
            sig.append(s)
    for o, d in zip(ops, per):
        k = o[0]
        if k == 14:
            cur = o[1] != 0
            atoms, terms, elems, dangling = sh.reach(cur)
            calls = d['calls']
            got_t = [r for r in calls if r[0] in (13, 14, 15)]
            got_e = [r for r in calls if r[0] == 16]
            got_a = [r for r in calls if r[0] in (17, 18)]
            # every emitted record is a stored directive, each item at most once
            for r in got_t:
                if r[1] not in sh.T or not same_term(sh, r[1], r, add):
                    add('visit-emits-term-that-is-not-stored')
                elif r[1] not in terms:
                    add('visit-reaches-unreferenced-or-old-term')
            for r in got_e:
                if r[1] not in sh.E or r != sh.elem_rec(r[1]):
                    add('visit-emits-element-that-is-not-stored')
                elif r[1] not in elems:
                    add('visit-reaches-unreferenced-or-old-element')
            if len(set(r[1] for r in got_t)) != len(got_t) or len(set(r[1] for r in got_e)) != len(got_e):
                add('visit-repeats-item')
            want_a = [Shadow.atom_rec(a) for a in atoms]
            if dangling:
                if d['code'] != 1:
                    add('visit-dangling-reference-not-reported')
                if got_a != want_a[:len(got_a)]:
                    add('visit-atoms-differ')
            else:
                if d['code'] != 0:
                    add('visit-unexpected-error')
                else:
                    if got_a != want_a:
                        add('visit-atoms-differ')
                    if set(r[1] for r in got_t) != terms:
                        add('visit-misses-referenced-term')
                    if set(r[1] for r in got_e) != elems:
                        add('visit-misses-referenced-element')
        else:
            was_refused_shape = (k in (4, 5) and sh.new_term(o[1]))
            want = sh.apply(o)
            if d['code'] != want:
                if want == 1 and d['code'] == 0:
                    add('redefinition-or-bad-condition-not-refused:' + NAMES[k])
                elif want == 0:
                    add('unexpected-error:' + NAMES[k])
                else:
                    add('wrong-exception-class:' + NAMES[k])
        # lookups
        for pid, e in zip(probes, d['probes']):
            if e['hasT'] != (1 if pid in sh.T else 0):
                add('hasTerm-differs')
            if e['newT'] != (1 if sh.new_term(pid) else 0):
                add('isNewTerm-differs')
            if pid in sh.T:
                if isinstance(e['term'], int):
                    add('getTerm-fails-on-stored-term')
                else:
                    same_term(sh, pid, e['term'], add, 'getTerm-content-differs')
                    if e.get('info') != sh.term_info(pid):
                        add('term-type-or-size-differs')
            elif e['term'] != -1:
                add('getTerm-of-absent-id-not-logic_error')
            if e['hasE'] != (1 if pid in sh.E else 0):
                add('hasElement-differs')
            if e['newE'] != (1 if sh.new_elem(pid) else 0):
                add('isNewElement-differs')
            if pid in sh.E:
                if e['elem'] != sh.elem_rec(pid):
                    add('getElement-content-differs')
            elif e['elem'] != -1:
                add('getElement-of-absent-id-not-logic_error')
        if d['atoms'] != [Shadow.atom_rec(a) for a in sh.A]:
            add('atoms-differ')
        if d['curr'] != sh.bA:
            add('currBegin-differs')
        if d['walk'] != 0:
            # the harness walked the public iterator adaptors over every item it read back / was handed by accept() and compared
            # each walk with the direct begin()/size() view of the same item: a set bit = that way of walking differed
            named = [n for b, n in WALK_BITS if d['walk'] & b]
            for n in named or ['unknown-bit-%d' % d['walk']]:
                add('iterator-adaptor-walk-differs:' + n)
        if d['live'] != sh.live():
            add('live-allocations-differ:' + ('leak' if d['live'] > sh.live() else 'lost') + ':' + NAMES[k])
    if fin[0] != 0:
        add('destructor-throws')
    if fin[1] != 0:
        add('leak-after-destruction')
    return sig


def same_term(sh, i, rec, add, sigdiff=None):
    want = sh.term_rec(i)
    if rec == want:
        return True
    t = sh.T[i]
    if t[0] == 's' and rec[:2] == [14, i] and rec[3:] == cut0(t[1]) and 0 in t[1]:
        add('symbol-truncated-at-NUL')
        return True
    if sigdiff:
        add(sigdiff)
    return False


def nontrivial(c, obs):
    probes, ops = decode(c)
    try:
        per, fin = parse_obs(probes, ops, obs)
    except (Bad, IndexError):
        return False
    okmut = sum(1 for o, d in zip(ops, per) if o[0] in (1, 2, 3, 4, 5, 7, 9, 10) and d['code'] == 0)
    special = any((d['code'] != 0) or o[0] in (6, 11, 14, 13, 12) for o, d in zip(ops, per))
    return okmut >= 4 and special


# ------------------------------------------------------------------------------------------------
# generators
# ------------------------------------------------------------------------------------------------
NUMS = [0, 1, -1, 2, -2, 7, 42, INT_MIN, INT_MIN + 1, INT_MAX, INT_MAX - 1, 2 ** 30, -2 ** 30, 2 ** 29 - 1, 1073741823, -1073741824, 255, -256]


def rand_sym(rnd, nul=False):
    n = rnd.choice([0, 0, 1, 1, 2, 3, 3, 4, 5, 7, 8, 9, 16, 33])
    b = [rnd.randint(1, 255) for _ in range(n)]
    if rnd.random() < 0.5:
        b = [rnd.choice([97, 98, 43, 45, 42, 60, 61, 120, 121, 48, 200, 255, 1, 127, 128]) for _ in range(n)]
    if nul and b:
        b[rnd.randrange(len(b))] = 0
    return b


def id_pool(rnd, tier='quick'):
    r = rnd.random()
    if r < 0.5:
        return list(range(rnd.choice([2, 3, 4, 6])))
    if r < 0.93:
        return sorted(set([0] + rnd.sample([1, 2, 3, 5, 8, 13, 17, 31, 32, 33, 64, 100, 255, 256, 1000], rnd.randint(2, 5))))
    if r < 0.997 or tier != 'thorough':
        return sorted(set([0, 1] + rnd.sample([2, 7, 100, 1023, 1024, 2000, 4095, 4096], rnd.randint(1, 4))))
    return sorted(set([0, 3, 16384, rnd.choice([9999, 12000, 16383])]))


def own_content_op(rnd, sh, pool):
    """an operation whose id list / symbol EQUALS content the store holds right now (shadow sh), so that the harness can pass
    the store's own memory: mostly the very item being re-defined (new function symbol / tuple type / condition, same
    arguments), sometimes another id or another kind of item built from a stored list.  None if nothing suitable is stored."""
    comp = [(i, t) for i, t in sh.T.items() if t[0] == 'c' and t[2]]
    syms = [(i, t) for i, t in sh.T.items() if t[0] == 's' and 0 not in t[1]]
    elems = [(i, e) for i, e in sh.E.items() if e[0]]
    atoms = [a for a in sh.A if a[2]]
    lists = [t[2] for _, t in comp] + [e[0] for _, e in elems] + [a[2] for a in atoms]
    r = rnd.random()
    old_first = lambda xs, isnew: sorted(xs, key=lambda x: isnew(x[0]))       # items of an earlier step can be re-defined
    if r < 0.40 and comp:
        c2 = old_first(comp, sh.new_term)
        i, t = c2[0] if rnd.random() < 0.6 else rnd.choice(comp)
        names = [j for j, u in sh.T.items() if u[0] == 's']
        if rnd.random() < 0.5:
            return (4, i, rnd.choice(names) if names else rnd.choice(pool), list(t[2]))
        return (5, i, rnd.choice([-1, -2, -3]), list(t[2]))
    if r < 0.55 and syms:
        c2 = old_first(syms, sh.new_term)
        i, t = c2[0] if rnd.random() < 0.6 else rnd.choice(syms)
        j = i if rnd.random() < 0.75 else rnd.choice(pool)
        return (rnd.choice([2, 3]), j, list(t[1]))
    if r < 0.75 and elems:
        c2 = old_first(elems, sh.new_elem)
        i, e = c2[0] if rnd.random() < 0.6 else rnd.choice(elems)
        return (7, i, list(e[0]), rnd.choice([0, 1, 5, DEFERRED, e[1]]))
    if not lists:
        return None
    lst = list(rnd.choice(lists))
    k = rnd.random()
    if k < 0.35:
        if rnd.random() < 0.5:
            return (4, rnd.choice(pool), rnd.choice(pool), lst)
        return (5, rnd.choice(pool), rnd.choice([-1, -2, -3]), lst)
    if k < 0.6:
        return (7, rnd.choice(pool), lst, rnd.choice([0, 3, DEFERRED]))
    t = rnd.choice(list(sh.T)) if sh.T else rnd.choice(pool)
    if rnd.random() < 0.5:
        return (9, rnd.choice([0, 1, 2, 3]), t, lst)
    return (10, rnd.choice([0, 1, 2, 3]), t, lst, rnd.choice(pool), rnd.choice(pool))


def with_alias(probes, ops, modes=(1, 2, 3), pool_extra=(0, 1, 2, 3, 5, 7, 9, 11, 13, 6, 4, 8)):
    """encode, extending the probe list until the case runs in one of the given aliasing modes of the harness"""
    c = encode(probes, ops)
    pr = list(probes)
    for x in pool_extra:
        if alias_mode(c) in modes:
            break
        pr.append(x)
        c = encode(pr, ops)
    return c


def own_span_cases(rnd, n):
    """step 1 builds a store (symbols, numbers, function and tuple terms with 1..9 arguments, elements, atoms); update();
    step 2 re-defines items from their OWN stored content (same arguments, new name / type / condition), builds other items
    from stored lists, removes and re-adds, visits; sometimes a third step re-defines again (reading the block that the
    previous re-definition allocated)."""
    out = []
    for _ in range(n):
        gap = rnd.choice([1, 1, 1, 3, 17])
        nsym = rnd.randint(1, 3)
        ops = []
        syms = [k * gap for k in range(nsym)]
        for i in syms:
            ops.append((rnd.choice([2, 3]), i, rand_sym(rnd) or [102]))
        nums = [(nsym + k) * gap for k in range(rnd.randint(1, 3))]
        for i in nums:
            ops.append((1, i, rnd.choice(NUMS)))
        base = [] + syms + nums
        comps = []
        nxt = (nsym + len(nums)) * gap
        for _k in range(rnd.randint(1, 4)):
            args = [rnd.choice(base + comps) for _a in range(rnd.choice([1, 1, 2, 3, 4, 6, 9]))]
            if rnd.random() < 0.5:
                ops.append((4, nxt, rnd.choice(syms), args))
            else:
                ops.append((5, nxt, rnd.choice([-1, -2, -3]), args))
            comps.append(nxt)
            nxt += gap
        els = []
        for k in range(rnd.randint(1, 3)):
            ops.append((7, k * gap, [rnd.choice(base + comps) for _a in range(rnd.choice([1, 2, 3, 5]))], rnd.choice([0, 2, DEFERRED])))
            els.append(k * gap)
        for k in range(rnd.randint(0, 2)):
            es = [rnd.choice(els) for _a in range(rnd.choice([1, 2, 3]))]
            ops.append((9, k + 1, rnd.choice(syms), es) if rnd.random() < 0.5 else (10, k + 1, rnd.choice(syms), es, rnd.choice(syms), rnd.choice(base)))
        ops.append((11,))
        pool = sorted(set(base + comps + els + [nxt, nxt + gap]))
        sh = Shadow()
        for o in ops:
            sh.apply(o)
        for step in range(rnd.choice([1, 1, 2])):
            for _k in range(rnd.randint(2, 6)):
                o = own_content_op(rnd, sh, pool)
                if o is None or rnd.random() < 0.15:
                    o = rnd.choice([(6, rnd.choice(comps + syms)), (14, rnd.randint(0, 1)), (1, rnd.choice(pool), 5)])
                if o[0] != 14:
                    sh.apply(o)
                ops.append(o)
            ops.append(rnd.choice([(14, 0), (14, 1), (11,)]))
        ops.append((14, 0))
        probes = rnd.sample(pool, min(len(pool), 4))
        for x in comps[:2] + els[:1]:
            if x not in probes:
                probes.append(x)
        out.append(with_alias(probes, ops))
    return out


def gen_history(rnd, nops, pool, nul=False, heavy_redefine=False, own=0.08):
    """Generate ops while simulating the shadow so that ops hit interesting states."""
    sh = Shadow()
    ops = []
    marks = 0
    max_marks = rnd.choice([0, 1, 1, 2, 2, 3, 4])

    def some_id(existing, table):
        ex = [i for i in table]
        r = rnd.random()
        if existing and ex and r < 0.85:
            return rnd.choice(ex)
        return rnd.choice(pool)

    def ref_terms(n):
        out = []
        for _ in range(n):
            r = rnd.random()
            if sh.T and r < 0.8:
                out.append(rnd.choice(list(sh.T)))
            else:
                out.append(rnd.choice(pool))
        return out
    for _ in range(nops):
        r = rnd.random()
        if heavy_redefine and sh.T and rnd.random() < 0.35:
            r = rnd.random() * 0.42
        o = own_content_op(rnd, sh, pool) if rnd.random() < own else None
        if o is not None:
            pass
        elif r < 0.10:
            i = some_id(rnd.random() < 0.35, sh.T)
            o = (1, i, rnd.choice(NUMS) if rnd.random() < 0.7 else rnd.randint(INT_MIN, INT_MAX))
        elif r < 0.20:
            i = some_id(rnd.random() < 0.35, sh.T)
            o = (rnd.choice([2, 2, 3]), i, rand_sym(rnd, nul and rnd.random() < 0.6))
        elif r < 0.34:
            i = some_id(rnd.random() < 0.4, sh.T)
            syms = [j for j, t in sh.T.items() if t[0] == 's']
            f = rnd.choice(syms) if syms and rnd.random() < 0.8 else rnd.choice(pool)
            args = ref_terms(rnd.choice([0, 0, 1, 1, 2, 3]))
            if rnd.random() < 0.06:
                args.append(i)      # cycle
            o = (4, i, f, args)
        elif r < 0.42:
            i = some_id(rnd.random() < 0.4, sh.T)
            o = (5, i, rnd.choice([-1, -2, -3]), ref_terms(rnd.choice([0, 0, 1, 2, 4])))
        elif r < 0.49:
            o = (6, some_id(True, sh.T))
        elif r < 0.62:
            i = some_id(rnd.random() < 0.35, sh.E)
            cond = rnd.choice([0, 0, DEFERRED, DEFERRED, 1, 5, 2 ** 31, DEFERRED - 1])
            o = (7, i, ref_terms(rnd.choice([0, 1, 1, 2, 3])), cond)
        elif r < 0.69:
            de = [j for j, e in sh.E.items() if e[1] == DEFERRED]
            i = rnd.choice(de) if de and rnd.random() < 0.7 else some_id(True, sh.E)
            o = (8, i, rnd.choice([0, 1, 7, DEFERRED, 2 ** 31 + 1]))
        elif r < 0.80:
            at = rnd.choice([0, 0, 1, 2, 3, 4, 5, 6, 2 ** 31 - 1])
            t = some_id(True, sh.T)
            es = []
            for _ in range(rnd.choice([0, 1, 1, 2, 3])):
                es.append(rnd.choice(list(sh.E)) if sh.E and rnd.random() < 0.85 else rnd.choice(pool))
            if rnd.random() < 0.5:
                o = (9, at, t, es)
            else:
                g = ref_terms(2)
                o = (10, at, t, es, g[0], g[1])
        elif r < 0.87:
            if marks < max_marks:
                o = (11,)
                marks += 1
            else:
                o = (14, rnd.randint(0, 1))
        elif r < 0.89:
            o = (12,)
        elif r < 0.93:
            m = rnd.choice([1, 2, 2, 3])
            o = (13, m, rnd.randrange(m))
        else:
            o = (14, rnd.randint(0, 1))
        sh.apply(o)
        ops.append(o)
    return ops


def chain_case(rnd, depth, base_id, gap):
    """f(f(...f(x)...)) of the given depth, an element and an atom over it; visits in both modes around a mark."""
    ops = [(2, base_id, [102]), (1, base_id + gap, rnd.choice(NUMS))]
    prev = base_id + gap
    nxt = base_id + 2 * gap
    for _ in range(depth):
        if rnd.random() < 0.5:
            ops.append((4, nxt, base_id, [prev]))
        else:
            ops.append((5, nxt, rnd.choice([-1, -2, -3]), [prev, prev]))
        prev = nxt
        nxt += gap
    ops += [(7, 0, [prev], DEFERRED), (10, 1, base_id, [0], base_id, prev), (14, 0), (14, 1), (11,), (14, 1), (8, 0, 3),
            (4, nxt, base_id, [prev]), (7, gap, [nxt], 0), (9, 2, base_id, [0, gap]), (14, 1), (14, 0), (13, 1, 0), (14, 0)]
    probes = [base_id, prev, nxt, 0, gap]
    return encode(probes, ops)


FIXED = [
    # the leak shape (bac2265): compound on an id refused as redefinition
    ([2, 0, 1, 1, 0, 7, 2, 1, 1, 102, 4, 0, 1, 1, 0], 'refused-compound'),
    ([2, 0, 1, 1, 0, 7, 2, 1, 1, 102, 5, 0, -2, 2, 0, 1], 'refused-compound'),
    ([2, 0, 1, 2, 0, 1, 102, 4, 0, 0, 0, 4, 0, 0, 1, 0, 11, 4, 0, 0, 1, 0, 4, 0, 0, 0], 'refused-compound'),
    # empty id lists (dcb2b38)
    ([1, 0, 5, 0, -1, 0, 7, 0, 0, 0, 9, 0, 0, 0, 4, 1, 0, 0, 14, 0], 'empty-lists'),
    # numbers at the edges
    ([3, 0, 1, 2, 1, 0, -2147483648, 1, 1, -1, 1, 2, 2147483647, 11, 1, 0, -1, 1, 1, -2147483648], 'number-boundary'),
    ([2, 0, 1, 1, 0, 1073741823, 1, 1, 1073741824, 11, 1, 0, -1073741824, 1, 1, -1073741825], 'number-boundary'),
    # deferred condition set once / twice, and on a non-deferred element
    ([2, 0, 1, 7, 0, 0, 4294967295, 8, 0, 4, 8, 0, 5, 7, 1, 0, 0, 8, 1, 3, 8, 2, 1, 11, 7, 0, 0, 4294967295, 8, 0, 4294967295, 8, 0, 9], 'deferred'),
    # cyclic term and visit
    ([2, 0, 1, 2, 0, 1, 102, 4, 1, 0, 1, 1, 9, 1, 1, 0, 14, 0, 14, 1, 11, 14, 1, 14, 0], 'cycle'),
    ([2, 0, 1, 4, 0, 0, 1, 1, 4, 1, 0, 1, 0, 9, 1, 1, 0, 14, 0], 'cycle'),
    # dangling references
    ([2, 0, 5, 1, 0, 1, 9, 1, 5, 0, 14, 0, 14, 1], 'dangling'),
    ([2, 0, 1, 1, 0, 1, 9, 1, 0, 1, 1, 14, 0, 14, 1, 7, 1, 1, 3, 0, 14, 0], 'dangling'),
    # filter with atom 0, across a mark
    ([1, 0, 1, 0, 1, 9, 0, 0, 0, 9, 1, 0, 0, 9, 2, 0, 0, 11, 9, 0, 0, 0, 9, 1, 0, 0, 9, 2, 0, 0, 9, 3, 0, 0, 13, 1, 0, 13, 2, 0, 12, 13, 1, 0], 'filter'),
    # reset and reuse
    ([2, 0, 3, 2, 3, 2, 97, 98, 11, 12, 2, 3, 1, 99, 2, 3, 1, 100, 11, 2, 3, 0], 'reset-reuse'),
    # remove and re-add an old id inside the step: not "new", so a second definition replaces it
    ([2, 0, 1, 2, 0, 1, 97, 2, 1, 1, 98, 11, 6, 0, 2, 0, 1, 99, 2, 0, 1, 100, 4, 0, 1, 0, 6, 1, 6, 1, 6, 7], 'remove-readd'),
    # function id with the sign bit: base is int32_t, the term becomes a "tuple"
    ([1, 0, 4, 0, 4294967295, 0, 4, 0, 2147483648, 0], 'funcid-signbit'),
    # a large id (the stacks grow one push - one realloc - at a time)
    ([2, 8192, 8191, 1, 8192, -1, 7, 8192, 1, 8192, 0, 11, 1, 8192, 5, 6, 8192, 2, 8192, 1, 97], 'large-id'),
    # atom id wider than the 31-bit field
    ([0, 9, 4294967295, 0, 0, 9, 2147483648, 0, 0, 13, 1, 0], 'atom-31bit'),
]
# seeded change C12-r7 / repairs 4c76fde, fe607fc: an item of an earlier step re-defined from its OWN stored content (the harness
# passes the store's span / symbol in these cases: alias_mode != 0)
FIXED += [(with_alias(pr, ops, (1, 3)), 'own-content') for pr, ops in [
    # 10 := f(1..6), 11 := (1..6); update; 10 := g(own args), 11 := {own args}
    ([10, 11, 12], [(1, i, 11 * i) for i in range(1, 7)] + [(2, 7, [102]), (2, 8, [103]), (4, 10, 7, [1, 2, 3, 4, 5, 6]), (5, 11, -1, [1, 2, 3, 4, 5, 6]),
                    (7, 0, [10, 11], 0), (9, 1, 7, [0]), (11,), (4, 10, 8, [1, 2, 3, 4, 5, 6]), (5, 11, -3, [1, 2, 3, 4, 5, 6]), (2, 12, [104]), (14, 0)]),
    # the symbol from its own symbol() pointer (StringSpan and const char* overloads), then used again
    ([0, 1], [(2, 0, [97, 95, 114, 97, 116, 104, 101, 114, 95, 108, 111, 110, 103, 95, 115, 121, 109, 98, 111, 108]), (1, 1, 7), (11,),
              (2, 0, [97, 95, 114, 97, 116, 104, 101, 114, 95, 108, 111, 110, 103, 95, 115, 121, 109, 98, 111, 108]), (11,),
              (3, 0, [97, 95, 114, 97, 116, 104, 101, 114, 95, 108, 111, 110, 103, 95, 115, 121, 109, 98, 111, 108]), (4, 2, 0, [1])]),
    # the element from its own terms() with a new condition
    ([0, 1], [(2, 0, [112]), (1, 1, 7), (7, 0, [0, 1, 1, 0, 1, 0, 1], 3), (9, 1, 0, [0]), (11,), (7, 0, [0, 1, 1, 0, 1, 0, 1], 9), (7, 1, [0, 1, 1, 0, 1, 0, 1], DEFERRED), (14, 0)]),
    # refused inside the step (own span passed, nothing may change or leak), then accepted after the mark; other ids from the same span
    ([3, 4], [(1, 0, 1), (2, 1, [102]), (4, 3, 1, [0, 0, 3]), (4, 3, 1, [0, 0, 3]), (11,), (5, 3, -2, [0, 0, 3]), (4, 4, 1, [0, 0, 3]), (7, 2, [0, 0, 3], 0), (9, 5, 1, [0, 0, 3]), (14, 0)]),
]]
# seeded change C12-r15: the public iterator adaptors are walked over every item read back / visited (harness walkAdaptor): lists of 0, 1, 2 and 5
# ids, with repeated and with dangling ids (dereference = the logic_error of getElement / getTerm), before and after a mark
FIXED += [(encode(pr, ops), 'iterator-walk') for pr, ops in [
    ([0, 1, 2, 3, 4], [(2, 0, [102]), (1, 1, 7), (4, 2, 0, [1]), (5, 3, -1, [1, 2, 1, 0, 2]), (4, 4, 0, []), (7, 0, [], 0), (7, 1, [3], 0), (7, 2, [0, 1], DEFERRED),
                       (7, 3, [2, 3, 2, 1, 0], 5), (9, 1, 0, []), (9, 2, 0, [1]), (10, 3, 0, [3, 0, 3, 2, 1], 0, 1), (14, 0), (11,), (7, 4, [4, 4], 0), (9, 4, 0, [4, 3]), (14, 1), (14, 0)]),
    ([0, 1, 9], [(2, 0, [102]), (7, 0, [0, 9, 0], 0), (9, 1, 0, [0, 9, 0]), (4, 1, 0, [9, 0]), (14, 1), (14, 0)]),
]]
# the shapes that are outside the stated assumptions are kept out of the default stream
OUT_OF_ASSUMPTIONS = ('funcid-signbit', 'atom-31bit')


def gen(seed, tier):
    rnd = random.Random(seed * 1000003 + 12)
    total = {'quick': 4000, 'thorough': 120000, 'search': 5000}.get(tier, 4000)
    out = []
    for c, k in FIXED:
        if k not in OUT_OF_ASSUMPTIONS:
            out.append((c, {'kind': 'fixed-' + k}))
    for depth in range(0, 7):
        for base, gap in ((0, 1), (1, 3), (5, 100)):
            out.append((chain_case(rnd, depth, base, gap), {'kind': 'chain-depth'}))
    for c in own_span_cases(rnd, {'quick': 300, 'thorough': 6000, 'search': 400}.get(tier, 300)):
        out.append((c, {'kind': 'own-span'}))
    total += {'quick': 300, 'thorough': 6000, 'search': 400}.get(tier, 300)      # on top of the random stream
    while len(out) < total:
        pool = id_pool(rnd, tier)
        big = max(pool) > 1100
        r = rnd.random()
        nul = r < 0.03
        heavy = 0.03 <= r < 0.3
        nops = rnd.randint(4, 14) if big else rnd.choice([rnd.randint(3, 12), rnd.randint(10, 30)])
        ops = gen_history(rnd, nops, pool, nul=nul, heavy_redefine=heavy)
        if rnd.random() < 0.5:
            ops.append((14, rnd.randint(0, 1)))
        probes = rnd.sample(pool, min(len(pool), rnd.choice([2, 3, 4])))
        if rnd.random() < 0.5:
            probes.append(max(pool) + 1)
        kind = 'nul-symbol' if nul else ('redefine-heavy' if heavy else 'random')
        kind += '-sparse-big' if big else ('-dense' if pool == list(range(len(pool))) else '-sparse')
        out.append((encode(probes, ops), {'kind': kind}))
    return out


def mutate(case, rnd):
    probes, ops = decode(case)
    out = []
    for _ in range(6):
        o2 = list(ops)
        if o2 and rnd.random() < 0.5:
            del o2[rnd.randrange(len(o2))]
        if o2:
            i = rnd.randrange(len(o2))
            o2.insert(i, o2[rnd.randrange(len(o2))])
        out.append(encode(probes, o2))
    return out


def shrink(case, fails):
    probes, ops = decode(case)
    changed = True
    while changed:
        changed = False
        for i in range(len(ops) - 1, -1, -1):
            t = ops[:i] + ops[i + 1:]
            if fails(encode(probes, t)):
                ops = t
                changed = True
        for i in range(len(probes) - 1, -1, -1):
            t = probes[:i] + probes[i + 1:]
            if fails(encode(t, ops)):
                probes = t
                changed = True
    # simplify payloads
    for i, o in enumerate(ops):
        if o[0] in (2, 3) and len(o[2]) > 1:
            t = ops[:i] + [(o[0], o[1], o[2][:1])] + ops[i + 1:]
            if fails(encode(probes, t)):
                ops = t
    return encode(probes, ops)


READY = True
