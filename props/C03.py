"""C03 - the aspif reader accepts exactly well-formed aspif and never alters a number.

Case: mode N len byte...   (mode 0 = readProgram, 1 = caller loop over parse(Incremental); N = BUF_SIZE variant)
Observation: accepted line reports delivered-calls...      (see coq/C03/Model.v, harness/h_c03.cpp)

The oracle judges the IMPLEMENTATION alone: props/aspif_ref.judge is an independent table-driven recogniser working on
python integers of arbitrary size; acceptance must match its verdict, the delivered calls must be exactly the calls the
text denotes (every number equal to the denoted number), a rejection is reported exactly once with a line in 1..lines.
"""
import random
from props import calls as C
from props import aspif_ref as R
from props import reuse as RU

PID = 'C03'
HARNESS = 'h_c03'
HARNESS_EXTRA = ('c01_read.h', 'rec.h', 'reuse.h')
MODEL_MODULE = 'V.C03.Model'
SIZES = [4096, 16, 32, 67]
VARIANTS = {('N%d' % n): ({} if n == 4096 else {'POTASSCO_VERIF_BUF_SIZE': n}) for n in SIZES}
INT_MAX, INT_MIN, UINT_MAX = R.INT_MAX, R.INT_MIN, R.UINT_MAX
BIG = [2 ** 63 - 1, 2 ** 63, 2 ** 63 + 1, 2 ** 64 - 5, 2 ** 64 - 1, 2 ** 64, 2 ** 64 + 1, 2 ** 64 + 5, 10 ** 18, 10 ** 19, 10 ** 19 + 7, 10 ** 20 + 1,
       10 ** 39 + 3, 2 ** 32, 2 ** 32 + 1, 2 ** 31, 2 ** 32 - 1, 2 ** 31 - 1]


def variant_of(c):
    return 'N%d' % c[1]


def primed(c):
    """harness/reuse.h: every other case (FNV-1a over the case's integers, bit 17) is read by a reader OBJECT that has read - or REFUSED - a
    primer text before, chosen by further hash bits (props/reuse.py reads the primer tables from reuse.h; reader reuse is invisible for a
    correct reader, so neither the model nor the oracle depends on it)"""
    return RU.primed(c)


def reader(c):
    """which reader object read the case (for describe)"""
    return RU.reader(c, 'aspif')


def mk(mode, n, text):
    return [mode, n, len(text)] + list(text)


def text_of(c):
    return bytes(x & 255 for x in c[3:3 + c[2]])


def describe(c):
    t = text_of(c)
    return 'mode=%s N=%d reader=%s text=%r' % ('complete' if c[0] == 0 else 'incremental', c[1], reader(c),
                                               t[:400] + (b'...' if len(t) > 400 else b''))


def oracle(c, obs):
    if obs and obs[0] == -999:
        return ['harness:buffer-size-variant-mismatch']
    text = text_of(c)
    acc, line, rep, cs, rest = R.dec_obs_read(obs)
    sig = []
    if acc < 0:
        return ['exception-escaped-the-error-handler']
    if rest:
        sig.append('undecodable-call-delivered')
    ok, want, why = R.judge(text)
    got = R.canon(cs)
    if acc == 1:
        if rep != 0:
            sig.append('accepted-but-error-reported')
        if not ok:
            # distinguish the classic shapes
            if any(not R.wf_call(x) for x in got):
                sig.append('accepted-malformed-text:ill-formed-call-delivered')
            else:
                sig.append('accepted-malformed-text')
        elif got != R.canon(want):
            sig.append('accepted-but-delivered-calls-differ-from-denoted')
    else:
        if ok:
            sig.append('rejected-well-formed-text')
        if rep != 1:
            sig.append('rejection-not-reported-exactly-once')
        if not 1 <= line <= R.count_lines(text):
            sig.append('error-line-out-of-range')
        if any(not R.wf_call(x) for x in got):
            sig.append('ill-formed-call-delivered-before-error')
    return sig


def nontrivial(c, obs):
    acc, line, rep, cs, rest = R.dec_obs_read(obs)
    return len(cs) >= 3 or (acc == 0 and len(cs) >= 2)


# ------------------------------------------------------------------------------------------------------
# generators
# ------------------------------------------------------------------------------------------------------
def boundary_neighbours(lo, hi, role):
    r = [lo - 1, hi + 1, lo, hi]
    if role == 'lit':
        r += [0, 0]
    return r


def r_valid(rnd, big=False):
    small = rnd.choice([3, 6, 6, 40])
    if big:
        p = C.r_program(rnd, steps=rnd.choice([1, 2, 4]), ndir=rnd.choice([60, 150, 400]), small=small)
    else:
        p = C.r_program(rnd, small=small)
    return p


def valid_text(rnd, big=False):
    p = r_valid(rnd, big)
    lines = R.items_of(p)
    fancy = rnd.choice([0.0, 0.3, 0.3, 1.0])
    comments = rnd.choice([0.0, 0.0, 0.2])
    if rnd.random() < 0.2:
        # body type code 2 is read as a sum
        for ln in lines:
            if len(ln) > 3 and ln[0][1] == 1 and ln[0][4] == 'code':
                for k, it in enumerate(ln):
                    if k > 0 and it[0] == 'n' and it[4] == 'code' and it[1] == 1:
                        ln[k] = ('n', 2, 2, 2, 'code')
    t = R.render(lines, rnd, fancy, comments)
    if rnd.random() < 0.15:
        t += rnd.choice([b' ', b'\n\n', b'\r\n \t'])
    if rnd.random() < 0.1 and t.endswith(b'\n'):
        t = t[:-1]
    return t


def fault_text(rnd):
    p = r_valid(rnd)
    lines = R.items_of(p)
    kind = rnd.choice(['value', 'value', 'value', 'huge', 'huge', 'count', 'delete', 'truncate', 'code', 'strlen', 'extra'])
    nums = [(i, j) for i, ln in enumerate(lines) for j, it in enumerate(ln) if it[0] == 'n']
    if not nums:
        return valid_text(rnd), 'valid'
    if kind in ('value', 'huge'):
        cand = [(i, j) for (i, j) in nums if lines[i][j][4] in ('val', 'lit')] or nums
        i, j = rnd.choice(cand)
        it = lines[i][j]
        if kind == 'value':
            v = rnd.choice(boundary_neighbours(it[2], it[3], it[4]))
        else:
            v = rnd.choice(BIG) * rnd.choice([1, 1, -1])
        lines[i][j] = ('n', v, it[2], it[3], it[4])
    elif kind == 'count':
        cand = [(i, j) for (i, j) in nums if lines[i][j][4] == 'count']
        if cand:
            i, j = rnd.choice(cand)
            it = lines[i][j]
            lines[i][j] = ('n', max(0, it[1] + rnd.choice([-1, 1, 1, 2])), it[2], it[3], it[4])
    elif kind == 'code':
        cand = [(i, j) for (i, j) in nums if lines[i][j][4] == 'code']
        i, j = rnd.choice(cand)
        it = lines[i][j]
        lines[i][j] = ('n', rnd.choice([11, 12, 3, 7, 99, -1, 2 ** 32 + it[1], 2 ** 64 + it[1], it[1] + 1]), it[2], it[3], it[4])
    elif kind == 'delete':
        i, j = rnd.choice(nums)
        del lines[i][j]
    elif kind == 'strlen':
        cand = [(i, j) for i, ln in enumerate(lines) for j, it in enumerate(ln) if it[0] == 's']
        if cand:
            i, j = rnd.choice(cand)
            s = lines[i][j][1]
            n = rnd.choice([len(s) + 1, max(0, len(s) - 1), len(s) + 100000, 2 ** 31, 2 ** 32 - 1, 2 ** 32, 2 ** 32 + len(s), 2 ** 64 + len(s), -1])
            lines[i][j:j + 1] = [('raw', str(n).encode() + b' ' + s)]
    elif kind == 'extra':
        lines.append([('raw', rnd.choice([b'1 0 0 0 0', b'x', b'0', b'asp 1 0 0']))])
    t = R.render(lines, rnd, rnd.choice([0.0, 0.0, 0.5]), 0.0)
    if kind == 'truncate' and len(t) > 1:
        # cut at a token boundary or inside a token
        cuts = [k for k in range(1, len(t)) if t[k - 1:k] in (b' ', b'\n') or rnd.random() < 0.1]
        t = t[:rnd.choice(cuts or [len(t) - 1])]
    return t, kind


SOUP = [b'asp', b'1', b'0', b'0', b'2', b'3', b'4', b'5', b'6', b'7', b'8', b'9', b'10', b'-1', b'+1', b'incremental', b'\n', b'\n', b' ', b'ab', b'001',
        b'2147483647', b'2147483648', b'4294967295', b'4294967296', b'18446744073709551617', b'-2147483648', b'-2147483649', b'\r\n', b'\t', b'x']


def soup_text(rnd):
    t = b'asp 1 0 0' + rnd.choice([b'\n', b' incremental\n', b'\n', b'', b' \n']) if rnd.random() < 0.8 else b''
    for _ in range(rnd.randint(0, 25)):
        t += rnd.choice(SOUP) + rnd.choice([b' ', b' ', b' ', b'\n', b''])
    return t


def fixed_cases():
    out = []
    T = [
        (b'asp 1 0 0\n1 0 1 18446744073709551617 0 0\n0\n', 'wrap-2^64+1'),
        (b'asp 1 0 0\n1 0 1 1 0 1 18446744073709551621\n0\n', 'wrap-2^64+5'),
        (b'asp 1 0 0\n4 4294967295 0\n0\n', 'strlen-2^32-1'),
        (b'asp 1 0 0\n4 2147483648 0\n0\n', 'strlen-2^31'),
        (b'asp 1 0 0\n4 4294967296 0\n0\n', 'strlen-2^32'),
        (b'asp 1 0 0\n4 3 abc 0\n0\n', 'string'),
        (b'asp 1 0 0\n4 3 ab', 'string-truncated'),
        (b'asp 1 0 0\n4 0', 'string-empty-eof'),
        (b'asp 1 0 0\n9 0 4294967295 -7\n9 0 4294967296 1\n0\n', 'theory-id-range'),
        (b'asp 1 0 0\n9 3 1 1\n0\n', 'theory-reserved'),
        (b'asp 1 0 0\n9 7 1 1\n0\n', 'theory-unknown'),
        (b'asp 1 0 0\n1 0 1 0 0 0\n0\n', 'atom-0'),
        (b'asp 1 0 0\n1 0 1 1 0 1 0\n0\n', 'lit-0'),
        (b'asp 1 0 0\n1 0 1 1 1 1 1 2 -1\n0\n', 'negative-body-weight'),
        (b'asp 1 0 0\n2 0 1 2 -2147483648\n0\n', 'minimize-int-min'),
        (b'asp 1 0 0\n2 0 1 2 -2147483649\n0\n', 'minimize-below-int-min'),
        (b'asp 1 0 0\n1 2 0 0 0\n0\n', 'head-type-2'),
        (b'asp 1 0 0\n1 0 0 3 0\n0\n', 'body-type-3'),
        (b'asp 1 0 0\n1 0 0 2 1 1 3 1\n0\n', 'body-type-2'),
        (b'asp 1 0 0\n5 1 4\n0\n', 'value-4'),
        (b'asp 1 0 0\n7 6 1 0 0 0\n0\n', 'heuristic-type-6'),
        (b'asp 1 0 0\n7 0 1 0 2147483648 0\n0\n', 'heuristic-prio-2^31'),
        (b'asp 1 0 0\n8 2147483648 0 0\n0\n', 'edge-2^31'),
        (b'asp 1 0 0\n11\n0\n', 'directive-11'),
        (b'asp 1 0 0\n0\n0\n', 'extra-step-non-incremental'),
        (b'asp 1 0 0 incremental\n0\n0\n', 'two-steps'),
        (b'asp 1 0 0\n', 'no-step'),
        (b'asp 1 0 0', 'no-newline'),
        (b'asp 2 0 0\n0\n', 'major-2'),
        (b'asp 1 1 0\n0\n', 'minor-1'),
        (b'asp 1 0 4294967296\n0\n', 'revision-2^32'),
        (b'asp 1 0 0 incremental \n0\n', 'blank-after-incremental'),
        (b'asp 1 0 0   incremental\n0\n', 'blanks-before-incremental'),
        (b'asp 1 0 0\tincremental\n0\n', 'tab-before-incremental'),
        (b'  \n asp 1 0 0\n0\n', 'ws-before-header'),
        (b'asx 1 0 0\n0\n', 'bad-magic'),
        (b'', 'empty'),
        (b'asp 1 0 0\r\n1 0 1 1 0 0\r\n0\r\n', 'crlf'),
        (b'asp 1 0 0\r1 0 1 1 0 0\r0\r', 'cr'),
        (b'asp 1 0 0\n10 comment\n0\n', 'comment'),
        (b'asp 1 0 0\n10', 'comment-eof'),
        (b'asp 1 0 0\n1 0 2 1\n0\n', 'count-too-large'),
        (b'asp 1 0 0\n3 2 5\n6 0\n0\n', 'count-shift-accepted-as-other-program'),
        (b'asp 1 0 0\n1 0 1 +0001 0 1 -02\n0\n', 'plus-zeros'),
        (b'asp 1 0 0\n1 0 1 1 0 1 - 2\n0\n', 'sign-then-blank'),
        (b'asp 1 0 0\n4 2 \r\nx 0\n0\n', 'crlf-separator'),
        # layouts of the general description coq/C03/Grammar.v (c03_sound / c03_exact): tokens glued by signs, -0 / +0 / leading zeros,
        # nothing required after a raw string or a line end, CR line ends, steps glued by a sign; and the truncation boundary cases
        (b'\t asp +01 -0 007   incremental\r1+0-0+00 1-5+4 3xabc0\t10 hello 1 2\r-0\n5 1 2 0\r\n+0 \n', 'general-layout-glued'),
        (b'asp 1 0 0\n1+1-0\t2-7 2 3+02-4-0\n+9 1 0 2x1210!\r\n0', 'general-layout-wrule'),
        (b'asp 1 0 0\n3 -0\n6+0\n-0\n', 'minus-zero-counts'),
        (b'asp 1 0 0\n3 1 1-0\n', 'end-glued-by-minus'),
        (b'asp 1 0 0 incremental\n0+0-0', 'steps-glued-by-sign'),
        (b'asp 1 0 0\n0', 'prefix-of-leading-zero-text'),
        (b'asp 1 0 0\n01 0 1 1 0 0\n0\n', 'leading-zero-directive-code'),
        (b'asp 1 0 0\n1 0 1 1 0 0\n', 'truncated-before-final-0'),
        (b'asp 1 0 0\n1 0 1 1 0 0\n0 \t\r\n x', 'extra-after-trailing-ws'),
        (b'asp 1 0 0\n4 0\r\n0\n0\n', 'empty-string-crlf-separator'),
        (b'asp 1 0 0\n4 1\r\n0\n0\n', 'cr-separator-then-lf-byte'),
    ]
    for t, k in T:
        for mode in (0, 1):
            for n in SIZES:
                out.append((mk(mode, n, t), {'kind': 'fixed-' + k}))
    return out


def gen(seed, tier):
    rnd = random.Random(seed * 1000003 + 3)
    total = {'quick': 3600, 'thorough': 120000, 'search': 5000}.get(tier, 3600)
    out = fixed_cases()
    nbig = {'quick': 12, 'thorough': 300, 'search': 10}.get(tier, 12)
    for _ in range(nbig):
        out.append((mk(rnd.choice([0, 1]), rnd.choice(SIZES), valid_text(rnd, big=True)), {'kind': 'valid-big'}))
    while len(out) < total:
        r = rnd.random()
        mode = rnd.choice([0, 0, 1])
        n = rnd.choice(SIZES)
        if r < 0.35:
            out.append((mk(mode, n, valid_text(rnd)), {'kind': 'valid-layout'}))
        elif r < 0.85:
            t, k = fault_text(rnd)
            out.append((mk(mode, n, t), {'kind': 'fault-' + k}))
        else:
            out.append((mk(mode, n, soup_text(rnd)), {'kind': 'soup'}))
        if not R.cheap(text_of(out[-1][0])):
            out.pop()      # announces a huge id list / string: the reader allocates it up front (gigabytes per case)
    return out


def shrink(case, fails):
    mode, n = case[0], case[1]
    t = list(text_of(case))
    changed = True
    while changed:
        changed = False
        # drop whole lines, then single bytes
        lines = bytes(t).split(b'\n')
        for i in range(len(lines) - 1, 0, -1):
            cand = b'\n'.join(lines[:i] + lines[i + 1:])
            if fails(mk(mode, n, cand)):
                t = list(cand)
                changed = True
                break
        if changed:
            continue
        for i in range(len(t) - 1, -1, -1):
            cand = t[:i] + t[i + 1:]
            if fails(mk(mode, n, bytes(cand))):
                t = cand
                changed = True
                break
    return mk(mode, n, bytes(t))


def mutate(case, rnd):
    t = bytearray(text_of(case))
    out = []
    for _ in range(8):
        u = bytearray(t)
        if u:
            k = rnd.randrange(len(u))
            op = rnd.random()
            if op < 0.4:
                u[k] = rnd.choice(b'0123456789 -\n')
            elif op < 0.7:
                del u[k]
            else:
                u[k:k] = rnd.choice([b'0', b'9', b' ', b'-', b'18446744073709551617'])
        out.append(mk(case[0], case[1], bytes(u)))
    return out


RULE = ('cases = (read mode, BUF_SIZE in {4096,16,32,67}, text); three streams: valid programs under random layouts (tabs, CR, CRLF, LF, "+", leading zeros, '
        'comment lines, body code 2, odd string separators), single-fault (one field replaced by a boundary neighbour / 19-40 digit number / 2^63+-1 / 2^64+-k, one count '
        '+-1, directive code changed, token deleted, string length changed, truncation, extra input), token soup; plus ~45 fixed boundary texts x modes x sizes; '
        ''
        'every other case (hash of the case) is read by a reader OBJECT that before read or REFUSED one of the 8 aspif primer texts of harness/reuse.h (accepted incremental ones; refused inside a rule / theory atom / string / second step / problem line, as extra input); '
        'non-trivial = at least one directive delivered or rejected after the step began; distinct = distinct case tuples')
TRUSTED_BASE = ['props/aspif_ref.py judge (independent python recogniser used as oracle on the implementation)',
                'coq/C09/Spec.v abstract stream (C09 proves the real BufferedStream refines it; not re-proved here)']
ASSUMPTIONS = ['texts without NUL bytes (the stream treats NUL as end of input)',
               'number of lines of a text = 1 + number of line terminators (LF, CR, CRLF)',
               'RuleBuilder memory modelled as unbounded lists (no 2^30-byte rule)']
LEVEL_TEXT = ('Machine-checked proofs (Coq) about an executable model of AspifInput/ProgramReader over the abstract stream. EXACT characterisation for every byte list: '
              'a text is accepted iff it is the rendering of a well-formed program with every field in range under the general layout description coq/C03/Grammar.v '
              '(c03_sound + c03_complete_general = c03_exact), and then the delivered calls are the denoted ones (c03_exact_calls, c03_denotes_unique); out-of-range '
              'renderings are rejected (c03_rejects_general), numbers of any magnitude are never altered (c03_number); truncated single-shot texts are rejected '
              '(c03_truncated), the accepted prefixes of an accepted text are exactly its cuts after a complete step (c03_accepted_prefix, c03_prefix); line / contract / trace theorems for every text; see notes/C03.md; '
              'model tied to the code by differential correspondence (both read modes, four buffer sizes) and an independent python recogniser as oracle.')
LEVEL_NOTE = 'Trusted: Coq kernel, extraction (cross-checked by vm_compute on a sample), harness, python oracle; C09 stream refinement assumed from C09.'
TECHNIQUE = 'Coq proof about an executable model + differential correspondence with the implementation'
DESIGN_REF = 'DESIGN.md section 5, C03'
READY = True
