"""C04 - readers and lpconvert are total and memory-safe on arbitrary input; consumer contract.

Case: mode opts len bytes...   (see harness/h_c04.cpp)
The oracle judges the implementation alone: no crash / sanitizer report / leak / escaped exception, exactly one error report on
rejection, and the recorded call sequence respects the consumer contract of the property statement.
"""
import random, re
from props import calls as C

PID = 'C04'
HARNESS = 'h_c04'
MODEL_MODULE = 'V.C04.Model'
NEEDS_LPCONVERT = True
READY = True
INT_MAX = 2 ** 31 - 1
SMALL = [16, 67]
VARIANTS = {'shipped': {}}
VARIANTS.update({('N%d' % n): {'POTASSCO_VERIF_BUF_SIZE': n} for n in SMALL})
RULE = ('cases = (reader/pipeline mode, option bits, arbitrary bytes); streams: byte soup, token soup, grammar-aware mutations of valid aspif / smodels / '
        'ground-text inputs (truncate, splice, flip, duplicate, numbers at 2^31/2^32/2^63/2^64 boundaries, announced lengths larger than the rest, NUL, CR only), '
        'valid programs; each at the shipped buffer size and hooked sizes 16/67; non-trivial = the reader delivered at least one directive or reported an error after the header; '
        'distinct = distinct (mode, opts, bytes)')
TRUSTED_BASE = ['ASan/UBSan/LSan as the detector of memory errors, UB and leaks in the compiled readers and lpconvert (exploration-strength for the runtime part)',
                'props/C04.py contract oracle']
HARNESS_ENV = {'ASAN_OPTIONS': 'detect_leaks=1:abort_on_error=0:exitcode=77:allocator_may_return_null=0:max_allocation_size_mb=2048'}
ASSUMPTIONS = ['exhaustion of memory by sizes the input itself announces is outside the claim']


def variant_of(c):
    # the variant is carried in opts bits 8.. : 0 shipped, 1 -> N16, 2 -> N67
    v = (c[1] >> 8) & 3
    return 'shipped' if v == 0 else 'N%d' % SMALL[v - 1]


def split(c):
    mode, opts, ln = c[0], c[1] & 255, c[2]
    return mode, opts, bytes(x & 255 for x in c[3:3 + ln])


def describe(c):
    mode, opts, data = split(c)
    names = ['aspif-reader', 'smodels-reader', 'text-reader', 'aspif->smodels', 'aspif->text', 'smodels->aspif', 'smodels->text', 'lpconvert-binary']
    return '%s opts=%d buf=%s input=%r' % (names[mode] if mode < len(names) else mode, opts, variant_of(c), data[:400])


def contract(calls_):
    """Consumer contract of the property statement, checked on a recorded call list. Returns list of signatures."""
    sig = []
    st = 'new'   # new -> init -> in-step / between
    for c in calls_:
        t = c[0]
        if t == 1:
            if st != 'new':
                sig.append('contract:initProgram-not-first-or-repeated')
            st = 'between'
            continue
        if st == 'new':
            sig.append('contract:call-before-initProgram')
            st = 'between'
        if t == 2:
            if st == 'step':
                sig.append('contract:beginStep-inside-step')
            st = 'step'
            continue
        if t == 3:
            if st != 'step':
                sig.append('contract:endStep-without-beginStep')
            st = 'between'
            continue
        if st != 'step':
            sig.append('contract:directive-outside-step')

        def atom_ok(a):
            return 1 <= a <= INT_MAX

        def lit_ok(l):
            return l != 0 and atom_ok(abs(l))
        if t == 4:
            _, ht, head, body = c
            if ht not in (0, 1):
                sig.append('contract:head-type-invalid')
            if not all(atom_ok(a) for a in head):
                sig.append('contract:head-atom-out-of-range')
            if not all(lit_ok(l) for l in body):
                sig.append('contract:body-literal-invalid')
        elif t == 5:
            _, ht, head, bound, body = c
            if ht not in (0, 1):
                sig.append('contract:head-type-invalid')
            if not all(atom_ok(a) for a in head):
                sig.append('contract:head-atom-out-of-range')
            if not all(lit_ok(l) for l, w in body):
                sig.append('contract:body-literal-invalid')
            if any(w < 0 for l, w in body):
                sig.append('contract:negative-rule-body-weight')
            if not (-INT_MAX - 1 <= bound <= INT_MAX):
                sig.append('contract:bound-out-of-int-range')
        elif t == 6:
            if not all(lit_ok(l) for l, w in c[2]):
                sig.append('contract:minimize-literal-invalid')
        elif t == 7:
            if not all(atom_ok(a) for a in c[1]):
                sig.append('contract:project-atom-out-of-range')
        elif t == 8:
            if not all(lit_ok(l) for l in c[2]):
                sig.append('contract:output-literal-invalid')
        elif t == 9:
            if not atom_ok(c[1]):
                sig.append('contract:external-atom-out-of-range')
            if c[2] not in (0, 1, 2, 3):
                sig.append('contract:external-value-invalid')
        elif t == 10:
            if not all(lit_ok(l) for l in c[1]):
                sig.append('contract:assume-literal-invalid')
        elif t == 11:
            if not atom_ok(c[1]):
                sig.append('contract:heuristic-atom-out-of-range')
            if c[2] not in range(6):
                sig.append('contract:heuristic-type-invalid')
            if not (0 <= c[4] <= INT_MAX):
                sig.append('contract:heuristic-priority-out-of-range')
            if not all(lit_ok(l) for l in c[5]):
                sig.append('contract:heuristic-condition-invalid')
        elif t == 12:
            if not all(lit_ok(l) for l in c[3]):
                sig.append('contract:edge-condition-invalid')
        elif t == 16:
            if not all(lit_ok(l) for l in c[3]):
                sig.append('contract:theory-element-condition-invalid')
    return sorted(set(sig)), st


def oracle(c, obs):
    mode, opts, data = split(c)
    sig = []
    if len(obs) < 4:
        return ['harness:short-observation']
    status, nerr, line, leak = obs[:4]
    if status in (2, 3):
        sig.append('exception-escaped-the-reader')
    if leak:
        sig.append('memory-leak')
    if status == 1 and nerr != 1 and mode <= 6:
        sig.append('error-reported-%d-times' % nerr)
    if status == 0 and nerr != 0:
        sig.append('error-handler-called-but-accepted')
    if status == 1 and mode <= 6:
        nlines = data.count(b'\n') + data.count(b'\r') + 1
        if not (1 <= line <= nlines):
            sig.append('error-line-outside-text')
    if mode <= 2:
        cl, rest = C.dec_all(obs[4:])
        if rest:
            sig.append('harness:undecodable-trace')
        cs, st = contract(cl)
        sig += cs
        if status == 0 and st == 'step':
            sig.append('contract:accepted-with-open-step')
        if status == 1 and cl and cl[-1][0] == 3 and False:
            pass
    if mode == 1 and (opts & 6) and b'\0' not in data:
        # special-predicate conversion: every delivered edge / heuristic must be justified by a well-formed `_edge(..)` / `_acyc_..` /
        # `_heuristic(..)` symbol line of the input (independent reference matchers of props/C08.py); a delivery without one means the
        # scanner used bytes that are not part of that name
        from props import C08 as R
        names = []
        for ln in data.replace(b'\r\n', b'\n').replace(b'\r', b'\n').split(b'\n'):
            k = ln.find(b' ')
            if k > 0 and ln[:k].strip().isdigit():
                names.append(ln[k + 1:])
        n_edge = sum(1 for nm in names if R.ref_edge(nm) is not None)
        n_heu = sum(1 for nm in names if R.ref_heu(nm) is not None)
        cl = C.dec_all(obs[4:])[0]
        if sum(1 for c_ in cl if c_[0] == 12) > n_edge:
            sig.append('edge-delivered-without-a-well-formed-edge-symbol')
        if sum(1 for c_ in cl if c_[0] == 11) > n_heu:
            sig.append('heuristic-delivered-without-a-well-formed-heuristic-symbol')
    if mode == 7:
        code = obs[4] if len(obs) > 4 else -1
        if code not in (0, 1, 2000):
            sig.append('lpconvert-abnormal-exit-%d' % code)
    return sig


def crash_sig(c, summary):
    """Sizes the input itself announces (a theory id of 3e9 makes the id-indexed table that large) are outside the claim."""
    if 'allocation-size-too-big' in summary or 'out-of-memory' in summary or 'requested allocation size' in summary:
        return None
    return 'crash:' + '_'.join(summary.split())


def nontrivial(c, obs):
    if len(obs) < 4:
        return False
    mode = c[0]
    if mode <= 2:
        return len(obs) > 8 or obs[0] == 1
    return obs[0] == 1 or (len(obs) > 4 and obs[4] > 0)


def obs_equal(c, impl, model):
    mode = c[0]
    if mode > 2 or not model or model == [-1]:
        return True       # pipelines and the smodels special-predicate options are not modelled (sanitizer runs + oracle only)
    if 0 in c[3:3 + c[2]]:
        return True       # a NUL byte ends the visible window of the real buffer at a buffer-dependent place (C09 excludes NUL); oracle only
    if len(impl) < 4 or len(model) < 4:
        return False
    # status, error count and calls must agree; the error line only when an error was reported; leak flag is implementation-only
    if impl[0] != model[0] or impl[1] != model[1]:
        return False
    if impl[0] == 1 and impl[2] != model[2]:
        return False
    return impl[4:] == model[4:]


# ---- python emitters of (mostly) valid inputs -------------------------------------------------------
def aspif_text(prog, rnd=None):
    out = []
    for c in prog:
        t = c[0]
        if t == 1:
            out.append('asp 1 0 0' + (' incremental' if c[1] else ''))
        elif t == 2:
            pass
        elif t == 3:
            out.append('0')
        elif t == 4:
            out.append('1 %d %d %s 0 %d %s' % (c[1], len(c[2]), ' '.join(map(str, c[2])), len(c[3]), ' '.join(map(str, c[3]))))
        elif t == 5:
            out.append('1 %d %d %s 1 %d %d %s' % (c[1], len(c[2]), ' '.join(map(str, c[2])), c[3], len(c[4]), ' '.join('%d %d' % lw for lw in c[4])))
        elif t == 6:
            out.append('2 %d %d %s' % (c[1], len(c[2]), ' '.join('%d %d' % lw for lw in c[2])))
        elif t == 7:
            out.append('3 %d %s' % (len(c[1]), ' '.join(map(str, c[1]))))
        elif t == 8:
            out.append('4 %d %s %d %s' % (len(c[1]), c[1].decode('latin-1'), len(c[2]), ' '.join(map(str, c[2]))))
        elif t == 9:
            out.append('5 %d %d' % (c[1], c[2]))
        elif t == 10:
            out.append('6 %d %s' % (len(c[1]), ' '.join(map(str, c[1]))))
        elif t == 11:
            out.append('7 %d %d %d %d %d %s' % (c[2], c[1], c[3], c[4], len(c[5]), ' '.join(map(str, c[5]))))
        elif t == 12:
            out.append('8 %d %d %d %s' % (c[1], c[2], len(c[3]), ' '.join(map(str, c[3]))))
        elif t == 13:
            out.append('9 0 %d %d' % (c[1], c[2]))
        elif t == 14:
            out.append('9 1 %d %d %s' % (c[1], len(c[2]), c[2].decode('latin-1')))
        elif t == 15:
            out.append('9 2 %d %d %d %s' % (c[1], c[2], len(c[3]), ' '.join(map(str, c[3]))))
        elif t == 16:
            out.append('9 4 %d %d %s %d %s' % (c[1], len(c[2]), ' '.join(map(str, c[2])), len(c[3]), ' '.join(map(str, c[3]))))
        elif t == 17:
            out.append('9 5 %d %d %d %s' % (c[1], c[2], len(c[3]), ' '.join(map(str, c[3]))))
        elif t == 18:
            out.append('9 6 %d %d %d %s %d %d' % (c[1], c[2], len(c[3]), ' '.join(map(str, c[3])), c[4], c[5]))
    return ('\n'.join(re_ws(x) for x in out) + '\n').encode('latin-1')


def re_ws(s):
    return s.replace('  ', ' ').rstrip() if not s.startswith('4 ') and not s.startswith('9 1') else s


def smodels_text(rnd):
    n = rnd.randint(1, 6)
    lines = []
    A = lambda: rnd.randint(1, n)
    for _ in range(rnd.randint(0, 6)):
        k = rnd.choice([1, 1, 2, 3, 5, 8, 6])
        if k == 1:
            nl = rnd.randint(0, 3); ng = rnd.randint(0, nl)
            lines.append('1 %d %d %d %s' % (A(), nl, ng, ' '.join(str(A()) for _ in range(nl))))
        elif k == 2:
            nl = rnd.randint(0, 3); ng = rnd.randint(0, nl)
            lines.append('2 %d %d %d %d %s' % (A(), nl, ng, rnd.randint(0, 3), ' '.join(str(A()) for _ in range(nl))))
        elif k in (3, 8):
            nh = rnd.randint(1, 3); nl = rnd.randint(0, 3); ng = rnd.randint(0, nl)
            lines.append('%d %d %s %d %d %s' % (k, nh, ' '.join(str(A()) for _ in range(nh)), nl, ng, ' '.join(str(A()) for _ in range(nl))))
        elif k == 5:
            nl = rnd.randint(0, 3); ng = rnd.randint(0, nl)
            lines.append('5 %d %d %d %d %s %s' % (A(), rnd.randint(0, 5), nl, ng, ' '.join(str(A()) for _ in range(nl)), ' '.join(str(rnd.randint(0, 3)) for _ in range(nl))))
        elif k == 6:
            nl = rnd.randint(0, 3); ng = rnd.randint(0, nl)
            lines.append('6 0 %d %d %s %s' % (nl, ng, ' '.join(str(A()) for _ in range(nl)), ' '.join(str(rnd.randint(0, 3)) for _ in range(nl))))
    lines.append('0')
    names = ['a', 'b(1)', '_heuristic(a,level,1,2)', '_edge(1,2)', '_acyc_1_2_3', 'p("x,y")', '_heuristic(b(1),sign,-1)',
             # scanner boundaries of the special-predicate matchers: unterminated quotes, names ending in a backslash, escaped
             # backslashes before a quote, unbalanced parentheses, a longer name before a shorter malformed one (stale bytes behind it)
             'aaaaaaaaaaaaaaaa",b)', '_edge("a\\', '_edge("a\\\\",b)', '_heuristic("b\\', '_heuristic(p("x\\"),level,1)', '_edge((a,b',
             '_edge(a,"b', '_heuristic(a', '_heuristic(a,level,', '_acyc_', '_acyc_1_', '_edge(,)', '_heuristic("\\\\",sign,1,1)']
    if rnd.random() < 0.25 and n >= 2:
        # "stale tail": a truncated special predicate right after a longer name whose tail would complete it if a scanner ran past the
        # end of the shorter name (the name buffer is re-used between symbols)
        whole = rnd.choice(['_edge("a\\",b)', '_edge("a",b)', '_heuristic("a\\",level,1)', '_heuristic(p("x"),sign,1,2)', '_edge(f("x\\\\"),2)', '_acyc_1_2_3'])
        k = rnd.randint(2, len(whole) - 1)
        lines.append('1 %s%s' % ('a' * (k + rnd.randint(0, 3)), whole[k:]))
        lines.append('2 %s' % whole[:k])
        start = 3
    else:
        start = 1
    for i in range(start, n + 1):
        if rnd.random() < 0.7:
            lines.append('%d %s' % (i, rnd.choice(names)))
    lines.append('0')
    lines.append('B+')
    if rnd.random() < 0.3:
        lines.append(str(A()))
    lines.append('0')
    lines.append('B-')
    if rnd.random() < 0.3:
        lines.append(str(A()))
    lines.append('0')
    if rnd.random() < 0.3:
        lines.append('E')
        lines.append(str(A()))
        lines.append('0')
    lines.append('1')
    return ('\n'.join(lines) + '\n').encode()


def ground_text(rnd):
    atoms = ['a', 'b', 'c', 'x1', 'x_2', 'x17', 'z']
    A = lambda: rnd.choice(atoms)
    L = lambda: ('not ' if rnd.random() < 0.4 else '') + A()
    st = []
    for _ in range(rnd.randint(0, 6)):
        k = rnd.randint(0, 11)
        if k == 0:
            st.append('%s.' % A())
        elif k == 1:
            st.append('%s :- %s.' % ('|'.join(A() for _ in range(rnd.randint(1, 3))), ', '.join(L() for _ in range(rnd.randint(1, 3)))))
        elif k == 2:
            st.append('{%s} :- %s.' % (';'.join(A() for _ in range(rnd.randint(0, 3))), L()))
        elif k == 3:
            st.append('%s :- %d {%s}.' % (A(), rnd.randint(-1, 3), '; '.join('%s=%d' % (L(), rnd.randint(0, 3)) for _ in range(rnd.randint(0, 3)))))
        elif k == 4:
            st.append(':- %s.' % L())
        elif k == 5:
            st.append('#minimize{%s}@%d.' % ('; '.join('%s=%d' % (L(), rnd.randint(-2, 3)) for _ in range(rnd.randint(0, 3))), rnd.randint(-1, 2)))
        elif k == 6:
            st.append('#project{%s}.' % ', '.join(A() for _ in range(rnd.randint(0, 3))))
        elif k == 7:
            st.append('#output foo(%d) : %s.' % (rnd.randint(0, 9), L()))
        elif k == 8:
            st.append('#external %s. [%s]' % (A(), rnd.choice(['true', 'false', 'free', 'release'])))
        elif k == 9:
            st.append('#assume{%s}.' % ', '.join(L() for _ in range(rnd.randint(0, 3))))
        elif k == 10:
            st.append('#heuristic %s : %s. [%d@%d, %s]' % (A(), L(), rnd.randint(-2, 2), rnd.randint(0, 2), rnd.choice(['level', 'sign', 'factor', 'init', 'true', 'false'])))
        else:
            st.append('#edge (%d,%d) : %s.' % (rnd.randint(0, 3), rnd.randint(0, 3), L()))
    if rnd.random() < 0.2:
        st.insert(0, '#incremental.')
        st.insert(rnd.randint(1, len(st)), '#step.')
    return ('\n'.join(st) + '\n').encode()


def coherent_theory_program(rnd):
    """A valid (mostly incremental) program whose theory data is referentially consistent: terms before use, elements with and
    without conditions, atoms (with/without guard) that reference elements and terms defined in the SAME or an EARLIER step."""
    steps = rnd.choice([1, 2, 2, 3])
    prog = [(1, steps > 1)]
    terms, elems, syms = [], [], []       # ids defined so far (all steps)
    nid = [0]

    def fresh():
        nid[0] += 1
        return nid[0] - 1
    for st in range(steps):
        prog.append((2,))
        for _ in range(rnd.randint(0, 2)):
            prog.append(C.r_rule(rnd, 5))
        for _ in range(rnd.randint(1, 4)):
            k = rnd.random()
            t = fresh()
            if k < 0.4 or not terms:
                prog.append((13, t, rnd.choice([0, 1, 42, -7, 2 ** 31 - 1])))
            elif k < 0.7:
                nm = rnd.choice([b'p', b'f', b'sum', b'>=', b'+', b'x'])
                prog.append((14, t, nm)); syms.append(t)
            else:
                base = rnd.choice(syms) if syms and rnd.random() < 0.7 else rnd.choice([-1, -2, -3])
                prog.append((15, t, base, [rnd.choice(terms) for _ in range(rnd.randint(0, 3))]))
            terms.append(t)
        if not syms:
            t = fresh(); prog.append((14, t, b'p')); syms.append(t); terms.append(t)
        for _ in range(rnd.randint(0, 3) if (st == 0 or rnd.random() < 0.5) else 0):   # later steps often only RE-USE earlier elements
            e = fresh()
            cond = [C.r_lit(rnd, 5) for _ in range(rnd.choice([0, 1, 2, 2]))]
            prog.append((16, e, [rnd.choice(terms) for _ in range(rnd.randint(0, 2))], cond)); elems.append(e)
        for _ in range(rnd.randint(1, 2)):
            es = [rnd.choice(elems) for _ in range(rnd.randint(0, 2))] if elems else []
            if rnd.random() < 0.3 and len(syms) and terms:
                prog.append((18, rnd.choice([0, rnd.randint(6, 9)]), rnd.choice(syms), es, rnd.choice(syms), rnd.choice(terms)))
            else:
                prog.append((17, rnd.choice([0, rnd.randint(6, 9)]), rnd.choice(syms), es))
        prog.append((3,))
    return prog


def cyclic_theory_program(rnd):
    """Malformed but syntactically valid: theory terms that refer to themselves / each other through the function symbol or an argument
    (with 0, 1 or several arguments), used by an atom. Writers must report an error, never recurse without bound."""
    n = rnd.choice([1, 1, 2, 3])
    ids = list(range(5, 5 + n))
    prog = [(1, False), (2,), (13, 1, 7), (14, 2, b'f')]
    for k, t in enumerate(ids):
        nxt = ids[(k + 1) % n]
        nargs = rnd.choice([0, 0, 1, 2])
        via_fun = rnd.random() < 0.6 or nargs == 0
        base = nxt if via_fun else rnd.choice([2, -1, -2, -3])
        args = [(nxt if (not via_fun and j == 0) else rnd.choice([1, 2, nxt])) for j in range(nargs)]
        prog.append((15, t, base, args))
    how = rnd.random()
    if how < 0.4:
        prog.append((17, 0, ids[0], []))                         # as the atom's name term
    elif how < 0.8:
        prog += [(16, 1, [ids[0]], []), (17, 0, 2, [1])]         # inside an element
    else:
        prog.append((18, 0, 2, [], 2, ids[0]))                   # as guard rhs
    prog.append((3,))
    return prog


BIG = [b'2147483647', b'2147483648', b'4294967295', b'4294967296', b'9223372036854775807', b'9223372036854775808',
       b'18446744073709551615', b'18446744073709551616', b'18446744073709551617', b'-2147483648', b'-2147483649',
       b'-9223372036854775808', b'99999999999999999999999999999999999999', b'0', b'-0', b'+1', b'00000000001']


def mutate_bytes(rnd, data):
    data = bytearray(data)
    k = rnd.randint(0, 9)
    toks = bytes(data).split(b' ')
    if k == 0 and data:
        del data[rnd.randrange(len(data)):]
    elif k == 1 and data:
        i = rnd.randrange(len(data)); data[i] = rnd.choice([0, 13, 10, 32, 9, 45, 48, 57, 255, 34, 40, 41, 44, 35])
    elif k == 2 and len(toks) > 1:
        i = rnd.randrange(len(toks)); toks[i] = rnd.choice(BIG); data = bytearray(b' '.join(toks))
    elif k == 3 and len(toks) > 1:
        i = rnd.randrange(len(toks)); del toks[i]; data = bytearray(b' '.join(toks))
    elif k == 4 and len(toks) > 1:
        i = rnd.randrange(len(toks)); toks.insert(i, toks[i]); data = bytearray(b' '.join(toks))
    elif k == 5 and data:
        i = rnd.randrange(len(data)); j = rnd.randrange(len(data)); data[i:i] = data[j:j + rnd.randint(1, 20)]
    elif k == 6:
        data = bytearray(bytes(data).replace(b'\n', rnd.choice([b'\r\n', b'\r', b'\n\n', b' '])))
    elif k == 7 and data:
        i = rnd.randrange(len(data)); data[i:i] = bytes([0])
    elif k == 8 and data:
        i = rnd.randrange(len(data)); data[i:i] = b' ' * rnd.choice([1, 15, 16, 17, 66, 67, 68, 4095, 4096, 4097])
    elif k == 9 and len(toks) > 1:
        i = rnd.randrange(len(toks))
        try:
            v = int(toks[i]); toks[i] = str(v + rnd.choice([-1, 1, 2 ** 31, 2 ** 32, 2 ** 64])).encode()
        except ValueError:
            pass
        data = bytearray(b' '.join(toks))
    return bytes(data)


def announces_big(data):
    for t in re.findall(rb'\d{7,}', data):
        return True
    return False


def mk(mode, opts, data, variant=0):
    data = bytes(data)
    return [mode, (opts & 255) | (variant << 8), len(data)] + list(data)


def gen(seed, tier):
    rnd = random.Random(seed * 9176 + 4)
    total = {'quick': 3000, 'thorough': 80000, 'search': 6000}.get(tier, 3000)
    out = []
    # regression shapes
    fixed = [
        (0, 0, b'asp 1 0 0\n1 0 1 18446744073709551617 0 0\n0\n'),
        (0, 0, b'asp 1 0 0\n4 4294967295 a 0\n0\n'),
        (0, 0, b'asp 1 0 0\n4 5 abc'),
        (0, 0, b'asp 1 0 0\n1 0 1 1 1 1 0\n0\n'),
        (4, 0, b'asp 1 0 0\n1 0 1 1 1 1 0\n0\n'),
        (4, 0, b'asp 1 0 0\n1 0 1 1 1 1 2 2 0 3 0\n0\n'),
        (3, 1, b'asp 1 0 0\n2 0 1 1 -2147483648\n0\n'),
        (1, 15, b'1 1 1 5 2\n0\n0\nB+\n0\nB-\n0\n1\n'),
        (1, 0, b'5 1 1 1 0 2 4294967295\n0\n0\nB+\n0\nB-\n0\n1\n'),
        (1, 15, b'1 1 0 0\n0\n1 _heuristic(a,level,-2147483648)\n0\nB+\n0\nB-\n0\n1\n'),
        (2, 0, b'a :- 1 {b = -2}.\n'),
        (2, 0, b'#output "  a b" : x1.\n'),
        (2, 0, b'x1 :- not\tx2.\n'),
        (1, 7, b'1 1 0 0\n1 2 0 0\n0\n1 aaaaaaaaaa",b)\n2 _edge("a\\\n0\nB+\n0\nB-\n0\n1\n'),
        (1, 7, b'1 1 0 0\n1 2 0 0\n0\n1 aaaaaaaaaaaaaaa",level,1)\n2 _heuristic("a\\\n0\nB+\n0\nB-\n0\n1\n'),
        # incremental program whose second step re-uses a conditional theory element of the first (conditions must outlive the step)
        (4, 0, b'asp 1 0 0 incremental\n9 1 0 1 p\n9 0 1 7\n9 0 2 8\n9 4 0 1 1 1 1\n9 4 1 1 2 2 2 -3\n9 5 0 0 2 0 1\n0\n9 0 3 9\n9 4 2 1 3 1 4\n9 5 0 0 2 2 1\n0\n'),
        (7, 4, b'asp 1 0 0 incremental\n9 1 0 1 p\n9 0 1 7\n9 0 2 8\n9 4 0 1 1 1 1\n9 4 1 1 2 2 2 -3\n9 5 0 0 2 0 1\n0\n9 0 3 9\n9 4 2 1 3 1 4\n9 5 0 0 2 2 1\n0\n'),
    ]
    for m, o, d in fixed:
        for v in (0, 1, 2):
            out.append((mk(m, o, d, v), {'kind': 'regression-shape'}))
    while len(out) < total:
        r = rnd.random()
        variant = rnd.choice([0, 0, 1, 2])
        fam = rnd.choice(['aspif', 'aspif', 'smodels', 'smodels', 'text'])
        if fam == 'aspif':
            modes = [(0, 0), (3, rnd.randint(0, 1)), (4, 0)]
            pipeline = rnd.random() < 0.6
            if pipeline:
                modes = modes[1:]          # converters / text writer index tables by atom and id: keep those small
                C.BIG_ATOMS = False
            try:
                r2 = rnd.random()
                if r2 < 0.08:
                    base = aspif_text(cyclic_theory_program(rnd), rnd)
                else:
                    base = aspif_text(coherent_theory_program(rnd) if r2 < (0.55 if pipeline else 0.35) else C.r_program(rnd), rnd)
            finally:
                C.BIG_ATOMS = True
        elif fam == 'smodels':
            base = smodels_text(rnd)
            modes = [(1, rnd.randint(0, 15)), (5, rnd.randint(0, 3)), (6, rnd.randint(0, 3))]
        else:
            base = ground_text(rnd)
            modes = [(2, 0)]
        if r < 0.25:
            data, kind = base, 'valid-' + fam
        elif r < 0.8:
            data = base
            for _ in range(rnd.choice([1, 1, 2, 3])):
                data = mutate_bytes(rnd, data)
            kind = 'mutated-' + fam
        elif r < 0.9:
            words = [b'asp', b'1', b'0', b'2', b'B+', b'B-', b'E', b'#step.', b'a', b':-', b'{', b'}', b'not', b'.', b'#minimize', b'4', b'9', b'"', b'\n'] + BIG
            data = b' '.join(rnd.choice(words) for _ in range(rnd.randint(0, 30)))
            kind = 'token-soup'
        else:
            data = bytes(rnd.randrange(256) for _ in range(rnd.randint(0, 120)))
            if rnd.random() < 0.5:
                data = rnd.choice([b'asp 1 0 0\n', b'1 ', b'a', b'#']) + data
            kind = 'byte-soup'
        m, o = rnd.choice(modes)
        if rnd.random() < 0.03:
            m, o = 7, rnd.randint(0, 7)
            variant = 0
        data = data[:20000]
        if m >= 3 and announces_big(data):
            # converters / text writer index tables by atom or theory id: an id of 10^9 announces a table of that size,
            # which the claim excludes ("exhaustion of memory by sizes the input itself announces") - such inputs go to the readers only
            m, o = (0, 0) if fam == 'aspif' or data[:1] == b'a' else (1, o & 15)
        out.append((mk(m, o, data, variant), {'kind': kind}))
    return out


def shrink(case, fails):
    mode, opts, n = case[0], case[1], case[2]
    data = case[3:3 + n]
    step = max(1, len(data) // 2)
    while step >= 1:
        i = 0
        while i < len(data):
            t = data[:i] + data[i + step:]
            if fails([mode, opts, len(t)] + t):
                data = t
            else:
                i += step
        step //= 2
    return [mode, opts, len(data)] + data


LEVEL_TEXT = ('Partial by nature. Proved in Coq for the reader models: totality and the consumer contract for every byte string. Crashes, out-of-bounds accesses, '
              'UB and leaks of the compiled C++ are exhibited only by running the same inputs through ASan/UBSan/LSan builds of the readers and of lpconvert.')
LEVEL_NOTE = 'Runtime memory behaviour is exploration-strength evidence (sanitizer runs); model-level statements are theorems.'
TECHNIQUE = 'Coq totality/contract theorems over the reader models + sanitizer differential runs'
DESIGN_REF = 'DESIGN.md section 5, C04'
