"""C04 - readers and lpconvert are total and memory-safe on arbitrary input; consumer contract.

Case: mode opts len bytes...   (see harness/h_c04.cpp)
Every mode is modelled (coq/C04/Model.v): readers 0-2 by their call sequence; the lpconvert pipelines 3-6 and the real binary 7 by
status, error reports, error line and the exact output bytes (coq/C04/Pipe.v composes the reader, converter and writer models).
The oracle judges the implementation alone: no crash / sanitizer report / leak / escaped exception, exactly one error report on
rejection, the recorded call sequence respects the consumer contract of the property statement, pipeline output is well-formed, and the
smodels -> aspif conversion equals an independent python reference.  See notes/C04.md.
"""
import random, re
from props import calls as C
from props import reuse as RU

PID = 'C04'
HARNESS = 'h_c04'
MODEL_MODULE = 'V.C04.Model'
NEEDS_LPCONVERT = True
READY = True
INT_MAX = 2 ** 31 - 1
SMALL = [16, 67]
VARIANTS = {'shipped': {}}
VARIANTS.update({('N%d' % n): {'POTASSCO_VERIF_BUF_SIZE': n} for n in SMALL})
RULE = ('cases = (reader/pipeline mode, option bits, arbitrary bytes); streams: byte soup, token soup, grammar-aware mutations of valid aspif / smodels / '
        'ground-text inputs (truncate, splice, flip, duplicate, numbers at 2^31/2^32/2^63/2^64 boundaries, announced lengths larger than the rest, NUL, CR only), '
        'valid programs; valid multi-directive / multi-step programs with small atoms through every lpconvert pipeline and the binary under every option set '
        '(a third damaged in one place); first rules whose head fills the rule builder\'s memory block exactly, long heads (9..14, 20+) / bodies (5..12) in random programs; '
        'multi-step theory programs (1-4 steps) incl. steps that define terms/elements but no theory atom and later steps that re-define earlier ids and use them; '
        'theory programs with ONE directive the text writer has to refuse (a term / element id defined twice within a step - same or other content -, a theory atom with an unknown element / name term; directly behind the repeated directive, in the middle, last in the step) through aspif->text, lpconvert -t and - control, nothing refused - the reader alone, plus fixed inputs of these shapes: a refused conversion reports one error and leaves nothing allocated; '
        'each at the shipped buffer size and hooked sizes 16/67; '
        ''
        'every other case (hash of the case) is read by a reader OBJECT that before read or REFUSED one of the aspif / smodels / text primer texts of harness/reuse.h (accepted incremental ones; refused at every stage, the smodels ones with symbol tables that bind common names, _edge and _heuristic predicates; reader modes 0-2), and in the in-process pipelines (modes 3-6) is converted by a WRITER OBJECT (SmodelsOutput / AspifTextOutput / AspifOutput) that was given a primer program before - accepted, refused before anything was delivered, or refused / cut off in the MIDDLE OF A STEP with rules, #show statements with stored strings, every directive kind and theory data pending (tables in harness/h_c04.cpp and harness/reuse.h; by one reader object or a fresh reader per text) - and must produce the status, error report and output bytes of a fresh writer; '
        'non-trivial = the reader delivered at least one directive, reported an error after the header, or the pipeline wrote output; distinct = distinct (mode, opts, bytes)')
TRUSTED_BASE = ['ASan/UBSan/LSan as the detector of memory errors, UB and leaks in the compiled readers and lpconvert (exploration-strength for the runtime part)',
                'props/C04.py contract oracle, output sanity checks and the python smodels reference of props/C07.py used for the smodels->aspif output',
                'std::ostream integer formatting = Lib/Dec.v print_Z / print_nat; stdout of the binary is flushed by Application::exit before _exit']
HARNESS_ENV = {'ASAN_OPTIONS': 'detect_leaks=1:abort_on_error=0:exitcode=77:allocator_may_return_null=0:max_allocation_size_mb=2048'}
ASSUMPTIONS = ['exhaustion of memory by sizes the input itself announces is outside the claim']


def variant_of(c):
    # the variant is carried in opts bits 8.. : 0 shipped, 1 -> N16, 2 -> N67
    v = (c[1] >> 8) & 3
    return 'shipped' if v == 0 else 'N%d' % SMALL[v - 1]


def split(c):
    mode, opts, ln = c[0], c[1] & 255, c[2]
    return mode, opts, bytes(x & 255 for x in c[3:3 + ln])


def describe(c):
    mode, opts, data = split(c)
    names = ['aspif-reader', 'smodels-reader', 'text-reader', 'aspif->smodels', 'aspif->text', 'smodels->aspif', 'smodels->text', 'lpconvert-binary']
    # harness/reuse.h (modes 0-2): every other case reads with a reader object that read / refused a primer text before
    rd = ' reader=' + RU.reader(c, ('aspif', 'smodels', 'text')[mode], bool(opts & 1)) if 0 <= mode <= 2 else ''
    if 3 <= mode <= 6:
        rd = ' writer=' + writer_reuse(c, mode, opts)
    return '%s opts=%d buf=%s%s input=%r' % (names[mode] if mode < len(names) else mode, opts, variant_of(c), rd, data[:400])


def _writer_tables():
    """ASPIF_WRITER_PRIMERS / SMODELS_WRITER_PRIMERS read from harness/h_c04.cpp itself (same line shape as harness/reuse.h)"""
    import ast, os
    src = open(os.path.join(os.path.dirname(os.path.abspath(__file__)), '..', 'harness', 'h_c04.cpp')).read()
    macros = {}
    for m in re.finditer(r'^#define (WR_[A-Z_0-9]+) ("(?:[^"\\\\]|\\\\.)*")\s*$', src, re.M):
        macros[m.group(1)] = ast.literal_eval('b' + m.group(2))
    tabs = {}
    for m in re.finditer(r'static const reuse::Primer ([A-Z_]+)\[\] = \{[^\n]*\n(.*?)\n\};', src, re.S):
        rows = []
        for line in m.group(2).split('\n'):
            line = line.strip()
            if not line:
                continue
            if not (line.startswith('{') and line.endswith('},')):
                raise ValueError('harness/h_c04.cpp: unexpected primer table line %r' % line)
            toks = RU._TOK.findall(line[1:-2])
            k = toks.index(',')
            rows.append((b''.join(RU._lit(t, macros) for t in toks[:k]).decode(), b''.join(RU._lit(t, macros) for t in toks[k + 1:])))
        tabs[m.group(1)] = rows
    for need in ('ASPIF_WRITER_PRIMERS', 'SMODELS_WRITER_PRIMERS'):
        if not tabs.get(need):
            raise ValueError('harness/h_c04.cpp: primer table %s not found' % need)
    return tabs


WRITER_TABLES = _writer_tables()


def writer_primer(c, mode, opts):
    """(table, index, tag, text) of the primer the harness gives the writer object of a primed pipeline case (modes 3-6), None if fresh"""
    if not (3 <= mode <= 6) or not RU.primed(c):
        return None
    fmt = 'aspif' if mode <= 4 else 'smodels'
    if (RU.fnv(c) >> 19) & 1:
        name = 'ASPIF_WRITER_PRIMERS' if fmt == 'aspif' else 'SMODELS_WRITER_PRIMERS'
        k = RU.pick(c, len(WRITER_TABLES[name]))
        return (name, k) + WRITER_TABLES[name][k]
    return RU.primer(c, fmt, bool(opts & 1))


def writer_reuse(c, mode, opts):
    p = writer_primer(c, mode, opts)
    if p is None:
        return 'fresh'
    name, k, tag, text = p
    shown = text if len(text) <= 120 else text[:100] + b'...(%d bytes)' % len(text)
    how = 'converter of its own each' if mode == 3 else ('one reader object' if (RU.fnv(c) >> 18) & 1 else 'fresh reader per text')
    return 'reused(%s; after primer %s[%d] %s = %r)' % (how, name, k, tag, shown)


def contract(calls_):
    """Consumer contract of the property statement, checked on a recorded call list. Returns list of signatures."""
    sig = []
    st = 'new'   # new -> init -> in-step / between
    for c in calls_:
        t = c[0]
        if t == 1:
            if st != 'new':
                sig.append('contract:initProgram-not-first-or-repeated')
            st = 'between'
            continue
        if st == 'new':
            sig.append('contract:call-before-initProgram')
            st = 'between'
        if t == 2:
            if st == 'step':
                sig.append('contract:beginStep-inside-step')
            st = 'step'
            continue
        if t == 3:
            if st != 'step':
                sig.append('contract:endStep-without-beginStep')
            st = 'between'
            continue
        if st != 'step':
            sig.append('contract:directive-outside-step')

        def atom_ok(a):
            return 1 <= a <= INT_MAX

        def lit_ok(l):
            return l != 0 and atom_ok(abs(l))
        if t == 4:
            _, ht, head, body = c
            if ht not in (0, 1):
                sig.append('contract:head-type-invalid')
            if not all(atom_ok(a) for a in head):
                sig.append('contract:head-atom-out-of-range')
            if not all(lit_ok(l) for l in body):
                sig.append('contract:body-literal-invalid')
        elif t == 5:
            _, ht, head, bound, body = c
            if ht not in (0, 1):
                sig.append('contract:head-type-invalid')
            if not all(atom_ok(a) for a in head):
                sig.append('contract:head-atom-out-of-range')
            if not all(lit_ok(l) for l, w in body):
                sig.append('contract:body-literal-invalid')
            if any(w < 0 for l, w in body):
                sig.append('contract:negative-rule-body-weight')
            if not (-INT_MAX - 1 <= bound <= INT_MAX):
                sig.append('contract:bound-out-of-int-range')
        elif t == 6:
            if not all(lit_ok(l) for l, w in c[2]):
                sig.append('contract:minimize-literal-invalid')
        elif t == 7:
            if not all(atom_ok(a) for a in c[1]):
                sig.append('contract:project-atom-out-of-range')
        elif t == 8:
            if not all(lit_ok(l) for l in c[2]):
                sig.append('contract:output-literal-invalid')
        elif t == 9:
            if not atom_ok(c[1]):
                sig.append('contract:external-atom-out-of-range')
            if c[2] not in (0, 1, 2, 3):
                sig.append('contract:external-value-invalid')
        elif t == 10:
            if not all(lit_ok(l) for l in c[1]):
                sig.append('contract:assume-literal-invalid')
        elif t == 11:
            if not atom_ok(c[1]):
                sig.append('contract:heuristic-atom-out-of-range')
            if c[2] not in range(6):
                sig.append('contract:heuristic-type-invalid')
            if not (0 <= c[4] <= INT_MAX):
                sig.append('contract:heuristic-priority-out-of-range')
            if not all(lit_ok(l) for l in c[5]):
                sig.append('contract:heuristic-condition-invalid')
        elif t == 12:
            if not all(lit_ok(l) for l in c[3]):
                sig.append('contract:edge-condition-invalid')
        elif t == 16:
            if not all(lit_ok(l) for l in c[3]):
                sig.append('contract:theory-element-condition-invalid')
    return sorted(set(sig)), st


def oracle(c, obs):
    mode, opts, data = split(c)
    sig = []
    if len(obs) < 4:
        return ['harness:short-observation']
    status, nerr, line, leak = obs[:4]
    if status in (2, 3) and mode <= 6:
        sig.append('exception-escaped-the-reader')
    if status == 4 and 3 <= mode <= 6:
        # harness: the case was converted by a writer object that had been given a primer program before (writer_primer) AND by a fresh
        # one; status / error report / output bytes differ - the writer used something the input did not contain
        sig.append('reused-writer-differs-from-fresh-writer')
    if leak:
        sig.append('memory-leak')
    if status == 1 and nerr != 1 and mode <= 6:
        sig.append('error-reported-%d-times' % nerr)
    if status == 0 and nerr != 0:
        sig.append('error-handler-called-but-accepted')
    if status == 1 and mode <= 6:
        nlines = data.count(b'\n') + data.count(b'\r') + 1
        if not (1 <= line <= nlines):
            sig.append('error-line-outside-text')
    if mode <= 2:
        cl, rest = C.dec_all(obs[4:])
        if rest:
            sig.append('harness:undecodable-trace')
        cs, st = contract(cl)
        sig += cs
        if status == 0 and st == 'step':
            sig.append('contract:accepted-with-open-step')
        if status == 1 and cl and cl[-1][0] == 3 and False:
            pass
    if mode == 1 and (opts & 6) and b'\0' not in data:
        # special-predicate conversion: every delivered edge / heuristic must be justified by a well-formed `_edge(..)` / `_acyc_..` /
        # `_heuristic(..)` symbol line of the input (independent reference matchers of props/C08.py); a delivery without one means the
        # scanner used bytes that are not part of that name
        from props import C08 as R
        names = []
        for ln in data.replace(b'\r\n', b'\n').replace(b'\r', b'\n').split(b'\n'):
            # a symbol line as the reader sees it: white space (bytes 9..32) is skipped in front of the atom number, ONE further byte
            # (whatever it is) separates it from the name, the name runs to the line end (false alarm of the thorough run #2: a line
            # with a leading blank was not recognised as a symbol line)
            t = ln.lstrip(bytes(range(9, 33)))
            k = 0
            while k < len(t) and 48 <= t[k] <= 57:
                k += 1
            if k > 0 and k < len(t):
                names.append(t[k + 1:])
        n_edge = sum(1 for nm in names if R.ref_edge(nm) is not None)
        n_heu = sum(1 for nm in names if R.ref_heu(nm) is not None)
        cl = C.dec_all(obs[4:])[0]
        if sum(1 for c_ in cl if c_[0] == 12) > n_edge:
            sig.append('edge-delivered-without-a-well-formed-edge-symbol')
        if sum(1 for c_ in cl if c_[0] == 11) > n_heu:
            sig.append('heuristic-delivered-without-a-well-formed-heuristic-symbol')
    if mode == 7:
        # status = exit status of the binary
        if status not in (0, 1, 2000):
            sig.append('lpconvert-abnormal-exit-%d' % status)
        recognised = data[:1] == b'a' or data[:1].isdigit()
        if status == 1 and nerr != (1 if recognised else 0):
            sig.append('lpconvert-error-reported-%d-times' % nerr)
        if status == 1 and nerr == 1:
            nlines = data.count(b'\n') + data.count(b'\r') + 1
            if not (1 <= line <= nlines):
                sig.append('error-line-outside-text')
    if mode >= 3 and status != 2000:
        if len(obs) < 5 or obs[4] != len(obs) - 5:
            sig.append('harness:output-length-mismatch')
        elif status in (0, 1) and b'\0' not in data:
            sig += output_sane(mode, opts, data, status, bytes(obs[5:]))
    return sig


def output_sane(mode, opts, data, status, out):
    """Judgement on the bytes a pipeline wrote, from the implementation alone: whatever was written before an error is a prefix of
    well-formed output of the target format, and accepted input yields complete output."""
    sig = []
    m = mode
    if mode == 7:
        if data[:1] == b'a':
            m = 4 if opts & 4 else 3
        elif data[:1].isdigit():
            m = 6 if opts & 4 else 5
        else:
            return ['lpconvert-wrote-output-for-unrecognised-input'] if out else []
    if m == 5 and not (opts & 1):
        # independent reference: props/C07.py's byte-level smodels reader + the aspif spelling of the calls it denotes; the real
        # pipeline must have written exactly that (all of it when accepted, the part before the error otherwise)
        from props import C07 as R7
        ok, rcalls, rej = R7.reference(list(data), False)
        want = b''.join(aspif_text([cl]) for cl in rcalls if cl[0] != 2)
        if (status == 0) != bool(ok):
            sig.append('smodels-to-aspif-status-differs-from-reference')
        elif out != want:
            sig.append('smodels-to-aspif-output-differs-from-reference')
    if m == 5:
        # aspif: header line first; every complete line is a sequence of blank separated tokens starting with a directive number;
        # an accepted program ends with the step terminator
        if out:
            if not out.startswith(b'asp 1 0 0'):
                sig.append('aspif-output-without-header')
            if not out.endswith(b'\n'):
                sig.append('aspif-output-ends-inside-a-line')
        if status == 0 and not out.endswith(b'\n0\n'):
            sig.append('aspif-output-accepted-but-not-terminated')
    elif m == 3:
        # smodels: only digits, blanks, line feeds, the compute keywords and symbol names; an accepted program ends with the model count
        if out and not out.endswith(b'\n'):
            sig.append('smodels-output-ends-inside-a-line')
        if status == 0 and not out.endswith(b'\n1\n'):
            sig.append('smodels-output-accepted-but-not-terminated')
    else:
        if out and not out.endswith(b'\n'):
            sig.append('text-output-ends-inside-a-line')
    return sig


def crash_sig(c, summary):
    """Sizes the input itself announces (a theory id of 3e9 makes the id-indexed table that large) are outside the claim."""
    if 'allocation-size-too-big' in summary or 'out-of-memory' in summary or 'requested allocation size' in summary:
        return None
    return 'crash:' + '_'.join(summary.split())


def nontrivial(c, obs):
    if len(obs) < 4:
        return False
    mode = c[0]
    if mode <= 2:
        return len(obs) > 8 or obs[0] == 1
    return obs[0] == 1 or (len(obs) > 4 and obs[4] > 0)


def obs_equal(c, impl, model):
    """Every mode is modelled: readers (0-2) by their call sequence, the lpconvert pipelines (3-6) and the binary (7) by status,
    number of error reports, error line and the exact bytes of the output stream."""
    mode = c[0]
    if 0 in c[3:3 + c[2]]:
        return True       # a NUL byte ends the visible window of the real buffer at a buffer-dependent place (C09 excludes NUL); oracle only
    if mode == 7 and impl and impl[0] == 2000:
        return True       # sanitizer report about an allocation size the input announces: outside the claim
    if not model or len(impl) < 4 or len(model) < 4:
        return False      # [] = undecodable case, [-1] = a reader loop of the model ran out of fuel (proved impossible)
    # status, error count and calls / output bytes must agree; the error line only when an error was reported; leak flag is implementation-only
    if impl[0] != model[0] or impl[1] != model[1]:
        return False
    if impl[0] == 1 and impl[1] and impl[2] != model[2]:
        return False
    return impl[4:] == model[4:]


# ---- python emitters of (mostly) valid inputs -------------------------------------------------------
def aspif_text(prog, rnd=None):
    out = []
    for c in prog:
        t = c[0]
        if t == 1:
            out.append('asp 1 0 0' + (' incremental' if c[1] else ''))
        elif t == 2:
            pass
        elif t == 3:
            out.append('0')
        elif t == 4:
            out.append('1 %d %d %s 0 %d %s' % (c[1], len(c[2]), ' '.join(map(str, c[2])), len(c[3]), ' '.join(map(str, c[3]))))
        elif t == 5:
            out.append('1 %d %d %s 1 %d %d %s' % (c[1], len(c[2]), ' '.join(map(str, c[2])), c[3], len(c[4]), ' '.join('%d %d' % lw for lw in c[4])))
        elif t == 6:
            out.append('2 %d %d %s' % (c[1], len(c[2]), ' '.join('%d %d' % lw for lw in c[2])))
        elif t == 7:
            out.append('3 %d %s' % (len(c[1]), ' '.join(map(str, c[1]))))
        elif t == 8:
            out.append('4 %d %s %d %s' % (len(c[1]), c[1].decode('latin-1'), len(c[2]), ' '.join(map(str, c[2]))))
        elif t == 9:
            out.append('5 %d %d' % (c[1], c[2]))
        elif t == 10:
            out.append('6 %d %s' % (len(c[1]), ' '.join(map(str, c[1]))))
        elif t == 11:
            out.append('7 %d %d %d %d %d %s' % (c[2], c[1], c[3], c[4], len(c[5]), ' '.join(map(str, c[5]))))
        elif t == 12:
            out.append('8 %d %d %d %s' % (c[1], c[2], len(c[3]), ' '.join(map(str, c[3]))))
        elif t == 13:
            out.append('9 0 %d %d' % (c[1], c[2]))
        elif t == 14:
            out.append('9 1 %d %d %s' % (c[1], len(c[2]), c[2].decode('latin-1')))
        elif t == 15:
            out.append('9 2 %d %d %d %s' % (c[1], c[2], len(c[3]), ' '.join(map(str, c[3]))))
        elif t == 16:
            out.append('9 4 %d %d %s %d %s' % (c[1], len(c[2]), ' '.join(map(str, c[2])), len(c[3]), ' '.join(map(str, c[3]))))
        elif t == 17:
            out.append('9 5 %d %d %d %s' % (c[1], c[2], len(c[3]), ' '.join(map(str, c[3]))))
        elif t == 18:
            out.append('9 6 %d %d %d %s %d %d' % (c[1], c[2], len(c[3]), ' '.join(map(str, c[3])), c[4], c[5]))
    return ('\n'.join(re_ws(x) for x in out) + '\n').encode('latin-1')


def re_ws(s):
    return s.replace('  ', ' ').rstrip() if not s.startswith('4 ') and not s.startswith('9 1') else s


def smodels_text(rnd):
    n = rnd.randint(1, 6)
    lines = []
    A = lambda: rnd.randint(1, n)
    for _ in range(rnd.randint(0, 6)):
        k = rnd.choice([1, 1, 2, 3, 5, 8, 6])
        if k == 1:
            nl = rnd.randint(0, 3); ng = rnd.randint(0, nl)
            lines.append('1 %d %d %d %s' % (A(), nl, ng, ' '.join(str(A()) for _ in range(nl))))
        elif k == 2:
            nl = rnd.randint(0, 3); ng = rnd.randint(0, nl)
            lines.append('2 %d %d %d %d %s' % (A(), nl, ng, rnd.randint(0, 3), ' '.join(str(A()) for _ in range(nl))))
        elif k in (3, 8):
            nh = rnd.randint(1, 3); nl = rnd.randint(0, 3); ng = rnd.randint(0, nl)
            lines.append('%d %d %s %d %d %s' % (k, nh, ' '.join(str(A()) for _ in range(nh)), nl, ng, ' '.join(str(A()) for _ in range(nl))))
        elif k == 5:
            nl = rnd.randint(0, 3); ng = rnd.randint(0, nl)
            lines.append('5 %d %d %d %d %s %s' % (A(), rnd.randint(0, 5), nl, ng, ' '.join(str(A()) for _ in range(nl)), ' '.join(str(rnd.randint(0, 3)) for _ in range(nl))))
        elif k == 6:
            nl = rnd.randint(0, 3); ng = rnd.randint(0, nl)
            lines.append('6 0 %d %d %s %s' % (nl, ng, ' '.join(str(A()) for _ in range(nl)), ' '.join(str(rnd.randint(0, 3)) for _ in range(nl))))
    lines.append('0')
    names = ['a', 'b(1)', '_heuristic(a,level,1,2)', '_edge(1,2)', '_acyc_1_2_3', 'p("x,y")', '_heuristic(b(1),sign,-1)',
             # scanner boundaries of the special-predicate matchers: unterminated quotes, names ending in a backslash, escaped
             # backslashes before a quote, unbalanced parentheses, a longer name before a shorter malformed one (stale bytes behind it)
             'aaaaaaaaaaaaaaaa",b)', '_edge("a\\', '_edge("a\\\\",b)', '_heuristic("b\\', '_heuristic(p("x\\"),level,1)', '_edge((a,b',
             '_edge(a,"b', '_heuristic(a', '_heuristic(a,level,', '_acyc_', '_acyc_1_', '_edge(,)', '_heuristic("\\\\",sign,1,1)']
    if rnd.random() < 0.25 and n >= 2:
        # "stale tail": a truncated special predicate right after a longer name whose tail would complete it if a scanner ran past the
        # end of the shorter name (the name buffer is re-used between symbols)
        whole = rnd.choice(['_edge("a\\",b)', '_edge("a",b)', '_heuristic("a\\",level,1)', '_heuristic(p("x"),sign,1,2)', '_edge(f("x\\\\"),2)', '_acyc_1_2_3'])
        k = rnd.randint(2, len(whole) - 1)
        lines.append('1 %s%s' % ('a' * (k + rnd.randint(0, 3)), whole[k:]))
        lines.append('2 %s' % whole[:k])
        start = 3
    else:
        start = 1
    for i in range(start, n + 1):
        if rnd.random() < 0.7:
            lines.append('%d %s' % (i, rnd.choice(names)))
    lines.append('0')
    lines.append('B+')
    if rnd.random() < 0.3:
        lines.append(str(A()))
    lines.append('0')
    lines.append('B-')
    if rnd.random() < 0.3:
        lines.append(str(A()))
    lines.append('0')
    if rnd.random() < 0.3:
        lines.append('E')
        lines.append(str(A()))
        lines.append('0')
    lines.append('1')
    return ('\n'.join(lines) + '\n').encode()


HEU_MODS = ['level', 'sign', 'factor', 'init', 'true', 'false']


def smodels_prog(rnd, ext):
    """A valid smodels program with small atoms: with `ext` possibly incremental (several steps, external rules), symbol tables that
    mix plain names with the special predicates lpconvert -p converts back (`_heuristic(..)`, `_edge(..)`, `_acyc_..`), heuristics on
    names defined in the same / an earlier / no step, compute statements."""
    inc = ext and rnd.random() < 0.4
    steps = rnd.choice([1, 2, 3]) if inc else 1
    n = rnd.randint(2, 7)
    A = lambda: rnd.randint(1, n)
    plain = ['a', 'b', 'c(1)', 'p("x,y")', 'q(a,b)', 'x_1', '"s"', 'f(g(1),"(")']
    lines = []
    for st in range(steps):
        if inc:
            lines.append('90 0')
        for _ in range(rnd.choice([0, 1, 2, 3, 5])):
            k = rnd.choice([1, 1, 2, 3, 5, 8, 6] + ([91, 92] if ext else []))
            nl = rnd.randint(0, 3); ng = rnd.randint(0, nl)
            at = ' '.join(str(A()) for _ in range(nl))
            if k == 1:
                lines.append('1 %d %d %d %s' % (A(), nl, ng, at))
            elif k == 2:
                lines.append('2 %d %d %d %d %s' % (A(), nl, ng, rnd.randint(0, 3), at))
            elif k in (3, 8):
                nh = rnd.randint(1, 3)
                lines.append('%d %d %s %d %d %s' % (k, nh, ' '.join(str(A()) for _ in range(nh)), nl, ng, at))
            elif k == 5:
                lines.append('5 %d %d %d %d %s %s' % (A(), rnd.randint(0, 5), nl, ng, at, ' '.join(str(rnd.randint(0, 3)) for _ in range(nl))))
            elif k == 6:
                lines.append('6 0 %d %d %s %s' % (nl, ng, at, ' '.join(str(rnd.randint(0, 3)) for _ in range(nl))))
            elif k == 91:
                lines.append('91 %d %d' % (A(), rnd.randint(0, 2)))
            else:
                lines.append('92 %d' % A())
        lines.append('0')
        atoms = list(range(1, n + 1))
        rnd.shuffle(atoms)
        for a in atoms[:rnd.randint(0, n)]:
            r = rnd.random()
            if r < 0.45:
                nm = rnd.choice(plain)
            elif r < 0.7:
                nm = '_heuristic(%s,%s,%d%s)' % (rnd.choice(plain), rnd.choice(HEU_MODS), rnd.choice([-2, -1, 0, 1, 3, 2147483647, -2147483648]),
                                                 rnd.choice(['', ',0', ',1', ',7', ',2147483647']))
            elif r < 0.9:
                nm = rnd.choice(['_edge(%d,%d)' % (rnd.randint(0, 3), rnd.randint(0, 3)), '_edge(%s,%s)' % (rnd.choice(plain), rnd.choice(plain)),
                                 '_acyc_%d_%d_%d' % (rnd.randint(0, 9), rnd.randint(0, 3), rnd.randint(0, 3))])
            else:
                nm = rnd.choice(['_heuristic(a,level,', '_edge(1', '_acyc_1_', '_heuristic(a,foo,1)', '_edge(,)', '_heuristic(b,sign,1,-1)'])
            lines.append('%d %s' % (a, nm))
        lines.append('0')
        lines.append('B+')
        for _ in range(rnd.choice([0, 0, 1, 2])):
            lines.append(str(A()))
        lines.append('0')
        lines.append('B-')
        for _ in range(rnd.choice([0, 0, 1, 2])):
            lines.append(str(A()))
        lines.append('0')
        if rnd.random() < 0.3:
            lines.append('E')
            for _ in range(rnd.choice([0, 1, 2])):
                lines.append(str(A()))
            lines.append('0')
        lines.append('1')
    return ('\n'.join(lines) + '\n').encode()


def convertible_program(rnd, ext):
    """A valid aspif program of the directives smodels format can carry (rules, weight rules, minimize, output, external and - with the
    extensions - heuristic / edge), small atoms, 1..3 steps when `ext`."""
    kinds = [4, 4, 4, 5, 5, 6, 8, 8, 9] + ([11, 12] if ext else [])
    old = C.BIG_ATOMS
    C.BIG_ATOMS = False
    try:
        steps = rnd.choice([1, 1, 2, 3]) if ext else 1
        prog = [(1, steps > 1)]
        for _ in range(steps):
            prog.append((2,))
            for _ in range(rnd.choice([0, 1, 2, 3, 5, 8])):
                d = C.r_directive(rnd, small=6, theory=False, kinds=kinds)
                if d[0] == 6:
                    d = (6, d[1], [(l, w if w != -2 ** 31 else -1) for l, w in d[2]])     # INT_MIN is refused (C02); keep most programs convertible
                if d[0] == 8 and rnd.random() < 0.8:
                    d = (8, rnd.choice([b'a', b'b(1)', b'p("x y")', b'_x', b'c']), d[2])
                prog.append(d)
            prog.append((3,))
        return prog
    finally:
        C.BIG_ATOMS = old


CAP_HEADS = [9, 10, 11, 12, 13, 25, 26, 27, 28, 29, 57, 58, 59, 60, 61, 123]


def capacity_rule_text(rnd, fam):
    """The rule builder keeps one growing memory block (64 bytes at first, doubled on demand: 20-byte header + 4 bytes per head atom / 8
    per weighted literal).  A rule that is the LARGEST thing the builder has held so far, with a head that fills the block exactly,
    makes the sum bound / the first body literal the element that moves the block.  First rule of the program, head sizes around
    every block size, in aspif and ground-text spelling."""
    k = rnd.choice(CAP_HEADS + [rnd.randint(0, 70)])
    ht = rnd.choice([0, 1])
    nb = rnd.choice([0, 1, 1, 2, 5, 6, 7, 13, 14, 15])
    bound = rnd.choice([0, 1, 2, 5])
    sumbody = rnd.random() < 0.7
    pre = rnd.random() < 0.25            # sometimes a small rule first (then the block has already grown or not)
    if fam == 'aspif':
        out = ['asp 1 0 0']
        if pre:
            out.append('1 0 1 1 0 1 2')
        head = ' '.join(str(i + 1) for i in range(k))
        if sumbody:
            body = ' '.join('%d %d' % (rnd.choice([1, -1]) * (k + 1 + j), rnd.randint(1, 3)) for j in range(nb))
            out.append(('1 %d %d %s 1 %d %d %s' % (ht, k, head, bound, nb, body)).replace('  ', ' ').rstrip())
        else:
            body = ' '.join(str(rnd.choice([1, -1]) * (k + 1 + j)) for j in range(nb))
            out.append(('1 %d %d %s 0 %d %s' % (ht, k, head, nb, body)).replace('  ', ' ').rstrip())
        out.append('0')
        return ('\n'.join(out) + '\n').encode()
    names = ['x%d' % (i + 1) for i in range(k)]
    head = ('{%s}' % ';'.join(names)) if ht else '|'.join(names)
    L = lambda j: ('not ' if rnd.random() < 0.4 else '') + 'x%d' % (k + 1 + j)
    if sumbody:
        body = '%d {%s}' % (bound, '; '.join('%s=%d' % (L(j), rnd.randint(1, 3)) for j in range(nb)))
    else:
        body = ', '.join(L(j) for j in range(nb))
    txt = ('a :- b.\n' if pre else '') + (head + (' :- ' + body if body else '') + '.\n' if (head or body) else '')
    return txt.encode()


def ground_text(rnd):
    atoms = ['a', 'b', 'c', 'x1', 'x_2', 'x17', 'z']
    A = lambda: rnd.choice(atoms)
    L = lambda: ('not ' if rnd.random() < 0.4 else '') + A()
    st = []
    for _ in range(rnd.randint(0, 6)):
        k = rnd.randint(0, 11)
        if k == 0:
            st.append('%s.' % A())
        elif k == 1:
            st.append('%s :- %s.' % ('|'.join(A() for _ in range(rnd.randint(1, 3))), ', '.join(L() for _ in range(rnd.randint(1, 3)))))
        elif k == 2:
            st.append('{%s} :- %s.' % (';'.join(A() for _ in range(rnd.randint(0, 3))), L()))
        elif k == 3:
            st.append('%s :- %d {%s}.' % (A(), rnd.randint(-1, 3), '; '.join('%s=%d' % (L(), rnd.randint(0, 3)) for _ in range(rnd.randint(0, 3)))))
        elif k == 4:
            st.append(':- %s.' % L())
        elif k == 5:
            st.append('#minimize{%s}@%d.' % ('; '.join('%s=%d' % (L(), rnd.randint(-2, 3)) for _ in range(rnd.randint(0, 3))), rnd.randint(-1, 2)))
        elif k == 6:
            st.append('#project{%s}.' % ', '.join(A() for _ in range(rnd.randint(0, 3))))
        elif k == 7:
            st.append('#output foo(%d) : %s.' % (rnd.randint(0, 9), L()))
        elif k == 8:
            st.append('#external %s. [%s]' % (A(), rnd.choice(['true', 'false', 'free', 'release'])))
        elif k == 9:
            st.append('#assume{%s}.' % ', '.join(L() for _ in range(rnd.randint(0, 3))))
        elif k == 10:
            st.append('#heuristic %s : %s. [%d@%d, %s]' % (A(), L(), rnd.randint(-2, 2), rnd.randint(0, 2), rnd.choice(['level', 'sign', 'factor', 'init', 'true', 'false'])))
        else:
            st.append('#edge (%d,%d) : %s.' % (rnd.randint(0, 3), rnd.randint(0, 3), L()))
    if rnd.random() < 0.2:
        st.insert(0, '#incremental.')
        st.insert(rnd.randint(1, len(st)), '#step.')
    return ('\n'.join(st) + '\n').encode()


REFUSED_KINDS = ['term', 'term', 'elem', 'elem', 'elem', 'atom-unknown']
REFUSED_POS = ['first', 'middle', 'last']


def refuse_in_step(rnd, prog, kind=None, pos=None):
    """The "refused" flavour of a theory program: ONE theory directive that a TheoryData-backed consumer (AspifTextOutput = lpconvert -t) has
    to refuse, inserted into a random step:
      'term' / 'elem'  a term / element id that this step has defined already is defined AGAIN in the same step (same or different content,
                       every term kind) - "Redefinition of theory term / element" (re-defining an id of an EARLIER step is legal and is what
                       `redefine` does);
      'atom-unknown'   a theory atom that names an element / term id nothing has defined (refused when the step is written);
    placed 'first' (directly behind the directive it repeats; for an unknown id: first directive of the step), in the 'middle' (anywhere
    behind it) or 'last' (last directive of the step).  The aspif READER checks none of this (mode 0 = control: accepted); the text pipeline
    reports exactly one error and must leave nothing allocated (seeded change C04-r9: the refused addElement leaked the element it had built
    before the check).  Returns (program, tag)."""
    prog = list(prog)
    begins = [i for i, c in enumerate(prog) if c[0] == 2]
    if not begins:
        return prog, 'none'
    kind = kind or rnd.choice(REFUSED_KINDS)
    pos = pos or rnd.choice(REFUSED_POS)
    for _ in range(8):
        b = rnd.choice(begins)
        e = min(i for i, c in enumerate(prog) if c[0] == 3 and i > b)
        tdefs = [i for i in range(b + 1, e) if prog[i][0] in (13, 14, 15)]
        edefs = [i for i in range(b + 1, e) if prog[i][0] == 16]
        if kind == 'term' and tdefs:
            i = rnd.choice(tdefs)
            t = prog[i][1]
            k = rnd.random()
            dup = prog[i] if k < 0.4 else (13, t, rnd.choice([0, 5, -1])) if k < 0.6 else (14, t, rnd.choice([b'q', b'f', b'+'])) if k < 0.8 else \
                (15, t, rnd.choice([-1, -2, -3]), [prog[rnd.choice(tdefs)][1] for _ in range(rnd.randint(0, 3))])
            break
        if kind == 'elem' and edefs:
            i = rnd.choice(edefs)
            c = prog[i]
            known = [x[1] for x in prog[:e] if x[0] in (13, 14, 15)] or [0]
            k = rnd.random()
            dup = c if k < 0.4 else (16, c[1], [rnd.choice(known) for _ in range(rnd.randint(0, 4))], [C.r_lit(rnd, 5) for _ in range(rnd.choice([0, 0, 1, 2]))])
            break
        if kind == 'atom-unknown':
            i = b
            syms = [x[1] for x in prog[:e] if x[0] == 14]
            name = rnd.choice(syms) if syms and rnd.random() < 0.7 else rnd.choice([40, 41, 99])
            es = [rnd.choice([40, 41, 99])] if name in syms or rnd.random() < 0.5 else []      # an unknown element and / or an unknown name term
            dup = (17, rnd.choice([0, rnd.randint(6, 9)]), name, es)
            break
        kind = rnd.choice(['term', 'elem', 'atom-unknown'])
    else:
        return prog, 'none'
    at = i + 1 if pos == 'first' else e if pos == 'last' else rnd.randint(i + 1, e)
    prog.insert(at, dup)
    return prog, '%s-%s' % (kind, pos)


def coherent_theory_program(rnd, redefine=None, refused=None):
    """`refused` (default: 8 % of the programs): the program additionally gets one directive the text writer refuses (refuse_in_step).
    A valid (mostly incremental) program of 1-4 steps whose theory data is referentially consistent and acyclic: terms before use,
    elements with and without conditions, atoms (with/without guard) that reference elements and terms defined in the SAME or an EARLIER
    step.  With `redefine` (multi-step programs only): some steps define terms / elements but NO theory atom, and later steps RE-DEFINE term
    and element ids of earlier steps with different content (legal: an id need only be unique within one step) and then use them in atoms
    (seeded change C06-r5: the writer's theory frame must be closed by every step, not only by steps that wrote an atom).
    Acyclicity under redefinition: a compound term only refers to term ids smaller than its own."""
    steps = rnd.choice([1, 2, 2, 3, 3, 4])
    if redefine is None:
        redefine = rnd.random() < 0.45
    redefine = redefine and steps > 1
    prog = [(1, steps > 1)]
    kind = {}                             # term id -> 'n' | 's' | 'c' : the CURRENT definition (all steps)
    elems = []                            # element ids defined so far (all steps)
    nid = [0]

    def fresh():
        nid[0] += 1
        return nid[0] - 1
    for st in range(steps):
        prog.append((2,))
        new_t, new_e = set(), set()       # ids (re)defined in this step: may not be defined again in it
        noatom = redefine and st < steps - 1 and rnd.random() < (0.7 if st == 0 else 0.4)

        def pick(table, new):
            """an id to define now: a fresh one, or - under `redefine` - one of an earlier step that this step has not defined yet"""
            old = [x for x in table if x not in new]
            i = rnd.choice(old) if (redefine and old and rnd.random() < 0.55) else fresh()
            new.add(i)
            return i
        for _ in range(rnd.randint(0, 2)):
            prog.append(C.r_rule(rnd, 5))
        for _ in range(rnd.randint(1, 4)):
            k = rnd.random()
            t = pick(kind, new_t)
            below = [x for x in kind if x < t]
            if k < 0.4 or not below:
                prog.append((13, t, rnd.choice([0, 1, 42, -7, 2 ** 31 - 1, st + 10])))
                kind[t] = 'n'
            elif k < 0.7:
                nm = rnd.choice([b'p', b'f', b'sum', b'>=', b'+', b'x'])
                prog.append((14, t, nm)); kind[t] = 's'
            else:
                syms = [x for x in below if kind[x] == 's']
                base = rnd.choice(syms) if syms and rnd.random() < 0.7 else rnd.choice([-1, -2, -3])
                prog.append((15, t, base, [rnd.choice(below) for _ in range(rnd.randint(0, 3))]))
                kind[t] = 'c'
        if not any(v == 's' for v in kind.values()):
            t = fresh(); prog.append((14, t, b'p')); kind[t] = 's'; new_t.add(t)
        terms = sorted(kind)
        syms = [x for x in terms if kind[x] == 's']
        for _ in range(rnd.randint(0, 3) if (st == 0 or redefine or rnd.random() < 0.5) else 0):   # later steps often only RE-USE earlier elements
            e = pick(elems, new_e)
            cond = [C.r_lit(rnd, 5) for _ in range(rnd.choice([0, 1, 2, 2]))]
            prog.append((16, e, [rnd.choice(terms) for _ in range(rnd.randint(0, 2))], cond))
            if e not in elems:
                elems.append(e)
        for _ in range(0 if noatom else rnd.randint(1, 2)):
            es = [rnd.choice(elems) for _ in range(rnd.randint(0, 2))] if elems else []
            if redefine and rnd.random() < 0.6:
                # prefer what this step has just (re)defined
                es = [e for e in es if e in new_e] + [e for e in sorted(new_e)][:rnd.randint(0, 2)]
            if rnd.random() < 0.3:
                prog.append((18, rnd.choice([0, rnd.randint(6, 9)]), rnd.choice(syms), es, rnd.choice(syms), rnd.choice(terms)))
            else:
                prog.append((17, rnd.choice([0, rnd.randint(6, 9)]), rnd.choice(syms), es))
        prog.append((3,))
    if refused is None:
        refused = rnd.random() < 0.08
    if refused:
        prog = refuse_in_step(rnd, prog)[0]
    return prog


def cyclic_theory_program(rnd, refused=None):
    """`refused` (default: 15 %): additionally one same-step redefinition / unknown id (refuse_in_step) - two errors, the first one is reported.
    Malformed but syntactically valid: theory terms that refer to themselves / each other through the function symbol or an argument
    (with 0, 1 or several arguments), used by an atom. Writers must report an error, never recurse without bound."""
    n = rnd.choice([1, 1, 2, 3])
    ids = list(range(5, 5 + n))
    prog = [(1, False), (2,), (13, 1, 7), (14, 2, b'f')]
    for k, t in enumerate(ids):
        nxt = ids[(k + 1) % n]
        nargs = rnd.choice([0, 0, 1, 2])
        via_fun = rnd.random() < 0.6 or nargs == 0
        base = nxt if via_fun else rnd.choice([2, -1, -2, -3])
        args = [(nxt if (not via_fun and j == 0) else rnd.choice([1, 2, nxt])) for j in range(nargs)]
        prog.append((15, t, base, args))
    how = rnd.random()
    if how < 0.4:
        prog.append((17, 0, ids[0], []))                         # as the atom's name term
    elif how < 0.8:
        prog += [(16, 1, [ids[0]], []), (17, 0, 2, [1])]         # inside an element
    else:
        prog.append((18, 0, 2, [], 2, ids[0]))                   # as guard rhs
    prog.append((3,))
    if refused is None:
        refused = rnd.random() < 0.15
    if refused:
        prog = refuse_in_step(rnd, prog)[0]
    return prog


BIG = [b'2147483647', b'2147483648', b'4294967295', b'4294967296', b'9223372036854775807', b'9223372036854775808',
       b'18446744073709551615', b'18446744073709551616', b'18446744073709551617', b'-2147483648', b'-2147483649',
       b'-9223372036854775808', b'99999999999999999999999999999999999999', b'0', b'-0', b'+1', b'00000000001']


def mutate_bytes(rnd, data):
    data = bytearray(data)
    k = rnd.randint(0, 9)
    toks = bytes(data).split(b' ')
    if k == 0 and data:
        del data[rnd.randrange(len(data)):]
    elif k == 1 and data:
        i = rnd.randrange(len(data)); data[i] = rnd.choice([0, 13, 10, 32, 9, 45, 48, 57, 255, 34, 40, 41, 44, 35])
    elif k == 2 and len(toks) > 1:
        i = rnd.randrange(len(toks)); toks[i] = rnd.choice(BIG); data = bytearray(b' '.join(toks))
    elif k == 3 and len(toks) > 1:
        i = rnd.randrange(len(toks)); del toks[i]; data = bytearray(b' '.join(toks))
    elif k == 4 and len(toks) > 1:
        i = rnd.randrange(len(toks)); toks.insert(i, toks[i]); data = bytearray(b' '.join(toks))
    elif k == 5 and data:
        i = rnd.randrange(len(data)); j = rnd.randrange(len(data)); data[i:i] = data[j:j + rnd.randint(1, 20)]
    elif k == 6:
        data = bytearray(bytes(data).replace(b'\n', rnd.choice([b'\r\n', b'\r', b'\n\n', b' '])))
    elif k == 7 and data:
        i = rnd.randrange(len(data)); data[i:i] = bytes([0])
    elif k == 8 and data:
        i = rnd.randrange(len(data)); data[i:i] = b' ' * rnd.choice([1, 15, 16, 17, 66, 67, 68, 4095, 4096, 4097])
    elif k == 9 and len(toks) > 1:
        i = rnd.randrange(len(toks))
        try:
            v = int(toks[i]); toks[i] = str(v + rnd.choice([-1, 1, 2 ** 31, 2 ** 32, 2 ** 64])).encode()
        except ValueError:
            pass
        data = bytearray(b' '.join(toks))
    return bytes(data)


def announces_big(data):
    for t in re.findall(rb'\d{7,}', data):
        return True
    return False


def mk(mode, opts, data, variant=0):
    data = bytes(data)
    return [mode, (opts & 255) | (variant << 8), len(data)] + list(data)


def gen(seed, tier):
    rnd = random.Random(seed * 9176 + 4)
    total = {'quick': 3000, 'thorough': 80000, 'search': 6000}.get(tier, 3000)
    out = []
    # regression shapes
    fixed = [
        (0, 0, b'asp 1 0 0\n1 0 1 18446744073709551617 0 0\n0\n'),
        (0, 0, b'asp 1 0 0\n4 4294967295 a 0\n0\n'),
        (0, 0, b'asp 1 0 0\n4 5 abc'),
        (0, 0, b'asp 1 0 0\n1 0 1 1 1 1 0\n0\n'),
        (4, 0, b'asp 1 0 0\n1 0 1 1 1 1 0\n0\n'),
        (4, 0, b'asp 1 0 0\n1 0 1 1 1 1 2 2 0 3 0\n0\n'),
        (3, 1, b'asp 1 0 0\n2 0 1 1 -2147483648\n0\n'),
        (1, 15, b'1 1 1 5 2\n0\n0\nB+\n0\nB-\n0\n1\n'),
        (1, 0, b'5 1 1 1 0 2 4294967295\n0\n0\nB+\n0\nB-\n0\n1\n'),
        (1, 15, b'1 1 0 0\n0\n1 _heuristic(a,level,-2147483648)\n0\nB+\n0\nB-\n0\n1\n'),
        (2, 0, b'a :- 1 {b = -2}.\n'),
        (2, 0, b'#output "  a b" : x1.\n'),
        (2, 0, b'x1 :- not\tx2.\n'),
        (1, 7, b'1 1 0 0\n1 2 0 0\n0\n1 aaaaaaaaaa",b)\n2 _edge("a\\\n0\nB+\n0\nB-\n0\n1\n'),
        (1, 7, b'1 1 0 0\n1 2 0 0\n0\n1 aaaaaaaaaaaaaaa",level,1)\n2 _heuristic("a\\\n0\nB+\n0\nB-\n0\n1\n'),
        # incremental program whose second step re-uses a conditional theory element of the first (conditions must outlive the step)
        (4, 0, b'asp 1 0 0 incremental\n9 1 0 1 p\n9 0 1 7\n9 0 2 8\n9 4 0 1 1 1 1\n9 4 1 1 2 2 2 -3\n9 5 0 0 2 0 1\n0\n9 0 3 9\n9 4 2 1 3 1 4\n9 5 0 0 2 2 1\n0\n'),
        (7, 4, b'asp 1 0 0 incremental\n9 1 0 1 p\n9 0 1 7\n9 0 2 8\n9 4 0 1 1 1 1\n9 4 1 1 2 2 2 -3\n9 5 0 0 2 0 1\n0\n9 0 3 9\n9 4 2 1 3 1 4\n9 5 0 0 2 2 1\n0\n'),
        # seeded change C04-r5: first rule = choice over 11 head atoms (they fill the rule builder's initial 64-byte block exactly) with a
        # sum body, so the bound is the element that moves the block; aspif and ground-text spelling, readers and pipelines
        (0, 0, b'asp 1 0 0\n1 1 11 1 2 3 4 5 6 7 8 9 10 11 1 1 1 12 1\n0\n'),
        (3, 0, b'asp 1 0 0\n1 1 11 1 2 3 4 5 6 7 8 9 10 11 1 1 1 12 1\n0\n'),
        (3, 1, b'asp 1 0 0\n1 1 11 1 2 3 4 5 6 7 8 9 10 11 1 1 1 12 1\n0\n'),
        (4, 0, b'asp 1 0 0\n1 1 11 1 2 3 4 5 6 7 8 9 10 11 1 1 1 12 1\n0\n'),
        (7, 4, b'asp 1 0 0\n1 1 11 1 2 3 4 5 6 7 8 9 10 11 1 1 1 12 1\n0\n'),
        (2, 0, b'{x1;x2;x3;x4;x5;x6;x7;x8;x9;x10;x11} :- 1 {x12=1}.\n'),
        (2, 0, b'x1|x2|x3|x4|x5|x6|x7|x8|x9|x10|x11|x12 :- 2 {x13=1; not x14=2}.\n'),
        (0, 0, b'asp 1 0 0\n1 0 1 1 0 1 2\n1 0 12 1 2 3 4 5 6 7 8 9 10 11 12 1 2 2 13 1 -14 2\n0\n'),
        # seeded change C06-r5: the base step defines theory terms and an element but no theory atom; step 1 re-defines those ids (legal)
        # and uses them in an atom; step 2 once more - through the reader, the text pipeline and the binary
        (0, 0, b'asp 1 0 0 incremental\n1 1 1 1 0 0\n9 1 0 4 load\n9 0 1 10\n9 4 0 1 1 0\n0\n9 0 1 20\n9 4 0 1 1 1 1\n9 5 0 0 1 0\n0\n9 0 1 30\n9 4 0 1 1 0\n9 5 0 0 1 0\n0\n'),
        (4, 0, b'asp 1 0 0 incremental\n1 1 1 1 0 0\n9 1 0 4 load\n9 0 1 10\n9 4 0 1 1 0\n0\n9 0 1 20\n9 4 0 1 1 1 1\n9 5 0 0 1 0\n0\n9 0 1 30\n9 4 0 1 1 0\n9 5 0 0 1 0\n0\n'),
        (7, 4, b'asp 1 0 0 incremental\n1 1 1 1 0 0\n9 1 0 4 load\n9 0 1 10\n9 4 0 1 1 0\n0\n9 0 1 20\n9 4 0 1 1 1 1\n9 5 0 0 1 0\n0\n9 0 1 30\n9 4 0 1 1 0\n9 5 0 0 1 0\n0\n'),
    ]
    # seeded change C04-r9: a theory id re-defined WITHIN one step is refused by the text writer's TheoryData ("Redefinition of theory
    # element / term"); nothing may stay allocated after the refused conversion.  The demo's input (element 0 twice), every term kind twice,
    # the duplicate as last directive of the step, in the second step of an incremental program behind a LEGAL redefinition, an element
    # with terms and a condition, an atom naming an unknown element - reader alone (mode 0: accepted, control), text pipeline, binary -t
    refused_inputs = [
        b'asp 1 0 0\n9 0 1 1\n9 1 0 1 a\n9 4 0 1 1 0\n9 4 0 1 1 0\n9 5 0 0 1 0\n0\n',
        b'asp 1 0 0\n9 0 1 1\n9 1 0 1 a\n9 4 0 1 1 0\n9 5 0 0 1 0\n9 4 0 3 1 0 1 2 2 -3\n0\n',
        b'asp 1 0 0\n9 4 0 0 0\n9 4 0 0 0\n0\n',
        b'asp 1 0 0\n9 0 1 1\n9 0 1 2\n9 1 0 1 a\n9 5 0 0 0\n0\n',
        b'asp 1 0 0\n9 1 0 1 a\n9 1 0 1 a\n9 5 0 0 0\n0\n',
        b'asp 1 0 0\n9 1 0 1 a\n9 0 1 7\n9 2 2 0 1 1\n9 5 0 0 0\n9 2 2 -1 2 1 1\n0\n',
        b'asp 1 0 0 incremental\n9 0 1 1\n9 1 0 1 a\n9 4 0 1 1 0\n9 5 0 0 1 0\n0\n9 4 0 1 1 1 2\n9 5 0 0 1 0\n9 4 0 1 1 0\n0\n',
        b'asp 1 0 0\n9 1 0 1 a\n9 5 0 0 1 7\n0\n',
    ]
    for d in refused_inputs:
        fixed += [(0, 0, d), (4, 0, d), (7, 4, d)]
    for m, o, d in fixed:
        for v in (0, 1, 2):
            out.append((mk(m, o, d, v), {'kind': 'regression-shape'}))
    while len(out) < total:
        r = rnd.random()
        variant = rnd.choice([0, 0, 1, 2])
        if rnd.random() < 0.3:
            # valid multi-directive programs through every pipeline and through the binary, every option set; a third of them damaged
            # in one place (error in the middle of a conversion: the bytes written before it are compared)
            tgt = rnd.choice([3, 3, 4, 5, 5, 6, 7, 7])
            o = rnd.randint(0, 7)
            if tgt in (3, 4) or (tgt == 7 and rnd.random() < 0.5):
                ext = bool(o & 1) if rnd.random() < 0.85 else not (o & 1)
                C.BIG_ATOMS = False
                try:
                    if tgt == 4 or (tgt == 7 and o & 4):
                        prog = rnd.choice([coherent_theory_program, coherent_theory_program, lambda q: C.r_program(q, theory=False), C.r_program,
                                           lambda q: convertible_program(q, True)])(rnd)
                    else:
                        prog = convertible_program(rnd, ext) if rnd.random() < 0.85 else C.r_program(rnd, theory=False)
                finally:
                    C.BIG_ATOMS = True
                data, kind = aspif_text(prog, rnd), 'pipeline-aspif'
            else:
                ext = bool(o & 1) if rnd.random() < 0.85 else not (o & 1)
                data, kind = (smodels_prog(rnd, ext) if rnd.random() < 0.8 else smodels_text(rnd)), 'pipeline-smodels'
            if rnd.random() < 0.3:
                data, kind = mutate_bytes(rnd, data), kind + '-damaged'
            if tgt == 7:
                variant = 0
            data = data[:20000]
            if announces_big(data):
                continue
            out.append((mk(tgt, o, data, variant), {'kind': kind}))
            continue
        if rnd.random() < 0.06:
            # theory programs with ONE directive the text writer refuses (same-step redefinition of a term / element id, atom with an unknown
            # id; first / middle / last in the step): text pipeline, binary -t, and the reader alone (control: nothing is refused there)
            for _ in range(6):
                C.BIG_ATOMS = False
                try:
                    prog = cyclic_theory_program(rnd, refused=False) if rnd.random() < 0.1 else coherent_theory_program(rnd, refused=False)
                finally:
                    C.BIG_ATOMS = True
                prog, tag = refuse_in_step(rnd, prog)
                data = aspif_text(prog, rnd)
                if not announces_big(data):     # a number term 2147483647 announces nothing, but the filter is syntactic: draw again
                    break
            else:
                continue
            m, o = rnd.choice([(4, 0), (4, 0), (4, 0), (7, 4), (7, 4), (0, 0)])
            out.append((mk(m, o, data, 0 if m == 7 else variant), {'kind': 'theory-refused-' + tag}))
            continue
        fam = rnd.choice(['aspif', 'aspif', 'smodels', 'smodels', 'text'])
        if rnd.random() < 0.04:
            fam = rnd.choice(['aspif', 'aspif', 'text'])
            data = capacity_rule_text(rnd, fam)
            m, o = rnd.choice([(0, 0), (3, 1), (4, 0), (7, 4), (7, 1)]) if fam == 'aspif' else (2, 0)
            out.append((mk(m, o, data, 0 if m == 7 else variant), {'kind': 'builder-capacity-' + fam}))
            continue
        if fam == 'aspif':
            modes = [(0, 0), (3, rnd.randint(0, 1)), (4, 0)]
            pipeline = rnd.random() < 0.6
            if pipeline:
                modes = modes[1:]          # converters / text writer index tables by atom and id: keep those small
                C.BIG_ATOMS = False
            try:
                r2 = rnd.random()
                if r2 < 0.08:
                    base = aspif_text(cyclic_theory_program(rnd), rnd)
                else:
                    base = aspif_text(coherent_theory_program(rnd) if r2 < (0.55 if pipeline else 0.35) else C.r_program(rnd), rnd)
            finally:
                C.BIG_ATOMS = True
        elif fam == 'smodels':
            base = smodels_text(rnd)
            modes = [(1, rnd.randint(0, 15)), (5, rnd.randint(0, 3)), (6, rnd.randint(0, 3))]
        else:
            base = ground_text(rnd)
            modes = [(2, 0)]
        if r < 0.25:
            data, kind = base, 'valid-' + fam
        elif r < 0.8:
            data = base
            for _ in range(rnd.choice([1, 1, 2, 3])):
                data = mutate_bytes(rnd, data)
            kind = 'mutated-' + fam
        elif r < 0.9:
            words = [b'asp', b'1', b'0', b'2', b'B+', b'B-', b'E', b'#step.', b'a', b':-', b'{', b'}', b'not', b'.', b'#minimize', b'4', b'9', b'"', b'\n'] + BIG
            data = b' '.join(rnd.choice(words) for _ in range(rnd.randint(0, 30)))
            kind = 'token-soup'
        else:
            data = bytes(rnd.randrange(256) for _ in range(rnd.randint(0, 120)))
            if rnd.random() < 0.5:
                data = rnd.choice([b'asp 1 0 0\n', b'1 ', b'a', b'#']) + data
            kind = 'byte-soup'
        m, o = rnd.choice(modes)
        if rnd.random() < 0.03:
            m, o = 7, rnd.randint(0, 7)
            variant = 0
        data = data[:20000]
        if m >= 3 and announces_big(data):
            # converters / text writer index tables by atom or theory id: an id of 10^9 announces a table of that size,
            # which the claim excludes ("exhaustion of memory by sizes the input itself announces") - such inputs go to the readers only
            m, o = (0, 0) if fam == 'aspif' or data[:1] == b'a' else (1, o & 15)
        out.append((mk(m, o, data, variant), {'kind': kind}))
    return out


def shrink(case, fails):
    mode, opts, n = case[0], case[1], case[2]
    data = case[3:3 + n]
    step = max(1, len(data) // 2)
    while step >= 1:
        i = 0
        while i < len(data):
            t = data[:i] + data[i + step:]
            if fails([mode, opts, len(t)] + t):
                data = t
            else:
                i += step
        step //= 2
    return [mode, opts, len(data)] + data


LEVEL_TEXT = ('Partial by nature. Proved in Coq for EVERY byte string: index safety and termination of the read buffer; the consumer contract of the calls the three readers '
              'deliver (aspif, smodels under every option set as to outcome / error line, ground text); and for the lpconvert pipelines, composed from the reader, converter and '
              'writer models: totality (accepted or error-at-a-line with the bytes written, never a fault / fuel outcome) of aspif->smodels, smodels->aspif (every option set) and '
              'smodels->text (without -p), the round trip smodels text -> lpconvert -> aspif reader = sm_norm, and that converting a written aspif program equals converting the program. '
              'Partial: aspif->text can fault only inside endStep (cyclic theory term = an error of the real writer); smodels->text under -p only no-fuel. '
              'The models are tied to the code on every run: all 8 modes (3 readers, 4 in-process pipelines, the real lpconvert binary with -p/-f/-t) are compared with the '
              'model in status, error line and exact output bytes; half of the in-process pipeline cases are converted by a writer object that was given another program before (accepted, refused, or refused in the middle of a step with statements pending) and must behave like the fresh writer the model describes. Crashes, out-of-bounds accesses, UB and leaks of the compiled C++ are exhibited only by running the same '
              'inputs through ASan/UBSan/LSan builds of the readers, the pipelines and lpconvert.')
LEVEL_NOTE = ('Runtime memory behaviour is exploration-strength evidence (sanitizer runs); model-level statements are theorems; the lpconvert output is a theorem-backed model '
              'checked byte for byte against the implementation (NUL-containing inputs and inputs announcing huge id-indexed tables are judged by the oracle only).')
TECHNIQUE = 'Coq totality/contract/composition theorems over the reader, converter and writer models + sanitizer differential runs of readers, pipelines and the lpconvert binary'
DESIGN_REF = 'DESIGN.md section 5, C04'
