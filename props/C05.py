"""C05 - smodels writer and reader are inverses on the smodels-expressible fragment.

Case: N ext falseAtom <encoded calls>     (see props/calls.py; harness/h_c05.cpp)
Observation: len bytes... ok  <reader calls> status line nerr

Oracle (implementation only): an independent fragment test + normaliser computes what must come back; a program
inside the fragment must be written (ok=1), accepted by the reader and equal to the normal form; a program the
writer has to refuse must give ok=0.
"""
import random
from props import calls as K

PID = 'C05'
HARNESS = 'h_c05'
HARNESS_EXTRA = ('rec.h',)
MODEL_MODULE = 'V.C05.Model'
SIZES = [4096, 16, 32]
VARIANTS = {('N%d' % n): ({} if n == 4096 else {'POTASSCO_VERIF_BUF_SIZE': n}) for n in SIZES}
INT_MAX = 2 ** 31 - 1


def variant_of(c):
    return 'N%d' % c[0]


def decode(c):
    calls, rest = K.dec_all(c[3:])
    return c[0], c[1] != 0, c[2], calls


def mk(n, ext, f, calls):
    return [n, 1 if ext else 0, f] + K.enc_all(calls)


def describe(c):
    n, ext, f, calls = decode(c)
    return 'N=%d ext=%d false=%d calls: %s' % (n, ext, f, K.pretty(calls))


# ---------------------------------------------------------------------------------------------------
# independent fragment test and normaliser (from the property text)
# ---------------------------------------------------------------------------------------------------
def atom_ok(a):
    return 1 <= a <= INT_MAX


def classify(calls, ext, f):
    """('in', None) | ('refuse', reason) | ('out', reason)   -- 'out' = outside the quantifier, no judgement"""
    if not calls or calls[0][0] != 1:
        return 'out', 'no-init'
    if not (0 <= f <= INT_MAX):
        return 'out', 'false-atom-range'
    inc = calls[0][1]
    if inc and not ext:
        return 'refuse', 'incremental-without-extensions'
    state = 'between'
    steps = 0
    sec = 0
    first_written = None
    for c in calls[1:]:
        t = c[0]
        if t == 1:
            return 'out', 'second-init'
        if t == 2:
            if state != 'between':
                return 'out', 'nested-begin'
            state, sec = 'in', 0
            steps += 1
            if steps > 1 and not inc:
                return 'out', 'second-step-in-non-incremental-program'
            if first_written is None and ext and inc:
                first_written = 90
            continue
        if state != 'in':
            return 'out', 'directive-outside-step'
        if t == 3:
            state = 'between'
            if first_written is None:
                first_written = 0
            continue
        if t in (4, 5):
            ht, h = c[1], c[2]
            lits = c[3] if t == 4 else [l for l, _ in c[4]]
            if ht not in (0, 1) or any(not atom_ok(a) for a in h) or any(l == 0 or abs(l) > INT_MAX for l in lits):
                return 'out', 'value-range'
            if t == 5 and any(not (0 <= w <= INT_MAX) for _, w in c[4]):
                return 'out', 'rule-weight-range'
            if t == 5 and not (-INT_MAX - 1 <= c[3] <= INT_MAX):
                return 'out', 'value-range'
            if sec != 0:
                return 'refuse', 'rule-after-symbols'
            if not h and not (t == 4 and ht == 1) and f == 0:
                return 'refuse', 'empty-head-without-false-atom'
            if t == 5 and (ht == 1 or len(h) > 1):
                return 'refuse', 'weight-body-with-choice-or-disjunctive-head'
            if t == 5 and c[3] < 0:
                return 'refuse', 'negative-bound'
            if first_written is None and not (t == 4 and ht == 1 and not h):
                first_written = 1
        elif t == 6:
            if any(l == 0 or abs(l) > INT_MAX or abs(w) > INT_MAX for l, w in c[2]):
                return 'out', 'minimize-value-range'
            if sec != 0:
                return 'out', 'minimize-after-symbols'
            if first_written is None:
                first_written = 6
        elif t == 9:
            if not ext:
                return 'refuse', 'external-without-extensions'
            if not atom_ok(c[1]) or not (0 <= c[2] <= 3):
                return 'out', 'value-range'
            if sec != 0:
                return 'out', 'external-after-symbols'
            if first_written is None:
                first_written = 91
        elif t == 8:
            if sec > 1:
                return 'refuse', 'symbol-after-compute'
            if len(c[2]) != 1 or c[2][0] <= 0:
                return 'refuse', 'output-condition-not-a-single-atom'
            if not atom_ok(c[2][0]):
                return 'out', 'value-range'
            if any(b in (0, 10, 13) for b in c[1]):
                return 'out', 'name-with-line-break-or-nul'
            sec = 1
            if first_written is None:
                first_written = 0
        elif t == 10:
            if sec >= 2:
                return 'refuse', 'second-compute-statement'
            if any(l == 0 or abs(l) > INT_MAX for l in c[1]):
                return 'out', 'value-range'
            sec = 2
            if first_written is None:
                first_written = 0
        else:
            return 'refuse', 'directive-not-expressible-in-smodels-format'
    if state != 'between' or steps == 0:
        return 'out', 'unterminated-step'
    if not inc and first_written in (91,):
        return 'in-probe', 'first-line-starts-with-9'
    return 'in', None


def part(pairs):
    return [p for p in pairs if p[0] < 0] + [p for p in pairs if p[0] > 0]


def norm(calls, f):
    out, fh, prio, assume = [], False, 0, []
    for c in calls:
        t = c[0]
        if t == 2:
            fh, prio, assume = False, 0, []
            out.append(c)
        elif t == 4:
            h = list(c[2])
            if not h:
                if c[1] == 1:
                    continue
                h, fh = [f], True
            out.append((4, c[1], h, [l for l in c[3] if l < 0] + [l for l in c[3] if l > 0]))
        elif t == 5:
            h = list(c[2])
            if not h:
                h, fh = [f], True
            out.append((5, 0, h, c[3], part(list(c[4]))))
        elif t == 6:
            out.append((6, prio, part([(-l, -w) if w < 0 else (l, w) for l, w in c[2]])))
            prio += 1
        elif t == 10:
            assume = list(c[1])
        elif t == 3:
            out += [(4, 0, [], [-a]) for a in assume if a > 0] + [(4, 0, [], [-l]) for l in assume if l < 0]
            if fh and f:
                out.append((4, 0, [], [f]))
            out.append(c)
        else:
            out.append(c)
    return out


def canon(cs):
    r = []
    for c in cs:
        c = list(c)
        for i, x in enumerate(c):
            if isinstance(x, (bytes, bytearray)):
                c[i] = bytes(x)
            elif isinstance(x, (list, tuple)):
                c[i] = [tuple(y) if isinstance(y, (list, tuple)) else y for y in x]
            elif isinstance(x, bool):
                c[i] = 1 if x else 0
        r.append(tuple(map(lambda v: tuple(v) if isinstance(v, list) else v, c)))
    return r


def split_obs(obs):
    ln = obs[0]
    text = obs[1:1 + ln]
    ok = obs[1 + ln]
    tail = obs[2 + ln:]
    cs, rest = K.dec_all(tail[:-3])
    return text, ok, cs, rest, tail[-3:]


def oracle(c, obs):
    if obs and obs[0] == -999:
        return ['harness:buffer-size-variant-mismatch']
    n, ext, f, calls = decode(c)
    try:
        text, ok, got, rest, (status, line, nerr) = split_obs(obs)
    except Exception:
        return ['harness:undecodable-observation']
    if rest:
        return ['harness:undecodable-observation']
    kind, why = classify(calls, ext, f)
    sig = []
    if kind == 'refuse':
        if ok != 0:
            sig.append('not-refused:' + why)
    elif kind in ('in', 'in-probe'):
        want = canon(norm(calls, f))
        have = canon(got)
        if ok != 1:
            sig.append('fragment-program-refused-by-writer')
        elif status != 1:
            sig.append('written-text-rejected-by-reader')
        elif have != want:
            if have[1:] == want[1:] and have[0][0] == 1 and want[0][0] == 1:
                sig.append('init-incremental-flag-differs')
            else:
                sig.append('roundtrip-differs')
    return sig


def nontrivial(c, obs):
    try:
        text, ok, got, rest, tail = split_obs(obs)
    except Exception:
        return False
    return len(got) > 3 or ok == 0


# ---------------------------------------------------------------------------------------------------
# generators
# ---------------------------------------------------------------------------------------------------
def r_atom(rnd):
    r = rnd.random()
    if r < 0.8:
        return rnd.randint(1, 7)
    if r < 0.92:
        return rnd.choice([INT_MAX, INT_MAX - 1, 65536])
    return rnd.randint(1, INT_MAX)


def r_lit(rnd):
    a = r_atom(rnd)
    return -a if rnd.random() < 0.45 else a


def r_w(rnd):
    r = rnd.random()
    if r < 0.65:
        return rnd.randint(0, 3)
    if r < 0.85:
        return rnd.choice([INT_MAX, INT_MAX - 1, 0, 1, 1])
    return rnd.randint(0, INT_MAX)


def r_len(rnd):
    return rnd.choice([0, 0, 1, 1, 2, 2, 3, 4, 5, 6, 7, 8, 9])


def r_name(rnd):
    k = rnd.choice([0, 1, 1, 2, 3, 6, 12])
    al = list(b'abcxyz_(),"0123 ') if rnd.random() < 0.6 else [b for b in range(1, 256) if b not in (10, 13)]
    return bytes(rnd.choice(al) for _ in range(k))


def r_ruledir(rnd, ext, f):
    k = rnd.choice(['r', 'r', 'r', 'w', 'w', 'm'] + (['e', 'e'] if ext else []))
    if k == 'r':
        ht = rnd.choice([0, 0, 1])
        hn = rnd.choice([1, 1, 1, 2, 3] + ([0] if (f != 0 or ht == 1) else []))
        return (4, ht, [r_atom(rnd) for _ in range(hn)], [r_lit(rnd) for _ in range(r_len(rnd))])
    if k == 'w':
        hn = rnd.choice([1, 1, 1] + ([0] if f != 0 else []))
        ws = (lambda: 1) if rnd.random() < 0.35 else (lambda: r_w(rnd))
        return (5, 0, [r_atom(rnd) for _ in range(hn)], r_w(rnd), [(r_lit(rnd), ws()) for _ in range(r_len(rnd))])
    if k == 'm':
        return (6, rnd.choice([0, 1, 5, -3]), [(r_lit(rnd), r_w(rnd) * rnd.choice([1, 1, -1])) for _ in range(r_len(rnd))])
    return (9, r_atom(rnd), rnd.randint(0, 3))


def r_step(rnd, ext, f):
    s = [(2,)]
    s += [r_ruledir(rnd, ext, f) for _ in range(rnd.choice([0, 1, 2, 3, 5, 8]))]
    s += [(8, r_name(rnd), [r_atom(rnd)]) for _ in range(rnd.choice([0, 0, 1, 2, 4]))]
    if rnd.random() < 0.5:
        s.append((10, [r_lit(rnd) for _ in range(rnd.choice([0, 1, 2, 4]))]))
    s.append((3,))
    return s


def r_prog(rnd, ext, f):
    inc = ext and rnd.random() < 0.4
    p = [(1, inc)]
    for _ in range(rnd.choice([1, 2, 3]) if inc else 1):
        p += r_step(rnd, ext, f)
    return p


def deviate(rnd, p, ext, f):
    """one deviation that the writer has to refuse (or that leaves the quantifier)"""
    p = list(p)
    k = rnd.choice(['inc', 'rule-after-out', 'wchoice', 'negbound', 'outcond', 'out-after-assume', 'two-assume', 'unsupported',
                    'external', 'emptyhead', 'min-after-out', 'name-nl', 'two-steps'])
    idx = [i for i, c in enumerate(p) if c[0] == 3]
    e = rnd.choice(idx)
    if k == 'inc':
        p[0] = (1, True)
    elif k == 'rule-after-out':
        p[e:e] = [(8, b'a', [1]), (4, 0, [1], [])]
    elif k == 'wchoice':
        b = [i for i, c in enumerate(p) if c[0] == 2][0]
        p.insert(b + 1, (5, rnd.choice([1, 0]), [1, 2] if rnd.random() < 0.5 else [1], 1, [(2, 1)]))
        if p[b + 1][1] == 0 and len(p[b + 1][2]) == 1:
            p[b + 1] = (5, 1, [1], 1, [(2, 1)])
    elif k == 'negbound':
        b = [i for i, c in enumerate(p) if c[0] == 2][0]
        p.insert(b + 1, (5, 0, [1], rnd.choice([-1, -INT_MAX - 1]), [(2, 2)]))
    elif k == 'outcond':
        p.insert(e, (8, b'x', rnd.choice([[], [-1], [1, 2]])))
    elif k == 'out-after-assume':
        p[e:e] = [(10, [1]), (8, b'a', [1])]
    elif k == 'two-assume':
        p[e:e] = [(10, [1]), (10, [-2])]
    elif k == 'unsupported':
        b = [i for i, c in enumerate(p) if c[0] == 2][0]
        p.insert(b + 1, rnd.choice([(7, [1]), (11, 1, 0, 1, 1, []), (12, 0, 1, []), (13, 0, 1), (14, 0, b'x'), (17, 1, 0, [])]))
    elif k == 'external':
        b = [i for i, c in enumerate(p) if c[0] == 2][0]
        p.insert(b + 1, (9, r_atom(rnd), rnd.randint(0, 3)))
    elif k == 'emptyhead':
        b = [i for i, c in enumerate(p) if c[0] == 2][0]
        p.insert(b + 1, rnd.choice([(4, 0, [], [1]), (5, 0, [], 1, [(1, 1)]), (4, 1, [], [1])]))
    elif k == 'min-after-out':
        p[e:e] = [(8, b'a', [1]), (6, 0, [(1, 1)])]
    elif k == 'name-nl':
        p.insert(e, (8, rnd.choice([b'a\nb', b'a\r', b'0\n1 b']), [1]))
    elif k == 'two-steps':
        p += r_step(rnd, ext, f)
    return p, k


FIXED = [
    ((False, 0), [(1, False), (2,), (4, 0, [1], [2, -3, 4, -5]), (3,)], 'basic'),
    ((False, 7), [(1, False), (2,), (4, 0, [], [2, -3]), (5, 0, [], 2, [(1, 2), (-2, 0)]), (8, b'a b', [1]), (10, [1, -2]), (3,)], 'false-atom'),
    ((True, 0), [(1, False), (2,), (9, 3, 1), (4, 0, [1], []), (3,)], 'probe-91'),
    ((True, 0), [(1, False), (2,), (9, 3, 3), (3,)], 'probe-92'),
    ((True, 0), [(1, True), (2,), (9, 3, 0), (3,), (2,), (4, 0, [1], [3]), (3,)], 'steps'),
    ((False, 0), [(1, False), (2,), (6, 0, [(1, -2), (-2, 3), (3, 0)]), (6, 9, [(1, -INT_MAX)]), (3,)], 'minimize'),
    ((False, 0), [(1, False), (2,), (5, 0, [1], 0, []), (5, 0, [1], INT_MAX, [(2, INT_MAX), (-3, 1)]), (3,)], 'weights'),
]


def gen(seed, tier):
    rnd = random.Random(seed * 1000003 + 5)
    total = {'quick': 2500, 'thorough': 100000, 'search': 5000}.get(tier, 2500)
    out = []
    for (ext, f), p, kind in FIXED:
        for n in SIZES:
            out.append((mk(n, ext, f, p), {'kind': 'fixed-' + kind}))
    while len(out) < total:
        ext = rnd.random() < 0.5
        f = rnd.choice([0, 0, 1, 7, INT_MAX])
        p = r_prog(rnd, ext, f)
        n = rnd.choice(SIZES)
        if rnd.random() < 0.7:
            out.append((mk(n, ext, f, p), {'kind': 'fragment-ext' if ext else 'fragment'}))
        else:
            q, k = deviate(rnd, p, ext, f)
            out.append((mk(n, ext, f, q), {'kind': 'deviation-' + k}))
    return out


def shrink(case, fails):
    n, ext, f, calls = decode(case)
    changed = True
    while changed:
        changed = False
        for i in range(len(calls) - 1, 0, -1):
            if calls[i][0] in (2, 3):
                continue
            t = calls[:i] + calls[i + 1:]
            if fails(mk(n, ext, f, t)):
                calls, changed = t, True
                break
    return mk(n, ext, f, calls)


RULE = ('cases = (BUF_SIZE variant of the reader in {4096,16,32}, clasp extensions on/off, false atom in {0,1,7,2^31-1}, call sequence); '
        'sequences are random programs of the smodels fragment (1-3 steps; normal / choice / disjunctive / cardinality / weight rules with bodies of 0..9 literals in random sign order, '
        'weights 0..2^31-1 incl. 0 and 1-only bodies, minimize statements with negative weights, externals, symbol names of arbitrary bytes, compute statements) left as they are or '
        'given one deviation the writer has to refuse or that leaves the fragment; non-trivial = the reader delivered more than init/begin/end or the writer refused; distinct = distinct case tuples')
TRUSTED_BASE = ['coq/C09/Spec.v abstract stream; coq/C07 reader model (tied to the code by C07\'s own correspondence)',
                'std::ostream operator<< for unsigned / int modelled by Dec.print_nat',
                'props/C05.py fragment test + normaliser (oracle on the implementation)']
ASSUMPTIONS = ['call sequences admitted by the writer\'s documented ordering; values within the C parameter types',
               'reader options: claspExt as the writer\'s, cEdge = cHeuristic = false']
LEVEL_TEXT = ('Coq model of SmodelsOutput composed with the C07 reader model; machine-checked for ALL call sequences of the fragment '
              '(c05_roundtrip: in_fragment ext f p = true => the writer writes p completely and the reader, claspExt = ext, returns exactly sm_norm f p: every rule kind '
              '1/2/3/5/6/8 incl. false atom, weight 0, bounds, minimize sign normalisation and priority renumbering, symbol table, compute statement B+/B- incl. the false atom, '
              'externals 91/92 with the value coding, any number of incremental steps, extensions on or off, any false atom, bodies of any length); the writer refuses exactly the '
              'documented cases (c05_refuses); normalised bodies are permutations (c05_perm). Proof route: the written text is the rendering of a laid-out program of C07/Spec.v that is '
              'layout_ok, in_range and denotes sm_norm p, then c07_complete. The model is tied to the code by differential correspondence (bytes written + reader calls) and the Coq '
              'fragment/normal-form definitions are cross-checked against the independent python normaliser that judges the implementation (c05_spec_matches_oracle).')
LEVEL_NOTE = ('c05_roundtrip is full over in_fragment (boolean, coq/C05/Spec.v). Excluded from in_fragment, as from the property\'s quantifier: names containing LF/CR/NUL, negative rule-body weights, '
              'minimize/external after symbols, |minimize weight| = 2^31, list lengths >= 2^32; and the KNOWN finding probe-leading-9 (non-incremental program whose first written line is an external: c05_probe_refuted).')
TECHNIQUE = 'Coq proof about an executable model + differential correspondence with the implementation'
DESIGN_REF = 'DESIGN.md section 5, C05'
READY = True
