"""C05 - smodels writer and reader are inverses on the smodels-expressible fragment.

Case: N e falseAtom <encoded calls>     (see props/calls.py; harness/h_c05.cpp)
      e = 0/1: clasp extensions off/on, feeding stops at the first refusal
      e = 2/3: clasp extensions off/on, the caller CATCHES every refusal and continues with the same writer
Observation: len bytes... ok  [e >= 2: ncalls flag...]  <reader calls> status line nerr

Oracle (implementation only): an independent fragment test + normaliser computes what must come back; a program
inside the fragment must be written (ok=1), accepted by the reader and equal to the normal form; a program the
writer has to refuse must give ok=0.
Continue mode: every call is judged in the context of the calls ACCEPTED before it (must be refused / must be accepted);
if the accepted calls form a program of the fragment, the text must be re-read (by the real reader AND by the python
reference reader of props/C07.py) as the normal form of the accepted calls alone: a refused call leaves no trace.
"""
import random
from props import calls as K
from props import reuse as RU

PID = 'C05'
HARNESS = 'h_c05'
HARNESS_EXTRA = ('rec.h', 'reuse.h')
MODEL_MODULE = 'V.C05.Model'
SIZES = [4096, 16, 32]
VARIANTS = {('N%d' % n): ({} if n == 4096 else {'POTASSCO_VERIF_BUF_SIZE': n}) for n in SIZES}
INT_MAX = 2 ** 31 - 1


def variant_of(c):
    return 'N%d' % c[0]


def is_cont(c):
    return c[1] in (2, 3)


def decode(c):
    calls, rest = K.dec_all(c[3:])
    return c[0], (c[1] == 3 if is_cont(c) else c[1] != 0), c[2], calls


def mk(n, ext, f, calls, cont=False):
    return [n, (2 if cont else 0) + (1 if ext else 0), f] + K.enc_all(calls)


PRIMER_STAGES = ['complete program', 'program abandoned inside the rule section (false atom marked as used)',
                 'program abandoned behind its symbol table', 'program abandoned behind its compute statement and a refused output call']


def primed(c):
    """harness/h_c05.cpp: every other case that starts with initProgram is played on a SmodelsOutput OBJECT that has written another
    program before (writer reuse; same hash as harness/reuse.h: bit 17 = primed, bit 18 = that program was incremental, bits 19-20 = how
    far it got); its text is thrown away. Invisible for a correct writer: neither the model nor the oracle depends on it.
    Returns None or (incremental, stage)."""
    if len(c) > 3 and c[3] == 1 and RU.primed(c):
        v = (RU.fnv(c) >> 18) & 7
        return bool(v & 1), (v >> 1) & 3
    return None


def describe(c):
    n, ext, f, calls = decode(c)
    pr = primed(c)
    w = ''
    if pr is not None:
        inc, stage = pr
        w = ' writer=reused(same object wrote before: %s %s; that text is discarded)' % (
            ('an incremental' if ext else 'initProgram(true) refused and caught, then a non-incremental') if inc else 'a non-incremental', PRIMER_STAGES[stage])
    h = RU.fnv(c)
    if (h >> 21) & 1:
        # harness/h_c05.cpp: hash-selected reader option, used when the written text contains no `_heuristic(` (then it is invisible)
        w += ' reader-options=+convertHeuristic%s(unless the text contains "_heuristic(")' % ('+dropConverted' if (h >> 22) & 1 else '')
    return 'N=%d ext=%d false=%d%s%s calls: %s' % (n, ext, f, ' [caller catches refusals and continues]' if is_cont(c) else '', w, K.pretty(calls))


# ---------------------------------------------------------------------------------------------------
# independent fragment test and normaliser (from the property text)
# ---------------------------------------------------------------------------------------------------
def atom_ok(a):
    return 1 <= a <= INT_MAX


def classify(calls, ext, f):
    """('in', None) | ('refuse', reason) | ('out', reason)   -- 'out' = outside the quantifier, no judgement"""
    if not calls or calls[0][0] != 1:
        return 'out', 'no-init'
    if not (0 <= f <= INT_MAX):
        return 'out', 'false-atom-range'
    inc = calls[0][1]
    if inc and not ext:
        return 'refuse', 'incremental-without-extensions'
    state = 'between'
    steps = 0
    sec = 0
    first_written = None
    for c in calls[1:]:
        t = c[0]
        if t == 1:
            return 'out', 'second-init'
        if t == 2:
            if state != 'between':
                return 'out', 'nested-begin'
            state, sec = 'in', 0
            steps += 1
            if steps > 1 and not inc:
                return 'out', 'second-step-in-non-incremental-program'
            if first_written is None and ext and inc:
                first_written = 90
            continue
        if state != 'in':
            return 'out', 'directive-outside-step'
        if t == 3:
            state = 'between'
            if first_written is None:
                first_written = 0
            continue
        if t in (4, 5):
            ht, h = c[1], c[2]
            lits = c[3] if t == 4 else [l for l, _ in c[4]]
            if ht not in (0, 1) or any(not atom_ok(a) for a in h) or any(l == 0 or abs(l) > INT_MAX for l in lits):
                return 'out', 'value-range'
            if t == 5 and any(not (0 <= w <= INT_MAX) for _, w in c[4]):
                return 'out', 'rule-weight-range'
            if t == 5 and not (-INT_MAX - 1 <= c[3] <= INT_MAX):
                return 'out', 'value-range'
            if sec != 0:
                return 'refuse', 'rule-after-symbols'
            if not h and not (t == 4 and ht == 1) and f == 0:
                return 'refuse', 'empty-head-without-false-atom'
            if t == 5 and (ht == 1 or len(h) > 1):
                return 'refuse', 'weight-body-with-choice-or-disjunctive-head'
            if t == 5 and c[3] < 0:
                return 'refuse', 'negative-bound'
            if first_written is None and not (t == 4 and ht == 1 and not h):
                first_written = 1
        elif t == 6:
            if any(l == 0 or abs(l) > INT_MAX or abs(w) > INT_MAX for l, w in c[2]):
                return 'out', 'minimize-value-range'
            if sec != 0:
                return 'out', 'minimize-after-symbols'
            if first_written is None:
                first_written = 6
        elif t == 9:
            if not ext:
                return 'refuse', 'external-without-extensions'
            if not atom_ok(c[1]) or not (0 <= c[2] <= 3):
                return 'out', 'value-range'
            if sec != 0:
                return 'out', 'external-after-symbols'
            if first_written is None:
                first_written = 91
        elif t == 8:
            if sec > 1:
                return 'refuse', 'symbol-after-compute'
            if len(c[2]) != 1 or c[2][0] <= 0:
                return 'refuse', 'output-condition-not-a-single-atom'
            if not atom_ok(c[2][0]):
                return 'out', 'value-range'
            if any(b in (0, 10, 13) for b in c[1]):
                return 'out', 'name-with-line-break-or-nul'
            sec = 1
            if first_written is None:
                first_written = 0
        elif t == 10:
            if sec >= 2:
                return 'refuse', 'second-compute-statement'
            if any(l == 0 or abs(l) > INT_MAX for l in c[1]):
                return 'out', 'value-range'
            sec = 2
            if first_written is None:
                first_written = 0
        else:
            return 'refuse', 'directive-not-expressible-in-smodels-format'
    if state != 'between' or steps == 0:
        return 'out', 'unterminated-step'
    if not inc and first_written in (91,):
        return 'in-probe', 'first-line-starts-with-9'
    return 'in', None


def part(pairs):
    return [p for p in pairs if p[0] < 0] + [p for p in pairs if p[0] > 0]


def norm(calls, f):
    out, fh, prio, assume = [], False, 0, []
    for c in calls:
        t = c[0]
        if t == 'mark-false-atom':      # only used to NAME the shape of the repaired defect 82b5ba2 should it return
            fh = True
        elif t == 2:
            fh, prio, assume = False, 0, []
            out.append(c)
        elif t == 4:
            h = list(c[2])
            if not h:
                if c[1] == 1:
                    continue
                h, fh = [f], True
            out.append((4, c[1], h, [l for l in c[3] if l < 0] + [l for l in c[3] if l > 0]))
        elif t == 5:
            h = list(c[2])
            if not h:
                h, fh = [f], True
            out.append((5, 0, h, c[3], part(list(c[4]))))
        elif t == 6:
            out.append((6, prio, part([(-l, -w) if w < 0 else (l, w) for l, w in c[2]])))
            prio += 1
        elif t == 10:
            assume = list(c[1])
        elif t == 3:
            out += [(4, 0, [], [-a]) for a in assume if a > 0] + [(4, 0, [], [-l]) for l in assume if l < 0]
            if fh and f:
                out.append((4, 0, [], [f]))
            out.append(c)
        else:
            out.append(c)
    return out


def canon(cs):
    r = []
    for c in cs:
        c = list(c)
        for i, x in enumerate(c):
            if isinstance(x, (bytes, bytearray)):
                c[i] = bytes(x)
            elif isinstance(x, (list, tuple)):
                c[i] = [tuple(y) if isinstance(y, (list, tuple)) else y for y in x]
            elif isinstance(x, bool):
                c[i] = 1 if x else 0
        r.append(tuple(map(lambda v: tuple(v) if isinstance(v, list) else v, c)))
    return r


def split_obs(obs, cont=False):
    ln = obs[0]
    text = obs[1:1 + ln]
    ok = obs[1 + ln]
    tail = obs[2 + ln:]
    if cont:
        nf = tail[0]
        flags = tail[1:1 + nf]
        if nf < 0 or len(flags) != nf or any(x not in (0, 1) for x in flags):
            raise ValueError('flags')
        tail = tail[1 + nf:]
        ok = (ok, flags)
    cs, rest = K.dec_all(tail[:-3])
    return text, ok, cs, rest, tail[-3:]


def reference_reread(text, ext):
    """python reference smodels reader (props/C07.py, imported read-only); None when it is not available"""
    try:
        from props import C07 as R
        return R.reference(list(text), ext)
    except Exception:
        return None


def probe_shape(have, want):
    """the KNOWN finding probe-leading-9 and nothing else: the program is non-incremental, its first written line is an external (classify:
    'in-probe'), and the ONLY difference is that it is read back with initProgram(true).  Any other change of the incremental flag - e.g. a
    step marker '90 0' in a non-incremental program (seeded change C05-r9: the flag of an EARLIER program of the same writer) - is an ordinary failure
    (before round 9 every flag difference carried the known finding's signature and was filed under it)."""
    return (len(have) == len(want) and have[1:] == want[1:] and want[0][0] == 1 and have[0][0] == 1 and not want[0][1] and bool(have[0][1]))


def oracle_cont(ext, f, calls, text, ok, flags, got, status):
    """caller catches refusals and continues: judge every call against the calls accepted before it, then the re-read text
    against the accepted calls alone (a refused call must leave no trace in the text)"""
    sig = []
    if len(flags) != len(calls) or ok != (1 if all(flags) else 0):
        return ['harness:undecodable-observation']
    acc, marked, sec, judged, nref = [], [], 0, True, 0
    for c, fl in zip(calls, flags):
        kind, why = classify(acc + [c], ext, f)
        if kind == 'out' and why != 'unterminated-step':
            judged = False          # left the property's quantifier: correspondence only from here on
            break
        if kind == 'refuse':
            if fl:
                return sig + ['not-refused:' + why]
            nref += 1
            if c[0] == 5 and not c[2] and f != 0 and sec == 0:
                marked.append(('mark-false-atom',))
            continue
        if not fl:
            # a call the writer has to accept after the accepted calls so far; after an earlier refusal: the refused call left the writer in another state
            return sig + ['refused-call-left-trace:call-of-the-fragment-refused-after-a-refusal' if nref else 'fragment-call-refused-by-writer']
        acc.append(c)
        marked.append(c)
        sec = 0 if c[0] == 2 else 1 if c[0] == 8 else 2 if c[0] == 10 else sec
    if not judged:
        return sig
    kind, why = classify(acc, ext, f)
    if kind not in ('in', 'in-probe'):
        return sig
    refusals = len(acc) != len(calls)
    want = canon(norm(acc, f))
    have = canon(got)
    ref = reference_reread(text, ext)
    # one signature whether or not the history contains refusals, so that shrinking drops refused calls that are not needed for the failure;
    # a refused call that IS needed stays in the replay ("refused-call-left-trace" is added where the trace can be named)
    if status != 1:
        sig.append('written-text-rejected-by-reader')
    elif have != want:
        if kind == 'in-probe' and probe_shape(have, want):
            sig.append('init-incremental-flag-differs')
        elif refusals and have == canon(norm(marked, f)):
            sig.append('refused-call-left-trace:false-atom-marked-by-refused-sum-rule')
        else:
            sig.append('reread-differs-from-accepted-calls')
    elif ref is not None:
        rok, rcalls, _ = ref
        rc = canon(rcalls)
        if not rok or (rc != want and not (rc[1:] == want[1:] and kind == 'in-probe')):
            sig.append('reread-differs-from-accepted-calls:python-reference-reader')
    return sig


def oracle(c, obs):
    if obs and obs[0] == -999:
        return ['harness:buffer-size-variant-mismatch']
    n, ext, f, calls = decode(c)
    try:
        text, ok, got, rest, (status, line, nerr) = split_obs(obs, is_cont(c))
    except Exception:
        return ['harness:undecodable-observation']
    if rest:
        return ['harness:undecodable-observation']
    if is_cont(c):
        return oracle_cont(ext, f, calls, text, ok[0], ok[1], got, status)
    kind, why = classify(calls, ext, f)
    sig = []
    if kind == 'refuse':
        if ok != 0:
            sig.append('not-refused:' + why)
    elif kind in ('in', 'in-probe'):
        want = canon(norm(calls, f))
        have = canon(got)
        if ok != 1:
            sig.append('fragment-program-refused-by-writer')
        elif status != 1:
            sig.append('written-text-rejected-by-reader')
        elif have != want:
            if kind == 'in-probe' and probe_shape(have, want):
                sig.append('init-incremental-flag-differs')
            else:
                sig.append('roundtrip-differs')
    return sig


def nontrivial(c, obs):
    try:
        text, ok, got, rest, tail = split_obs(obs, is_cont(c))
    except Exception:
        return False
    if is_cont(c):
        ok = ok[0]
    return len(got) > 3 or ok == 0


# ---------------------------------------------------------------------------------------------------
# generators
# ---------------------------------------------------------------------------------------------------
def r_atom(rnd):
    r = rnd.random()
    if r < 0.8:
        return rnd.randint(1, 7)
    if r < 0.92:
        return rnd.choice([INT_MAX, INT_MAX - 1, 65536])
    return rnd.randint(1, INT_MAX)


def r_lit(rnd):
    a = r_atom(rnd)
    return -a if rnd.random() < 0.45 else a


def r_w(rnd):
    r = rnd.random()
    if r < 0.65:
        return rnd.randint(0, 3)
    if r < 0.85:
        return rnd.choice([INT_MAX, INT_MAX - 1, 0, 1, 1])
    return rnd.randint(0, INT_MAX)


def r_len(rnd):
    return rnd.choice([0, 0, 1, 1, 2, 2, 3, 4, 5, 6, 7, 8, 9])


def r_name(rnd):
    k = rnd.choice([0, 1, 1, 2, 3, 6, 12])
    al = list(b'abcxyz_(),"0123 ') if rnd.random() < 0.6 else [b for b in range(1, 256) if b not in (10, 13)]
    return bytes(rnd.choice(al) for _ in range(k))


def r_ruledir(rnd, ext, f):
    k = rnd.choice(['r', 'r', 'r', 'w', 'w', 'm'] + (['e', 'e'] if ext else []))
    if k == 'r':
        ht = rnd.choice([0, 0, 1])
        hn = rnd.choice([1, 1, 1, 2, 3] + ([0] if (f != 0 or ht == 1) else []))
        return (4, ht, [r_atom(rnd) for _ in range(hn)], [r_lit(rnd) for _ in range(r_len(rnd))])
    if k == 'w':
        hn = rnd.choice([1, 1, 1] + ([0] if f != 0 else []))
        ws = (lambda: 1) if rnd.random() < 0.35 else (lambda: r_w(rnd))
        return (5, 0, [r_atom(rnd) for _ in range(hn)], r_w(rnd), [(r_lit(rnd), ws()) for _ in range(r_len(rnd))])
    if k == 'm':
        return (6, rnd.choice([0, 1, 5, -3]), [(r_lit(rnd), r_w(rnd) * rnd.choice([1, 1, -1])) for _ in range(r_len(rnd))])
    return (9, r_atom(rnd), rnd.randint(0, 3))


def r_step(rnd, ext, f):
    s = [(2,)]
    s += [r_ruledir(rnd, ext, f) for _ in range(rnd.choice([0, 1, 2, 3, 5, 8]))]
    s += [(8, r_name(rnd), [r_atom(rnd)]) for _ in range(rnd.choice([0, 0, 1, 2, 4]))]
    if rnd.random() < 0.5:
        s.append((10, [r_lit(rnd) for _ in range(rnd.choice([0, 1, 2, 4]))]))
    s.append((3,))
    return s


DUP_NAMES = [b'a', b'b', b'', b'p(1)', b'x y', b'_x']


def r_step_dup(rnd, ext, f, names, atoms):
    """a step whose symbol table draws from a FEW names and atoms: the same name for two atoms, and the same (atom, name) line twice, within
    one table and across the steps of an incremental program (SmodelsOutput writes every output call as a line; all of them must come back)"""
    s = [(2,)]
    s += [r_ruledir(rnd, ext, f) for _ in range(rnd.choice([0, 1, 2, 3]))]
    s += [(8, rnd.choice(names), [rnd.choice(atoms)]) for _ in range(rnd.choice([1, 2, 3, 4, 6]))]
    if rnd.random() < 0.4:
        s.append((10, [r_lit(rnd) for _ in range(rnd.choice([0, 1, 2]))]))
    s.append((3,))
    return s


def r_prog_dup(rnd, ext, f):
    inc = ext and rnd.random() < 0.7
    names = rnd.sample(DUP_NAMES, rnd.choice([1, 2, 2, 3]))
    atoms = rnd.sample([1, 2, 3, 4, 7, INT_MAX], rnd.choice([1, 2, 2, 3]))
    p = [(1, inc)]
    for _ in range(rnd.choice([2, 2, 3]) if inc else 1):
        p += r_step_dup(rnd, ext, f, names, atoms)
    return p


def r_prog(rnd, ext, f):
    inc = ext and rnd.random() < 0.4
    p = [(1, inc)]
    for _ in range(rnd.choice([1, 2, 3]) if inc else 1):
        p += r_step(rnd, ext, f)
    return p


def deviate(rnd, p, ext, f):
    """one deviation that the writer has to refuse (or that leaves the quantifier)"""
    p = list(p)
    k = rnd.choice(['inc', 'rule-after-out', 'wchoice', 'negbound', 'outcond', 'out-after-assume', 'two-assume', 'unsupported',
                    'external', 'emptyhead', 'min-after-out', 'name-nl', 'two-steps'])
    idx = [i for i, c in enumerate(p) if c[0] == 3]
    e = rnd.choice(idx)
    if k == 'inc':
        p[0] = (1, True)
    elif k == 'rule-after-out':
        p[e:e] = [(8, b'a', [1]), (4, 0, [1], [])]
    elif k == 'wchoice':
        b = [i for i, c in enumerate(p) if c[0] == 2][0]
        p.insert(b + 1, (5, rnd.choice([1, 0]), [1, 2] if rnd.random() < 0.5 else [1], 1, [(2, 1)]))
        if p[b + 1][1] == 0 and len(p[b + 1][2]) == 1:
            p[b + 1] = (5, 1, [1], 1, [(2, 1)])
    elif k == 'negbound':
        b = [i for i, c in enumerate(p) if c[0] == 2][0]
        p.insert(b + 1, (5, 0, [1], rnd.choice([-1, -INT_MAX - 1]), [(2, 2)]))
    elif k == 'outcond':
        p.insert(e, (8, b'x', rnd.choice([[], [-1], [1, 2]])))
    elif k == 'out-after-assume':
        p[e:e] = [(10, [1]), (8, b'a', [1])]
    elif k == 'two-assume':
        p[e:e] = [(10, [1]), (10, [-2])]
    elif k == 'unsupported':
        b = [i for i, c in enumerate(p) if c[0] == 2][0]
        p.insert(b + 1, rnd.choice([(7, [1]), (11, 1, 0, 1, 1, []), (12, 0, 1, []), (13, 0, 1), (14, 0, b'x'), (17, 1, 0, [])]))
    elif k == 'external':
        b = [i for i, c in enumerate(p) if c[0] == 2][0]
        p.insert(b + 1, (9, r_atom(rnd), rnd.randint(0, 3)))
    elif k == 'emptyhead':
        b = [i for i, c in enumerate(p) if c[0] == 2][0]
        p.insert(b + 1, rnd.choice([(4, 0, [], [1]), (5, 0, [], 1, [(1, 1)]), (4, 1, [], [1])]))
    elif k == 'min-after-out':
        p[e:e] = [(8, b'a', [1]), (6, 0, [(1, 1)])]
    elif k == 'name-nl':
        p.insert(e, (8, rnd.choice([b'a\nb', b'a\r', b'0\n1 b']), [1]))
    elif k == 'two-steps':
        p += r_step(rnd, ext, f)
    return p, k


BAD_CONDS = [[], [-1], [1, 2], [-1, -2], [2, -3, 4], [0]]
UNSUPPORTED = [(7, [1]), (7, []), (11, 1, 0, 1, 1, []), (11, 2, 4, -1, 0, [1, -2]), (12, 0, 1, []), (12, 1, 2, [3]), (13, 0, 1), (14, 0, b'x'),
               (15, 1, -1, [0]), (16, 0, [0], []), (17, 1, 0, []), (18, 1, 0, [0], 1, 2)]


def r_refused(rnd, ext, f, sec):
    """one call the writer has to refuse when the step is in section sec (0 rules, 1 symbols, 2 after compute)"""
    ks = ['outcond', 'outcond', 'unsupported']
    if sec == 0:
        ks += ['outcond', 'outcond', 'negbound', 'wchoice', 'wdisj', 'emptyhead-sum']
        if f == 0:
            ks += ['emptyhead']
        if not ext:
            ks += ['external']
    if sec >= 1:
        ks += ['rule', 'wrule']
    if sec == 2:
        ks += ['output', 'assume', 'assume']
    k = rnd.choice(ks)
    body = [(r_lit(rnd), r_w(rnd)) for _ in range(rnd.choice([0, 1, 2, 3]))]
    if k == 'outcond':
        c = (8, r_name(rnd).replace(b'\r', b'r'), rnd.choice(BAD_CONDS))
        if c[2] == [0]:
            c = (8, c[1], [-r_atom(rnd)])
    elif k == 'unsupported':
        c = rnd.choice(UNSUPPORTED)
    elif k == 'negbound':
        c = (5, 0, [r_atom(rnd)], rnd.choice([-1, -2, -INT_MAX - 1]), body)
    elif k == 'wchoice':
        c = (5, 1, [r_atom(rnd) for _ in range(rnd.choice([1, 1, 2]))], r_w(rnd), body)
    elif k == 'wdisj':
        c = (5, 0, [r_atom(rnd), r_atom(rnd)], r_w(rnd), body)
    elif k == 'emptyhead-sum':      # f == 0: no false atom; f != 0: refused by the recursive call (shape of the repaired defect 82b5ba2)
        c = (5, 0, [], r_w(rnd), body) if f == 0 else rnd.choice([(5, 0, [], rnd.choice([-1, -INT_MAX - 1]), body), (5, 1, [], r_w(rnd), body)])
    elif k == 'emptyhead':
        c = (4, 0, [], [r_lit(rnd) for _ in range(rnd.choice([0, 1, 3]))])
    elif k == 'external':
        c = (9, r_atom(rnd), rnd.randint(0, 3))
    elif k == 'rule':
        c = (4, rnd.choice([0, 1]), [r_atom(rnd)], [r_lit(rnd) for _ in range(rnd.choice([0, 1, 3]))])
    elif k == 'wrule':
        c = (5, 0, [r_atom(rnd)], r_w(rnd), body)
    elif k == 'output':
        c = (8, b'late', [r_atom(rnd)])
    else:
        c = (10, [r_lit(rnd) for _ in range(rnd.choice([0, 1, 2]))])
    return c, k


def inject(rnd, p, ext, f, focus=None):
    """program p of the fragment + 1..4 calls the writer refuses, each at a random position inside a step (the caller catches
    and continues).  focus='outcond-first': a general output directive as FIRST output of a step, inside the rule section, so that rules /
    minimize statements / externals follow it; focus='tail': refusals behind the symbols / the compute statement."""
    p = list(p)
    kinds = []
    for _ in range(rnd.choice([1, 1, 2, 3, 4])):
        begins = [i for i, c in enumerate(p) if c[0] == 2]
        b = rnd.choice(begins)
        e = min(i for i, c in enumerate(p) if c[0] == 3 and i > b)
        first_sym = min([i for i in range(b + 1, e) if p[i][0] in (8, 10)] + [e])
        if focus == 'outcond-first':
            pos = rnd.randint(b + 1, first_sym)
            c, k = (8, rnd.choice([b'x', b'p(1)', b'']), rnd.choice(BAD_CONDS[:5])), 'outcond'
            tail = [(6, 0, [(r_lit(rnd), r_w(rnd))])] if rnd.random() < 0.5 else []
            tail += [r_ruledir(rnd, ext, f) for _ in range(rnd.choice([0, 1, 1, 2]))]
            if ext and rnd.random() < 0.5:
                tail.append((9, r_atom(rnd), rnd.randint(0, 3)))
            p[pos:pos] = [c] + tail
        else:
            pos = rnd.randint(first_sym, e) if focus == 'tail' else rnd.randint(b + 1, e)
            sec = 2 if any(x[0] == 10 for x in p[b + 1:pos]) else 1 if any(x[0] == 8 for x in p[b + 1:pos]) else 0
            c, k = r_refused(rnd, ext, f, sec)
            p.insert(pos, c)
        kinds.append(k)
    return p, '+'.join(sorted(set(kinds)))


FIXED = [
    ((False, 0), [(1, False), (2,), (4, 0, [1], [2, -3, 4, -5]), (3,)], 'basic'),
    ((False, 7), [(1, False), (2,), (4, 0, [], [2, -3]), (5, 0, [], 2, [(1, 2), (-2, 0)]), (8, b'a b', [1]), (10, [1, -2]), (3,)], 'false-atom'),
    ((True, 0), [(1, False), (2,), (9, 3, 1), (4, 0, [1], []), (3,)], 'probe-91'),
    ((True, 0), [(1, False), (2,), (9, 3, 3), (3,)], 'probe-92'),
    ((True, 0), [(1, True), (2,), (9, 3, 0), (3,), (2,), (4, 0, [1], [3]), (3,)], 'steps'),
    ((False, 0), [(1, False), (2,), (6, 0, [(1, -2), (-2, 3), (3, 0)]), (6, 9, [(1, -INT_MAX)]), (3,)], 'minimize'),
    ((False, 0), [(1, False), (2,), (5, 0, [1], 0, []), (5, 0, [1], INT_MAX, [(2, INT_MAX), (-3, 1)]), (3,)], 'weights'),
]


FIXED_CONT = [
    # (ext, false atom), history, kind            - refused calls the caller catches, then continues
    ((False, 0), [(1, False), (2,), (4, 0, [1], [2]), (8, b'p', [1, 2]), (6, 0, [(1, 2)]), (4, 0, [2], []), (8, b'a', [1]), (10, [1]), (3,)], 'outcond-then-minimize'),
    ((True, 0), [(1, False), (2,), (4, 0, [1], [2]), (8, b'p', [-1]), (9, 3, 1), (6, 0, [(1, 2)]), (8, b'a', [1]), (3,)], 'outcond-then-external'),
    ((True, 7), [(1, True), (2,), (8, b'', []), (4, 0, [], [1]), (3,), (2,), (8, b'x', [1, 2]), (9, 2, 3), (8, b'b', [2]), (3,)], 'outcond-first-call-of-step'),
    ((False, 0), [(1, False), (2,), (7, [1]), (11, 1, 0, 1, 1, []), (4, 0, [1], []), (12, 0, 1, []), (17, 1, 0, []), (5, 0, [1], -1, [(2, 1)]),
                  (5, 1, [1], 1, [(2, 1)]), (4, 0, [], [1]), (9, 1, 1), (8, b'a', [1]), (4, 0, [2], []), (10, [1]), (10, [2]), (8, b'b', [2]), (3,)], 'every-refusal'),
    ((False, 7), [(1, False), (2,), (4, 0, [], [1]), (5, 0, [], -1, [(2, 1)]), (10, []), (3,)], 'sum-rule-after-false-atom-used'),
    ((False, 7), [(1, False), (2,), (4, 0, [1], [2]), (5, 0, [], -1, [(2, 1)]), (3,)], 'regression-sum-rule-marks-false-atom'),
    ((False, 0), [(1, True), (2,), (4, 0, [1], [2]), (3,)], 'refused-init'),
]

# two programs through ONE writer in one case (judged through the model; the oracle does not judge cases with a second initProgram - the
# harness-side primer, primed(), gives the oracle-level verdict on a second program)
FIXED_TWO = [
    # (ext, false atom), history, continue mode, kind
    ((True, 0), [(1, True), (2,), (4, 0, [1], [2]), (3,), (2,), (9, 2, 1), (3,), (1, False), (2,), (4, 0, [1], [2]), (8, b'a', [1]), (3,)], False, 'incremental-then-ordinary'),
    ((True, 7), [(1, True), (2,), (4, 0, [], [1]), (8, b'a', [1]), (10, [1, -2]), (1, False), (2,), (4, 0, [1], [2]), (3,)], False, 'abandoned-behind-compute-then-ordinary'),
    ((True, 0), [(1, False), (2,), (4, 0, [1], []), (3,), (1, True), (2,), (4, 0, [2], []), (3,), (2,), (3,)], False, 'ordinary-then-incremental'),
    ((False, 7), [(1, True), (1, False), (2,), (5, 0, [], 1, [(1, 1)]), (8, b'p', [1, 2]), (1, False), (2,), (4, 0, [1], [2]), (10, []), (3,)], True, 'refused-init-then-two-programs'),
    ((True, 7), [(1, True), (2,), (4, 0, [], [1]), (10, [1]), (8, b'late', [1]), (1, False), (4, 0, [1], [2]), (2,), (4, 0, [1], [2]), (3,)], True, 'rule-between-init-and-begin-meets-stale-section'),
]


FIXED_DUP = [
    ((False, 0), [(1, False), (2,), (4, 0, [1], [2]), (8, b'a', [1]), (8, b'a', [2]), (3,)], 'two-atoms-one-name'),
    ((False, 0), [(1, False), (2,), (4, 0, [1], [2]), (8, b'a', [1]), (8, b'b', [2]), (8, b'a', [1]), (3,)], 'same-line-twice'),
    ((True, 0), [(1, True), (2,), (4, 1, [1, 2], []), (8, b'a', [1]), (8, b'b', [2]), (3,), (2,), (4, 0, [3], [1]), (8, b'a', [1]), (8, b'a', [3]), (3,)], 'later-step'),
]


def gen(seed, tier):
    rnd = random.Random(seed * 1000003 + 5)
    total = {'quick': 3000, 'thorough': 100000, 'search': 5000}.get(tier, 2500)
    out = []
    for (ext, f), p, kind in FIXED:
        for n in SIZES:
            out.append((mk(n, ext, f, p), {'kind': 'fixed-' + kind}))
    for (ext, f), p, kind in FIXED_CONT:
        for n in SIZES:
            out.append((mk(n, ext, f, p, True), {'kind': 'fixed-continue-' + kind}))
    for (ext, f), p, cont, kind in FIXED_TWO:
        for n in SIZES:
            out.append((mk(n, ext, f, p, cont), {'kind': 'fixed-two-programs-' + kind}))
    while len(out) < total:
        ext = rnd.random() < 0.5
        f = rnd.choice([0, 0, 1, 7, INT_MAX])
        p = r_prog(rnd, ext, f)
        n = rnd.choice(SIZES)
        r = rnd.random()
        if r < 0.05:
            # two programs through one writer object in ONE case: a first program (complete, or abandoned anywhere - inside the rule section,
            # behind the symbols, behind the compute statement -, in continue mode with refused calls), then initProgram again and a second program
            cont = rnd.random() < 0.5
            ext = ext or rnd.random() < 0.5
            p1 = r_prog(rnd, ext, f)
            if cont and rnd.random() < 0.6:
                p1, _ = inject(rnd, p1, ext, f, rnd.choice(['outcond-first', 'tail', None]))
            if rnd.random() < 0.5 and len(p1) > 3:
                p1 = p1[:rnd.randint(2, len(p1) - 1)]
            if cont and not ext and rnd.random() < 0.3:
                p1 = [(1, True)] + p1[1:]           # refused initProgram(true), caught
            p2 = r_prog(rnd, ext, f)
            out.append((mk(n, ext, f, p1 + p2, cont), {'kind': 'two-programs-one-writer'}))
            continue
        if r < 0.43:
            # the caller catches refusals and continues with the same writer
            r2 = rnd.random()
            if r2 < 0.08:
                out.append((mk(n, ext, f, p, True), {'kind': 'continue-no-refusal'}))
            elif r2 < 0.16:
                q, k = deviate(rnd, p, ext, f)
                out.append((mk(n, ext, f, q, True), {'kind': 'continue-deviation-' + k}))
            else:
                q, k = inject(rnd, p, ext, f, 'outcond-first' if r2 < 0.45 else 'tail' if r2 < 0.6 else None)
                out.append((mk(n, ext, f, q, True), {'kind': 'continue-refused-' + k}))
            continue
        if rnd.random() < 0.7:
            out.append((mk(n, ext, f, p), {'kind': 'fragment-ext' if ext else 'fragment'}))
        else:
            q, k = deviate(rnd, p, ext, f)
            out.append((mk(n, ext, f, q), {'kind': 'deviation-' + k}))
    # symbol tables with repeated names / repeated lines (own RNG: the streams above are unchanged); the hash-selected reader option of
    # the harness (convertHeuristic: symbols through the reader's name table) falls on about half of them
    r2 = random.Random(seed * 1000003 + 77)
    for (ext, _), p, kind in FIXED_DUP:
        for n in SIZES:
            for f in (0, 1, 7, INT_MAX):    # 12 cases per program = 12 draws of the hash bit: both reader option settings occur
                out.append((mk(n, ext, f, p), {'kind': 'fixed-repeated-names-' + kind}))
    for _ in range({'quick': 300, 'thorough': 6000, 'search': 500}.get(tier, 300)):
        ext = r2.random() < 0.7
        f = r2.choice([0, 0, 1, 7])
        out.append((mk(r2.choice(SIZES), ext, f, r_prog_dup(r2, ext, f), r2.random() < 0.2), {'kind': 'repeated-names-ext' if ext else 'repeated-names'}))
    return out


def shrink(case, fails):
    n, ext, f, calls = decode(case)
    cont = is_cont(case)
    changed = True
    while changed:
        changed = False
        for i in range(len(calls) - 1, 0, -1):
            if calls[i][0] in (2, 3):
                continue
            t = calls[:i] + calls[i + 1:]
            if fails(mk(n, ext, f, t, cont)):
                calls, changed = t, True
                break
    return mk(n, ext, f, calls, cont)


RULE = ('cases = (BUF_SIZE variant of the reader in {4096,16,32}, clasp extensions on/off, false atom in {0,1,7,2^31-1}, call sequence); '
        'sequences are random programs of the smodels fragment (1-3 steps; normal / choice / disjunctive / cardinality / weight rules with bodies of 0..9 literals in random sign order, '
        'weights 0..2^31-1 incl. 0 and 1-only bodies, minimize statements with negative weights, externals, symbol names of arbitrary bytes, compute statements) left as they are or '
        'given one deviation the writer has to refuse or that leaves the fragment; 40% of the random cases are CONTINUE-MODE histories (the caller catches every refusal and goes on with the same writer): '
        'a fragment program plus 1..4 refused calls at random positions of a step (general output directive - also as first output inside the rule section, followed by minimize / rules / externals -, '
        'project / heuristic / edge / theory, negative bound, weight body with choice / disjunctive head, empty head, external without extensions, rules behind symbols, output / second compute behind the compute statement), '
        'every call judged against the calls accepted before it and the re-read text against the accepted calls alone; '
        'WRITER REUSE: every other case that starts with initProgram is played on a SmodelsOutput OBJECT that has written another program before (hash of the case: incremental or not - refused and caught without the extensions -; complete, or abandoned in the rule section with the false atom used / behind the symbol table / behind the compute statement and a refused call), that text discarded; '
        'READER OPTION: every other case (hash of the case) whose written text contains no `_heuristic(` is read back with SmodelsInput::Options::convertHeuristic (and half of those with dropConverted) in addition: '
        'no name is a heuristic predicate, so nothing is converted and the option only routes every symbol through the reader\'s private name table (shared by all steps) - it must be invisible; '
        'a stream "repeated-names" draws the symbol tables from a few names and atoms (one name for two atoms, the same output call twice, again in a later step of an incremental program: SmodelsOutput writes every output call as a line and all of them must come back); '
        '5% of the random cases hold TWO programs for one writer (first one complete, cut off anywhere, with refused calls; judged through the model); '
        'non-trivial = the reader delivered more than init/begin/end or the writer refused; distinct = distinct case tuples')
TRUSTED_BASE = ['coq/C09/Spec.v abstract stream; coq/C07 reader model (tied to the code by C07\'s own correspondence)',
                'std::ostream operator<< for unsigned / int modelled by Dec.print_nat',
                'props/C05.py fragment test + normaliser (oracle on the implementation); props/C07.py python reference reader (second opinion on the re-read text in continue mode)']
ASSUMPTIONS = ['call sequences admitted by the writer\'s documented ordering; values within the C parameter types',
               'reader options: claspExt as the writer\'s, cEdge = cHeuristic = false']
LEVEL_TEXT = ('Coq model of SmodelsOutput composed with the C07 reader model; machine-checked for ALL call sequences of the fragment '
              '(c05_roundtrip: in_fragment ext f p = true => the writer writes p completely and the reader, claspExt = ext, returns exactly sm_norm f p: every rule kind '
              '1/2/3/5/6/8 incl. false atom, weight 0, bounds, minimize sign normalisation and priority renumbering, symbol table, compute statement B+/B- incl. the false atom, '
              'externals 91/92 with the value coding, any number of incremental steps, extensions on or off, any false atom, bodies of any length); the writer refuses exactly the '
              'documented cases (c05_refuses); normalised bodies are permutations (c05_perm); a caller that catches a refusal and continues: a refused call writes nothing and leaves a state no later call can tell from the '
              'state before (c05_refused_state, c05_refused_no_trace, c05_obs_eq_step), so for EVERY history the text is the text of the accepted calls alone (c05_continue_accepted) and, if these form a program of the fragment, '
              'is read back as their normal form (c05_continue_roundtrip); one writer object used for several programs: initProgram assigns inc_, beginStep assigns sec_ / fHead_, so initProgram; beginStep; ANY calls on a writer in ANY state '
              'get the statuses and append exactly the text of a new writer with the same extensions flag / false atom (c05_init_any_state, c05_begin_forgets, c05_second_program_like_fresh), a program of the fragment is read back as its normal form whatever the writer did before '
              '(c05_second_program_roundtrip, c05_history_then_program). Proof route: the written text is the rendering of a laid-out program of C07/Spec.v that is '
              'layout_ok, in_range and denotes sm_norm p, then c07_complete. The model is tied to the code by differential correspondence (bytes written + reader calls; for half of the cases the real reader additionally runs with convertHeuristic on texts without a heuristic predicate, where the option must not change anything) and the Coq '
              'fragment/normal-form definitions are cross-checked against the independent python normaliser that judges the implementation (c05_spec_matches_oracle).')
LEVEL_NOTE = ('c05_roundtrip is full over in_fragment (boolean, coq/C05/Spec.v). Excluded from in_fragment, as from the property\'s quantifier: names containing LF/CR/NUL, negative rule-body weights, '
              'minimize/external after symbols, |minimize weight| = 2^31, list lengths >= 2^32; and the KNOWN finding probe-leading-9 (non-incremental program whose first written line is an external: c05_probe_refuted).')
TECHNIQUE = 'Coq proof about an executable model + differential correspondence with the implementation'
DESIGN_REF = 'DESIGN.md section 5, C05'
READY = True
