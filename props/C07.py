"""C07 - the smodels reader accepts exactly well-formed input and never alters a number.

Case: N opts len bytes... [mv]   (N = BUF_SIZE variant, opts bit0 = claspExt, bit3 = filter; bits 1,2 (cEdge/cHeuristic) are C08's;
                             bit4 = caller: 0 readSmodels/readProgram = parse(Complete), 1 the step-wise API accept(); parse(Incremental);
                             while (more()) parse(Incremental); - same observation for a correct reader, the model ignores the bit)
      mv (optional, behind the text) = the reader's atom limit: 0 / absent = ProgramReader::setMaxVar is not called (varMax_ = 2^31-1),
      k in 1..2^31-1 = reader.setMaxVar(k) before the text is read, -1 = setMaxVar(0)
Observation: encoded calls in delivery order, then  status line nerr   (see harness/h_c07.cpp)

The oracle is an independent reference reader written from the format definition (lparse manual + clasp
extensions) with python big integers: it re-tokenises the input, decides well-formedness with explicit range
checks, computes the denoted calls, and judges the implementation's observation alone.
"""
import random
from props import calls as K
from props import reuse as RU

PID = 'C07'
HARNESS = 'h_c07'
HARNESS_EXTRA = ('rec.h', 'reuse.h')
MODEL_MODULE = 'V.C07.Run'       # coq/C07/Run.v: the case decoder (admits convertHeuristic for texts without `_heuristic(`) over V.C07.Model
SIZES = [4096, 16, 32]
VARIANTS = {('N%d' % n): ({} if n == 4096 else {'POTASSCO_VERIF_BUF_SIZE': n}) for n in SIZES}
INT_MAX = 2 ** 31 - 1
UINT_MAX = 2 ** 32 - 1
KNOWN_TYPES = (1, 2, 3, 5, 6, 8)
BIG = [2 ** 31, 2 ** 32 - 1, 2 ** 32, 2 ** 63 - 1, 2 ** 63, 2 ** 64 + 1, 2 ** 64 + 7, 2 ** 31 - 1, 10 ** 30]


def variant_of(c):
    return 'N%d' % c[0]


def primed(c):
    """harness/reuse.h: every other case (FNV-1a over the case's integers, bit 17) is read by a reader OBJECT that has read - or refused - a
    primer text before, chosen by further hash bits (props/reuse.py; reader reuse is invisible for a correct reader, so neither the model nor
    the oracle depends on it)"""
    return RU.primed(c)


def decode(c):
    n, ob, ln = c[0], c[1], c[2]
    return n, ob, c[3:3 + ln]


def max_var_field(c):
    """the raw trailer behind the text (0 = setMaxVar not called)"""
    ln = c[2]
    return c[3 + ln] if len(c) > 3 + ln else 0


def max_var(c):
    """the atom limit the reader applies with its member matchAtom (varMax_); None = outside the modelled domain"""
    mv = max_var_field(c)
    if mv == 0:
        return INT_MAX
    if mv == -1:
        return 0
    return mv if 1 <= mv <= INT_MAX else None


def mk(n, ob, data, mv=0):
    data = list(data)
    return [n, ob, len(data)] + data + ([mv] if mv else [])


def describe(c):
    n, ob, data = decode(c)
    rd = RU.reader(c, 'smodels', bool(ob & 1))
    caller = 'step-wise(accept; parse(Incremental); while more(): parse(Incremental))' if ob & 16 else 'readSmodels(parse(Complete))'
    mv = max_var_field(c)
    lim = 'default(setMaxVar not called)' if mv == 0 else 'setMaxVar(%d)' % (0 if mv == -1 else mv)
    return 'N=%d claspExt=%d%s filter=%d maxVar=%s caller=%s reader=%s text=%r' % (n, ob & 1, ' convertHeuristic=1' if ob & 4 else '', (ob >> 3) & 1, lim, caller, rd, bytes(x & 255 for x in data).decode('latin-1'))


# ---------------------------------------------------------------------------------------------------
# independent reference reader
# ---------------------------------------------------------------------------------------------------
class Reject(Exception):
    def __init__(self, reason, lo, hi=None):
        self.reason, self.lo, self.hi = reason, lo, (lo if hi is None else hi)


class Ref:
    def __init__(self, data, ext, max_var=None, reading='code'):
        """reading = 'code': the limit is applied where src/smodels.cpp applies it (below). reading = 'property': the property text "atoms within
        1..maxVar" taken literally - the limit applies to EVERY atom position (also symbol table, compute statements, E section) and to no COUNT
        (the head count of a choice / disjunctive rule is a count, 1..2^31-1). The two readings differ only when a limit was set.
        max_var: the limit configured with ProgramReader::setMaxVar (None = never called = 2^31-1). It bounds the atoms of RULES
        (heads, bodies of every rule type, the atom of 91 / 92) and - because the reader reads it with the same call - the head count of
        choice / disjunctive rules; symbol-table, compute and E-section atoms are bounded by atomMax = 2^31-1 whatever the limit
        (src/smodels.cpp reads them with matchPos(atomMax, ..))."""
        self.d, self.i, self.line, self.ext = list(data), 0, 1, ext
        self.vmax = INT_MAX if max_var is None else max_var
        self.prop = reading == 'property'
        self.calls = []

    def peek(self):
        return self.d[self.i] if self.i < len(self.d) else 0

    def get(self):
        c = self.peek()
        if c == 0:
            return 0
        self.i += 1
        if c == 13:
            c = 10
            if self.peek() == 10:
                self.i += 1
        if c == 10:
            self.line += 1
        return c

    def ws(self):
        while 9 <= self.peek() < 33:
            self.get()

    def num(self, what):
        """next whitespace separated integer token as a python integer of arbitrary size"""
        self.ws()
        sign = 1
        if self.peek() in (43, 45):
            sign = -1 if self.peek() == 45 else 1
            self.i += 1
        if not (48 <= self.peek() <= 57):
            raise Reject('token:' + what + '-expected', self.line)
        v = 0
        while 48 <= self.peek() <= 57:
            v = v * 10 + self.peek() - 48
            self.i += 1
        return sign * v

    def ranged(self, what, lo, hi):
        v = self.num(what)
        if not (lo <= v <= hi):
            raise Reject('range:' + what, self.line)
        return v

    def atom(self, what='atom'):
        """an atom of a rule: 1 .. maxVar"""
        v = self.num(what)
        if not (1 <= v <= INT_MAX):
            raise Reject('range:' + what, self.line)
        if v > self.vmax:
            raise Reject('maxvar:' + what, self.line)
        return v

    def head_size(self):
        """code reading: matchAtom("positive head size expected"), 1 .. maxVar like an atom; property reading: a count, 1 .. 2^31-1"""
        return self.ranged('head-size', 1, INT_MAX) if self.prop else self.atom('head-size')

    def atom0(self, what):
        """an atom or the terminating 0 of the symbol table / a compute statement / the E section: matchPos(atomMax) in the code whatever the
        limit; under the property reading the limit applies"""
        v = self.ranged(what, 0, INT_MAX)
        if self.prop and v > self.vmax:
            raise Reject('maxvar:' + what, self.line)
        return v

    def body_counts(self, order):
        """reads the count / bound fields of a body in the given order; range and neg<=len are checked after all were read"""
        l0 = self.line
        f = {}
        for k in order:
            f[k] = self.num(k)
            if f[k] < 0 or f[k] > UINT_MAX:
                raise Reject('range:' + k, self.line)
        if 'bound' in f and f['bound'] > INT_MAX:
            raise Reject('range:bound', l0, self.line)
        if f['neg'] > f['len']:
            raise Reject('count:neg-gt-len', l0, self.line)
        return f

    def lits(self, f):
        at = [self.atom('body-atom') for _ in range(f['len'])] if f['len'] <= len(self.d) else self.fail_count()
        return [-a if i < f['neg'] else a for i, a in enumerate(at)]

    def fail_count(self):
        # more literals announced than bytes left: read until the inevitable failure
        while True:
            self.atom('body-atom')

    def rules(self):
        prio = 0
        while True:
            rt = self.num('rule-type')
            if rt < 0:
                raise Reject('range:rule-type', self.line)
            if rt == 0:
                return
            if rt in (3, 8):
                n = self.head_size()
                if n > len(self.d):
                    self.fail_count()
                hs = [self.atom('head-atom') for _ in range(n)]
                f = self.body_counts(['len', 'neg'])
                self.calls.append((4, 1 if rt == 3 else 0, hs, self.lits(f)))
            elif rt == 1:
                h = self.atom('head-atom')
                f = self.body_counts(['len', 'neg'])
                self.calls.append((4, 0, [h], self.lits(f)))
            elif rt == 2:
                h = self.atom('head-atom')
                f = self.body_counts(['len', 'neg', 'bound'])
                self.calls.append((5, 0, [h], f['bound'], [(l, 1) for l in self.lits(f)]))
            elif rt in (5, 6):
                h = self.atom('head-atom') if rt == 5 else None
                f = self.body_counts(['bound', 'len', 'neg'])
                ls = self.lits(f)
                ws = [self.ranged('weight', 0, INT_MAX) for _ in ls]
                if rt == 5:
                    self.calls.append((5, 0, [h], f['bound'], list(zip(ls, ws))))
                else:
                    self.calls.append((6, prio, list(zip(ls, ws))))
                    prio += 1
            elif rt in (90, 91, 92):
                if not self.ext:
                    raise Reject('gating:extension-rule-without-claspExt', self.line)
                if rt == 90:
                    if self.ranged('increment-zero', 0, UINT_MAX) != 0:
                        raise Reject('range:increment-zero', self.line)
                elif rt == 91:
                    a = self.atom('external-atom')
                    v = self.ranged('external-value', 0, 2)
                    self.calls.append((9, a, {0: 2, 1: 1, 2: 0}[v]))
                else:
                    self.calls.append((9, self.atom('external-atom'), 3))
            else:
                raise Reject('type:unknown-rule-type', self.line)

    def symbols(self):
        while True:
            a = self.atom0('symbol-atom')
            if a == 0:
                return
            self.get()  # the separator
            name = []
            while True:
                c = self.get()
                if c == 10:
                    break
                if c == 0:
                    raise Reject('token:symbol-name-unterminated', self.line)
                name.append(c)
            self.calls.append((8, bytes(name), [a]))

    def compute(self, key, positive):
        self.ws()
        if self.d[self.i:self.i + 2] != list(key):
            raise Reject('token:%s-expected' % key.decode(), self.line)
        self.i += 2
        l0 = self.line
        if self.get() != 10:
            raise Reject('token:newline-after-%s-expected' % key.decode(), l0, self.line)
        while True:
            a = self.atom0('compute-atom')
            if a == 0:
                return
            self.calls.append((4, 0, [], [-a if positive else a]))

    def extra(self):
        self.ws()
        if self.peek() == 69:
            self.i += 1
            while True:
                a = self.atom0('external-section-atom')
                if a == 0:
                    break
                self.calls.append((9, a, 0))
        self.ranged('number-of-models', 0, UINT_MAX)

    def program(self):
        first = self.peek()
        if not (48 <= first <= 57):
            raise Reject('probe:text-does-not-start-with-a-digit', 1)
        inc = first == 57
        if inc and not self.ext:
            raise Reject('gating:extension-rule-without-claspExt', 1)
        self.calls.append((1, inc))
        while True:
            self.calls.append((2,))
            self.rules()
            self.symbols()
            self.compute(b'B+', True)
            self.compute(b'B-', False)
            self.extra()
            self.calls.append((3,))
            self.ws()
            if self.peek() == 0:
                return
            if not inc:
                raise Reject('extra:input-after-program', self.line)


def reference(data, ext, max_var=None, reading='code'):
    r = Ref(data, ext, max_var, reading)
    try:
        r.program()
        return True, r.calls, None
    except Reject as e:
        return False, r.calls, e


def split_obs(obs):
    if len(obs) < 3:
        return None
    body, tail = obs[:-3], obs[-3:]
    cs, restl = K.dec_all(body)
    return cs, restl, tail


def norm_call(c):
    if c[0] == 8:
        return (8, bytes(c[1]), list(c[2]))
    return tuple(list(x) if isinstance(x, (list, tuple)) and not isinstance(x, bytes) else x for x in c)


def scan_delivered(cs, vmax=INT_MAX):
    """Range sanity of what was delivered, whether or not the text was accepted in the end. vmax = the configured maxVar: it bounds every
    atom of a rule with a head, of a weight rule and of a minimize statement (a rule with an EMPTY head is a compute-statement atom, an
    external may come from the E section: those are bounded by 2^31-1 only)."""
    sig = []
    for c in cs:
        t = c[0]
        atoms, lits, ws = [], [], []
        if t == 4:
            atoms, lits = c[2], c[3]
        elif t == 5:
            atoms, lits, ws = c[2], [l for l, _ in c[4]], [w for _, w in c[4]] + [c[3]]
        elif t == 6:
            lits, ws = [l for l, _ in c[2]], [w for _, w in c[2]]
        elif t == 8:
            lits = c[2]
        elif t == 9:
            atoms = [c[1]]
            if not (0 <= c[2] <= 3):
                sig.append('delivered-external-value-out-of-range')
        if any(w < 0 for w in ws):
            sig.append('delivered-negative-weight-or-bound')
        if any(w > INT_MAX for w in ws):
            sig.append('delivered-weight-out-of-range')
        if any(not (1 <= a <= INT_MAX) for a in atoms) or any(l == 0 or abs(l) > INT_MAX for l in lits):
            sig.append('delivered-atom-out-of-range')
        elif ((t == 4 and atoms) or t in (5, 6)) and (any(a > vmax for a in atoms) or any(abs(l) > vmax for l in lits)):
            sig.append('delivered-rule-atom-above-max-var')
    return sig


# Known findings (KNOWN_FINDINGS.txt, coordinator's decision, not repaired in /repo): with a limit set by setMaxVar the code (a) does not apply it to
# symbol-table / compute-statement / E-section atoms and (b) applies it to the head COUNT of choice / disjunctive rules. The oracle reports exactly
# these shapes - the code reading and the property reading of the reference disagree about ACCEPTANCE, and the implementation sides with the code -
# under their own signatures; every other case is judged as before (code reading).
REPORT_MAXVAR_FINDINGS = True
NOT_APPLIED = {'maxvar:symbol-atom': 'symbol-table', 'maxvar:compute-atom': 'compute', 'maxvar:external-section-atom': 'external-section'}


def maxvar_finding(c, data, ext, vmax, status, okc, rejc):
    """-> (signature or None, property-reading result or None). Only when a limit is set and the two readings disagree about acceptance."""
    if not REPORT_MAXVAR_FINDINGS or max_var_field(c) == 0:
        return None, None
    okp, pcalls, rejp = reference(data, ext, vmax, 'property')
    if okp == okc:
        return None, None
    if okc and rejp.reason in NOT_APPLIED:
        # everything is well-formed under the limit as the code applies it; the first thing the property reading objects to is an atom above the limit
        return ('max-var-not-applied:' + NOT_APPLIED[rejp.reason]) if status == 1 else None, (okp, pcalls, rejp)
    if okp and rejc.reason == 'maxvar:head-size':
        # well-formed under the limit (every ATOM <= limit); the code refuses the head count
        return 'head-count-checked-against-max-var' if status == 0 else None, (okp, pcalls, rejp)
    return None, None


def oracle(c, obs):
    n, ob, data = decode(c)
    if obs and obs[0] == -999:
        return ['harness:buffer-size-variant-mismatch']
    if obs == [-3]:
        return []
    # option bit 2 (convertHeuristic) is admitted by the harness only for texts without `_heuristic(`: no name is a heuristic predicate, so
    # the option is INVISIBLE - the reference reader below does not look at it and every symbol line (also one whose name or whose
    # (atom, name) pair occurred before, in this table or in the table of an earlier step) has to be delivered exactly as without it
    sp = split_obs(obs)
    if sp is None or sp[1]:
        return ['harness:undecodable-observation']
    cs, _, (status, line, nerr) = sp
    vmax = max_var(c)
    if vmax is None:
        return ['harness:max-var-outside-domain-not-answered-with--3']
    sig = scan_delivered(cs, vmax)
    if status not in (0, 1):
        sig.append('exception-escaped-error-handler')
        return sig
    ok, rcalls, rej = reference(data, bool(ob & 1), vmax)
    finding, prop = maxvar_finding(c, data, bool(ob & 1), vmax, status, ok, rej)
    if finding:
        sig.append(finding)       # the implementation sides with the code reading: everything else is judged against that reading below
    elif prop:
        ok, rcalls, rej = prop    # the implementation sides with the property reading here: judge it against that reading
    got = [norm_call(x) for x in cs]
    want = [norm_call(x) for x in rcalls]
    if status == 1:
        if nerr != 0:
            sig.append('error-handler-called-on-accepted-input')
        if not ok and rej.reason.startswith('maxvar:'):
            # every number fits 1..2^31-1, but an atom of a rule exceeds the limit set with setMaxVar
            sig.append('accepted-atom-above-max-var:' + rej.reason[7:])
        elif not ok:
            sig.append('accepted-malformed:' + rej.reason)
        elif got != want:
            sig.append('delivered-differs-from-denoted')
    else:
        if nerr != 1:
            sig.append('error-handler-not-called-exactly-once')
        nl = 1 + sum(1 for i, b in enumerate(data) if b == 10 or (b == 13 and not (i + 1 < len(data) and data[i + 1] == 10)))
        if not (1 <= line <= nl):
            sig.append('error-line-outside-text')
        if ok:
            sig.append('rejected-well-formed')
        else:
            if got[:len(want)] != want[:len(got)]:
                sig.append('delivered-before-error-differs-from-denoted')
            elif rej.reason == 'extra:input-after-program' and len(got) > len(want):
                # the program is complete and NOT incremental: the reader has to refuse the extra input before it reads any of it
                sig.append('delivered-a-further-step-although-the-text-has-invalid-extra-input')
            if not (rej.lo <= line <= rej.hi):
                sig.append('error-line-differs')
    return sig


def nontrivial(c, obs):
    sp = split_obs(obs)
    return bool(sp) and (len(sp[0]) > 3 or sp[2][0] == 0)


# ---------------------------------------------------------------------------------------------------
# generators
# ---------------------------------------------------------------------------------------------------
NAME_BYTES = [b for b in range(32, 127)] + [b for b in range(128, 256)]


def r_name(rnd):
    k = rnd.choice([0, 1, 1, 2, 3, 5, 8, 20])
    r = rnd.random()
    if r < 0.5:
        return bytes(rnd.choice(b'abcxyz_(),"0123 ') for _ in range(k))
    return bytes(rnd.choice(NAME_BYTES) for _ in range(k))


def r_atom(rnd):
    r = rnd.random()
    if r < 0.75:
        return rnd.randint(1, 6)
    if r < 0.9:
        return rnd.choice([INT_MAX, INT_MAX - 1, 65536, 4097])
    return rnd.randint(1, INT_MAX)


def r_w(rnd):
    r = rnd.random()
    if r < 0.7:
        return rnd.randint(0, 4)
    if r < 0.9:
        return rnd.choice([INT_MAX, INT_MAX - 1, 0, 1])
    return rnd.randint(0, INT_MAX)


def r_cnt(rnd):
    return rnd.choice([0, 0, 1, 1, 2, 2, 3, 4, 7])


def r_rule(rnd, ext):
    """a rule as a list of numbers (the tokens of its line)"""
    ts = [1, 1, 2, 3, 5, 6, 8] + ([90, 91, 91, 92] if ext else [])
    rt = rnd.choice(ts)
    if rt in (90,):
        return [90, 0]
    if rt == 91:
        return [91, r_atom(rnd), rnd.randint(0, 2)]
    if rt == 92:
        return [92, r_atom(rnd)]
    n = r_cnt(rnd)
    neg = rnd.randint(0, n)
    at = [r_atom(rnd) for _ in range(n)]
    if rt == 1:
        return [1, r_atom(rnd), n, neg] + at
    if rt in (3, 8):
        h = rnd.choice([1, 1, 2, 3, 5])
        return [rt, h] + [r_atom(rnd) for _ in range(h)] + [n, neg] + at
    if rt == 2:
        return [2, r_atom(rnd), n, neg, r_w(rnd)] + at
    if rt == 5:
        return [5, r_atom(rnd), r_w(rnd), n, neg] + at + [r_w(rnd) for _ in range(n)]
    return [6, rnd.choice([0, 0, 0, 1, INT_MAX]), n, neg] + at + [r_w(rnd) for _ in range(n)]


def r_step(rnd, ext, first_inc=False):
    """a step as a list of items: ('n', value) numeric token, ('sym', atom, sepbyte, name), ('kw', b'B+')"""
    items = []
    rules = [r_rule(rnd, ext) for _ in range(rnd.choice([0, 1, 2, 3, 5, 9]))]
    if first_inc:
        rules = [[90, 0] if rnd.random() < 0.7 else [92, r_atom(rnd)]] + rules
    for r in rules:
        items.append(('line', [('n', v) for v in r]))
    items.append(('line', [('n', 0)]))
    for _ in range(rnd.choice([0, 1, 2, 4])):
        items.append(('sym', r_atom(rnd), 32 if rnd.random() < 0.9 else rnd.choice([9, 120, 44]), r_name(rnd)))
    items.append(('line', [('n', 0)]))
    items.append(('kw', b'B+'))
    for _ in range(rnd.choice([0, 0, 1, 3])):
        items.append(('line', [('n', r_atom(rnd))]))
    items.append(('line', [('n', 0)]))
    items.append(('kw', b'B-'))
    for _ in range(rnd.choice([0, 0, 1, 2])):
        items.append(('line', [('n', r_atom(rnd))]))
    items.append(('line', [('n', 0)]))
    if rnd.random() < 0.3:
        items.append(('kw', b'E'))
        for _ in range(rnd.choice([0, 1, 2])):
            items.append(('line', [('n', r_atom(rnd))]))
        items.append(('line', [('n', 0)]))
    items.append(('line', [('n', rnd.choice([1, 1, 0, 2, UINT_MAX]))]))
    return items


def render_general(items, rnd):
    """the general layout of coq/C07/SpecG.v: optional '+' / "-0" / leading zeros, numbers separated by a sign only, LF / CR / CRLF /
    any non-digit byte behind a symbol-table atom, CR line breaks, keywords glued to their neighbours, whitespace tail"""
    out = []
    st = {'num': False}
    WS = [[32], [32], [9], [10], [13], [13, 10], [32, 32], [11], [12], [10, 32]]

    def number(v):
        first = not out
        sign = b''
        if not first:
            r = rnd.random()
            if v == 0 and r < 0.15:
                sign = b'-'
            elif r < 0.3:
                sign = b'+'
        if not first and ((st['num'] and not sign) or rnd.random() < 0.6):
            out.extend(rnd.choice(WS))
        out.extend(sign)
        if rnd.random() < 0.15:
            out.extend(rnd.choice([b'0', b'00', b'0000000000000000000000']))
        out.extend(str(v).encode())
        st['num'] = True

    def brk():
        out.extend(rnd.choice([[10], [10], [13, 10], [13]]))
        st['num'] = False
    for it in items:
        if it[0] == 'line':
            for _, v in it[1]:
                number(v)
        elif it[0] == 'sym':
            number(it[1])
            sep = rnd.choice([[it[2]], [it[2]], [10], [13, 10], [13], [9], [43], [45], [66]])
            if sep == [13] and not it[3]:
                sep = [13, 10]
            out.extend(sep)
            out.extend(it[3])
            brk()
        else:
            if rnd.random() < 0.5:
                out.extend(rnd.choice(WS))
            out.extend(it[1])
            if it[1] != b'E':
                brk()
            else:
                st['num'] = False
                if rnd.random() < 0.5:
                    out.extend(rnd.choice(WS))
    if rnd.random() < 0.5:
        out.extend(rnd.choice(WS))
    return out


def render(items, rnd, style):
    """style: 'lf' canonical, 'crlf', 'wild' (random whitespace between tokens, signs / leading zeros, rules spread over lines),
    'general' (render_general)"""
    if style == 'general':
        return render_general(items, rnd)
    nl = {'lf': [10], 'crlf': [13, 10]}.get(style)
    wild = style == 'wild'
    out = []

    def number(v):
        if wild:
            if out and out[-1] not in (10, 13):
                out.extend(rnd.choice([[32], [32], [32, 32], [9], [10], [13, 10], [32, 10, 32], [13], [11], [12]]))
            elif out and rnd.random() < 0.3:
                out.extend(rnd.choice([[32], [10], [9, 32]]))
            if rnd.random() < 0.1:
                out.extend(rnd.choice([b'0', b'00', b'+', b'+0']))
        out.extend(str(v).encode())
    for it in items:
        e = nl or rnd.choice([[10], [13, 10], [10], [13]])
        if it[0] == 'line':
            for j, (_, v) in enumerate(it[1]):
                if j and not wild:
                    out.append(32)
                number(v)
            if not wild or rnd.random() < 0.7:
                out.extend(e)
        elif it[0] == 'sym':
            number(it[1])
            out.append(it[2])
            out.extend(it[3])
            out.extend(e)
        else:
            if wild and rnd.random() < 0.3:
                out.append(32)
            out.extend(it[1])
            if it[1] != b'E' or not wild or rnd.random() < 0.7:
                out.extend(e)
    return out


def numeric_positions(items):
    pos = []
    for i, it in enumerate(items):
        if it[0] == 'line':
            for j in range(len(it[1])):
                pos.append((i, j))
        elif it[0] == 'sym':
            pos.append((i, -1))
    return pos


def set_num(items, p, v):
    items = list(items)
    i, j = p
    if j < 0:
        it = items[i]
        items[i] = ('sym', v, it[2], it[3])
    else:
        l = list(items[i][1])
        l[j] = ('n', v)
        items[i] = ('line', l)
    return items


def r_items(rnd, ext, inc=None):
    if inc is None:
        inc = ext and rnd.random() < 0.35
    steps = rnd.choice([1, 2, 3]) if inc else 1
    items = []
    for k in range(steps):
        items += r_step(rnd, ext, first_inc=(inc and k == 0))
    return items


FIXED = [
    # the probed defects (repaired in /repo) and their neighbours
    (b'5 1 1 1 0 2 4294967295\n0\n0\nB+\n0\nB-\n0\n1\n', 0, 'fix-weight'),
    (b'5 1 1 1 0 2 2147483648\n0\n0\nB+\n0\nB-\n0\n1\n', 0, 'fix-weight'),
    (b'5 1 1 1 0 2 2147483647\n0\n0\nB+\n0\nB-\n0\n1\n', 0, 'fix-weight'),
    (b'5 1 4294967295 1 0 2 1\n0\n0\nB+\n0\nB-\n0\n1\n', 0, 'fix-bound'),
    (b'2 1 1 0 4294967295 2\n0\n0\nB+\n0\nB-\n0\n1\n', 0, 'fix-bound'),
    (b'2 1 1 0 2147483647 2\n0\n0\nB+\n0\nB-\n0\n1\n', 0, 'fix-bound'),
    (b'6 4294967295 1 0 2 1\n0\n0\nB+\n0\nB-\n0\n1\n', 0, 'fix-bound'),
    (b'0\n4294967295 a\n0\nB+\n0\nB-\n0\n1\n', 0, 'fix-symatom'),
    (b'0\n2147483648 a\n0\nB+\n0\nB-\n0\n1\n', 0, 'fix-symatom'),
    (b'0\n0\nB+\n4294967295\n0\nB-\n0\n1\n', 0, 'fix-compute'),
    (b'0\n0\nB+\n2147483648\n0\nB-\n0\n1\n', 0, 'fix-compute'),
    (b'0\n0\nB+\n0\nB-\n4294967295\n0\n1\n', 0, 'fix-compute'),
    (b'0\n0\nB+\n0\nB-\n0\nE\n4294967295\n0\n1\n', 0, 'fix-external'),
    (b'0\n0\nB+\n0\nB-\n0\nE\n2147483647\n0\n1\n', 0, 'fix-external'),
    (b'1 1 1 5 2\n0\n0\nB+\n0\nB-\n0\n1\n', 0, 'fix-neg'),
    (b'2 1 1 2 0 2\n0\n0\nB+\n0\nB-\n0\n1\n', 0, 'fix-neg'),
    (b'5 1 0 1 2 2 1\n0\n0\nB+\n0\nB-\n0\n1\n', 0, 'fix-neg'),
    (b'3 1 1 1 2 2\n0\n0\nB+\n0\nB-\n0\n1\n', 0, 'fix-neg'),
    (b'91 3 1\n0\n0\nB+\n0\nB-\n0\n1\n', 1, 'ext'), (b'91 3 1\n0\n0\nB+\n0\nB-\n0\n1\n', 0, 'ext'),
    (b'1 1 0 0\n91 3 1\n0\n0\nB+\n0\nB-\n0\n1\n', 0, 'ext'), (b'1 1 0 0\n92 3\n0\n0\nB+\n0\nB-\n0\n1\n', 0, 'ext'),
    (b'1 1 0 0\n90 0\n0\n0\nB+\n0\nB-\n0\n1\n', 0, 'ext'), (b'1 1 0 0\n90 1\n0\n0\nB+\n0\nB-\n0\n1\n', 1, 'ext'),
    (b'1 1 0 0\n91 3 3\n0\n0\nB+\n0\nB-\n0\n1\n', 1, 'ext'),
    (b'90 0\n1 1 0 0\n0\n0\nB+\n0\nB-\n0\n1\n90 0\n1 2 1 0 1\n0\n2 b\n0\nB+\n0\nB-\n0\n1\n', 1, 'ext'),
    (b'1 1 0 0\n0\n0\nB+\n0\nB-\n0\n1\n1 2 0 0\n0\n0\nB+\n0\nB-\n0\n1\n', 1, 'ext'),
    (b' 1 1 0 0\n0\n0\nB+\n0\nB-\n0\n1\n', 0, 'probe'), (b'', 0, 'probe'), (b'+1 1 0 0\n0\n0\nB+\n0\nB-\n0\n1\n', 0, 'probe'),
    (b'1 +1 -0 0\n0\n0\nB+\n0\nB-\n0\n1\n', 0, 'sign'), (b'1 1 0 0\n0\n2xabc\n0\nB+\n0\nB-\n0\n1\n', 0, 'sep'),
    (b'1 1 0 0\n0\n0\nB+\n0\nB-\n0\n1\n 5', 0, 'extra'), (b'1 1 0 0\n0\n0\nB+\n0\nB-\n0\n4294967296\n', 0, 'models'),
    (b'1 1 0 0\n0\n0\nB+ \n0\nB-\n0\n1\n', 0, 'kw'), (b'1 1 0 0\n0\n0\nB-\n0\nB+\n0\n1\n', 0, 'kw'), (b'1 1 0 0\n0\n2 a', 0, 'trunc'),
    (b'1 1 0 0 0 0B+\r\n0B-\r0E 0 1', 0, 'tight'),
    # input after the number of models: a further well-formed step / garbage, behind a non-incremental and behind an incremental program
    (b'1 1 0 0\n0\n0\nB+\n0\nB-\n0\n1\n1 2 0 0\n0\n2 b\n0\nB+\n0\nB-\n0\n1\n', 0, 'extra'),
    (b'1 1 0 0\n0\n0\nB+\n0\nB-\n0\n1\n0\n0\nB+\n0\nB-\n0\n1\n', 1, 'extra'), (b'1 1 0 0\n0\n0\nB+\n0\nB-\n0\n1\nx', 0, 'extra'),
    (b'1 1 0 0\n0\n0\nB+\n0\nB-\n0\n1\n0', 1, 'extra'), (b'0\n0\nB+\n0\nB-\n0\n1 \n\t\r\n', 0, 'extra'), (b'0\n0\nB+\n0\nB-\n0\n1\n90 0\n0\n0\nB+\n0\nB-\n0\n1\n', 1, 'extra'),
    (b'90 0\n0\n0\nB+\n0\nB-\n0\n1\n1 1 0 0\n0\n0\nB+\n0\nB-\n0\n1\nx', 1, 'extra'), (b'90 0\n0\n0\nB+\n0\nB-\n0\n1\n0\n0\nB+\n0\nB-\n0\n1\n', 1, 'extra'),
    (b'91 1 0\n0\n0\nB+\n0\nB-\n0\n1\n1 1 0 0\n0\n0\nB+\n0\nB-\n0\n1\n', 1, 'extra'),
]
EXTRA_GARBAGE = [b'x', b'0', b'1', b'9', b'5 ', b'B+', b'B-\n', b'E', b'-', b'+', b'\x01', b'\xff', b'0\n', b'0\n0\n', b'0\n0\nB+\n0\nB-\n0\n',
                 b'1 1 0 0', b'90 0\n', b'a b c', b'4294967296', b'-1\n']


# the reader's atom limit (setMaxVar): one text per position that is read with the member matchAtom (bounded by maxVar) and per position
# that is read with matchPos(atomMax) (NOT bounded by maxVar); every text is run with maxVar = a-1, a, a+1 for its marked atom a (and a few others)
TAILS = b'0\n0\nB+\n0\nB-\n0\n1\n'
MAXVAR_FIXED = [
    (b'1 2 1 0 5\n' + TAILS, 0, 5, 'body-pos'), (b'1 2 1 1 5\n' + TAILS, 0, 5, 'body-neg'), (b'1 2 3 1 1 5 2\n' + TAILS, 0, 5, 'body-mid'),
    (b'1 5 0 0\n' + TAILS, 0, 5, 'head'), (b'3 2 1 5 0 0\n' + TAILS, 0, 5, 'choice-head'), (b'8 2 5 1 0 0\n' + TAILS, 0, 5, 'disj-head'),
    (b'3 1 2 1 0 5\n' + TAILS, 0, 5, 'choice-body'), (b'8 2 1 2 2 1 5 3\n' + TAILS, 0, 5, 'disj-body'),
    (b'3 5 1 1 1 1 1 0 0\n' + TAILS, 0, 5, 'head-count'), (b'8 3 1 1 1 0 0\n' + TAILS, 0, 3, 'head-count'),
    (b'2 1 2 1 1 5 2\n' + TAILS, 0, 5, 'card-body'), (b'5 1 1 2 0 2 5 1 1\n' + TAILS, 0, 5, 'weight-body'), (b'6 0 1 1 5 3\n' + TAILS, 0, 5, 'min-body'),
    (b'2 5 0 0 0\n' + TAILS, 0, 5, 'card-head'), (b'5 5 0 0 0\n' + TAILS, 0, 5, 'weight-head'),
    (b'91 5 1\n' + TAILS, 1, 5, 'assign-ext'), (b'92 5\n' + TAILS, 1, 5, 'release-ext'), (b'90 0\n1 1 1 0 5\n' + TAILS + b'1 1 1 1 5\n' + TAILS, 1, 5, 'second-step'),
    (b'0\n5 a\n0\nB+\n0\nB-\n0\n1\n', 0, 5, 'symbol-atom-not-limited'), (b'0\n0\nB+\n5\n0\nB-\n0\n1\n', 0, 5, 'compute-atom-not-limited'),
    (b'0\n0\nB+\n0\nB-\n5\n0\n1\n', 0, 5, 'compute-atom-not-limited'), (b'0\n0\nB+\n0\nB-\n0\nE\n5\n0\n1\n', 0, 5, 'external-section-atom-not-limited'),
    (b'1 1 2 1 2147483647 2147483646\n' + TAILS, 0, 2147483647, 'body-top'), (b'1 2147483646 1 0 2147483646\n' + TAILS, 0, 2147483646, 'body-top'),
    (b'1 1 1 0 4294967301\n' + TAILS, 0, 5, 'body-wrapped-32'), (b'1 1 1 0 18446744073709551621\n' + TAILS, 0, 5, 'body-wrapped-64'),
]


def pick_max_var(rnd, items):
    """a setMaxVar argument aimed at the atoms the text uses: just below / at / just above one of its numbers, a small value, the top of the range"""
    vals = sorted({v for it in items if it[0] == 'line' for _, v in it[1] if 1 <= v <= INT_MAX} | {it[1] for it in items if it[0] == 'sym' and 1 <= it[1] <= INT_MAX})
    r = rnd.random()
    if vals and r < 0.55:
        a = vals[-1] if rnd.random() < 0.6 else rnd.choice(vals)
        mv = a + rnd.choice([-1, -1, 0, 0, 1])
    elif r < 0.8:
        mv = rnd.randint(1, 8)
    elif r < 0.9:
        mv = rnd.choice([INT_MAX - 1, INT_MAX, INT_MAX - 1, 65536, 4096])
    else:
        mv = -1   # setMaxVar(0)
    if mv == 0:
        mv = -1
    return mv if -1 <= mv <= INT_MAX else INT_MAX


SYM_NAMES = [b'a', b'b', b'', b'p(1)', b'x y', b'_x', b'_heuristic', b'heuristic(a,sign,1,0)', b'q("a,b")']


def r_items_symtab(rnd, ext, inc):
    """r_items with symbol tables over a FEW names and atoms: one name for two atoms, the same (atom, name) line twice - within one table
    and, in incremental texts, again in the table of a later step"""
    names = rnd.sample(SYM_NAMES, rnd.choice([1, 2, 2, 3]))
    atoms = rnd.sample([1, 2, 3, 5, 4097, INT_MAX], rnd.choice([1, 2, 2, 3]))
    items = []
    for k in range(rnd.choice([2, 2, 3]) if inc else 1):
        st = r_step(rnd, ext, first_inc=(inc and k == 0))
        first = next(i for i, it in enumerate(st) if it == ('line', [('n', 0)]))
        st = [it for it in st if it[0] != 'sym']
        syms = [('sym', rnd.choice(atoms), 32, rnd.choice(names)) for _ in range(rnd.choice([1, 2, 3, 4, 6]))]
        items += st[:first + 1] + syms + st[first + 1:]
    return items


FIXED_SYMTAB = [
    (b'1 2 0 0\n0\n2 a\n3 a\n0\nB+\n0\nB-\n0\n1\n', 0, 'two-atoms-one-name'),
    (b'1 2 0 0\n0\n2 a\n3 b\n2 a\n0\nB+\n0\nB-\n0\n1\n', 0, 'same-line-twice'),
    (b'90 0\n3 2 2 3 0 0\n0\n2 a\n3 b\n0\nB+\n0\nB-\n0\n1\n90 0\n1 4 1 0 2\n0\n2 a\n4 c\n4 a\n0\nB+\n0\nB-\n0\n1\n', 1, 'later-step'),
    (b'90 0\n0\n2 a\n0\nB+\n0\nB-\n0\n1\n0\n2 a\n0\nB+\n0\nB-\n0\n1\n0\n2 a\n2 a\n0\nB+\n0\nB-\n0\n1\n', 1, 'three-steps'),
]


def symtab_cases(seed, tier):
    """reader option convertHeuristic (option bit 2) on texts without `_heuristic(`: invisible (harness/h_c07.cpp, coq/C07/Run.v). Own RNG."""
    rnd = random.Random(seed * 1000003 + 71)
    out = []

    def add(data, ob, kind):
        data = [b for b in data if b != 0]
        if b'_heuristic(' in bytes(data):
            return
        out.append((mk(rnd.choice(SIZES), ob, data), {'kind': kind + ('-stepwise' if ob & 16 else '')}))
    for t, ob, kind in FIXED_SYMTAB:
        for o2 in (ob | 4, ob | 4 | 8, ob | 4 | 16, ob | 1 | 4, ob):
            add(list(t), o2, 'fixed-symtab-' + kind)
            add(list(t.replace(b'\n', b'\r\n')), o2, 'fixed-symtab-' + kind + '-crlf')
    for _ in range({'quick': 500, 'thorough': 12000, 'search': 800}.get(tier, 500)):
        ext = rnd.random() < 0.65
        ob = (1 if ext else 0) | (4 if rnd.random() < 0.85 else 0) | (8 if rnd.random() < 0.3 else 0) | (16 if rnd.random() < 0.4 else 0)
        style = rnd.choice(['lf', 'lf', 'crlf', 'wild', 'general'])
        r = rnd.random()
        if r < 0.3:
            # the ordinary programs (random names) with the option
            add(render(r_items(rnd, ext), rnd, style), ob | 4, 'heuopt-valid-' + style)
            continue
        inc = ext and rnd.random() < 0.7
        d = render(r_items_symtab(rnd, ext, inc), rnd, style)
        if r < 0.85:
            add(d, ob, 'symtab-repeats-' + ('inc' if inc else 'plain'))
        elif r < 0.93:
            add(d[:rnd.randrange(len(d) + 1)], ob, 'symtab-repeats-truncated')
        else:
            add(d + list(rnd.choice(EXTRA_GARBAGE)), ob, 'symtab-repeats-extra')
    return out


def gen(seed, tier):
    rnd = random.Random(seed * 1000003 + 7)
    total = {'quick': 3400, 'thorough': 130000, 'search': 6000}.get(tier, 3400)
    out = []

    def add(data, ob, kind, n=None, mv=0):
        if 0 in data:
            data = [b for b in data if b != 0]
        out.append((mk(n or rnd.choice(SIZES), ob, data, mv), {'kind': kind + ('-stepwise' if ob & 16 else '') + ('-maxvar' if mv else '')}))
    for t, ob, a, kind in MAXVAR_FIXED:
        # field values: 0 = setMaxVar not called, -1 = setMaxVar(0)
        for mvf in sorted({(a - 1) or -1, a, min(a + 1, INT_MAX), 1, INT_MAX - 1, INT_MAX, -1, 0}):
            add(list(t), ob, 'fixed-maxvar-' + kind, SIZES[(a + mvf) % 3], mvf)
            if mvf in ((a - 1) or -1, a):
                add(list(t), ob | 16, 'fixed-maxvar-' + kind, SIZES[(a + mvf + 1) % 3], mvf)
                add(list(t.replace(b'\n', b'\r\n')), ob | 8, 'fixed-maxvar-' + kind + '-crlf', SIZES[(a + mvf + 2) % 3], mvf)
    for t, ob, kind in FIXED:
        for n in SIZES:
            add(list(t), ob, 'fixed-' + kind, n)
            add(list(t), ob | 16, 'fixed-' + kind, n)
            if kind.startswith('fix-') or kind == 'ext':
                add(list(t.replace(b'\n', b'\r\n')), ob | (8 if n == 16 else 0), 'fixed-' + kind + '-crlf', n)
            if kind == 'extra':
                for o2 in (ob ^ 1, ob | 8):
                    add(list(t), o2, 'fixed-' + kind, n)
                    add(list(t), o2 | 16, 'fixed-' + kind, n)
    while len(out) < total:
        ext = rnd.random() < 0.5
        # bit 4: the caller's step-wise loop instead of parse(Complete), see harness/h_c07.cpp
        ob = (1 if ext else 0) | (8 if rnd.random() < 0.3 else 0) | (16 if rnd.random() < 0.45 else 0)
        gen_ext = ext if rnd.random() < 0.85 else not ext   # sometimes extension rules without the option
        if rnd.random() < 0.14:
            # input behind the number of models: a further well-formed step / garbage / white space, behind a non-incremental program
            # (first byte not '9': "invalid extra input") and behind an incremental one (a further step is read)
            inc = gen_ext and rnd.random() < 0.4
            style = rnd.choice(['lf', 'lf', 'crlf', 'wild', 'general'])
            d = render(r_items(rnd, gen_ext, inc), rnd, style)
            k = rnd.random()
            if k < 0.45:
                for _ in range(rnd.choice([1, 1, 2])):
                    if d and d[-1] not in (10, 13, 32, 9):
                        d = d + rnd.choice([[10], [32], [13, 10]])
                    d = d + render(r_step(rnd, gen_ext), rnd, style)
                add(d, ob, 'extra-step-' + ('inc' if inc else 'noninc'))
            elif k < 0.9:
                if rnd.random() < 0.7 or (d and d[-1] not in (10, 13, 32, 9)):
                    d = d + rnd.choice([[10], [32], [13, 10], [9], [10, 10, 32]])
                add(d + list(rnd.choice(EXTRA_GARBAGE)), ob, 'extra-garbage-' + ('inc' if inc else 'noninc'))
            else:
                add(d + [rnd.choice([10, 32, 9, 13, 11, 12]) for _ in range(rnd.randint(1, 40))], ob, 'extra-whitespace')
            continue
        items = r_items(rnd, gen_ext)
        style = rnd.choice(['lf', 'lf', 'crlf', 'wild', 'general'])
        r = rnd.random()
        # the reader's atom limit: ~40 % of the cases configure one (setMaxVar) around the atoms of the text
        mv = pick_max_var(rnd, items) if rnd.random() < 0.4 else 0
        if r < 0.35:
            add(render(items, rnd, style), ob, 'valid-' + style, mv=mv)
        elif r < 0.65:
            pos = numeric_positions(items)
            p = rnd.choice(pos)
            v = rnd.choice(BIG) if rnd.random() < 0.8 else rnd.choice([2 ** 64 + rnd.randint(0, 9), rnd.randint(2 ** 31, 2 ** 33), 7, 0, 4, 9, 90, 93])
            if mv > 0 and rnd.random() < 0.5:
                v = mv + rnd.choice([1, 1, 2, 2 ** 32, 2 ** 64])   # a number just above the limit / congruent to an allowed one
            add(render(set_num(items, p, v), rnd, style), ob, 'fault-number-' + style, mv=mv)
        elif r < 0.72:
            # neg > len : find a rule line and bump its neg field
            cand = [i for i, it in enumerate(items) if it[0] == 'line' and it[1][0][1] in KNOWN_TYPES and len(it[1]) > 3]
            if cand:
                i = rnd.choice(cand)
                l = [v for _, v in items[i][1]]
                rt = l[0]
                k = {1: 3, 2: 3, 5: 4, 6: 3}.get(rt, 2 + l[1] + 1 if rt in (3, 8) else 3)
                if k < len(l):
                    l[k] = l[k - 1] + rnd.choice([1, 1, 2, 5, UINT_MAX])
                    items = list(items)
                    items[i] = ('line', [('n', v) for v in l])
            add(render(items, rnd, style), ob, 'fault-neg-gt-len', mv=mv)
        elif r < 0.80:
            # structural fault: drop / duplicate / swap an item
            items = list(items)
            i = rnd.randrange(len(items))
            k = rnd.random()
            if k < 0.5:
                del items[i]
            elif k < 0.75:
                items.insert(i, items[i])
            else:
                j = rnd.randrange(len(items))
                items[i], items[j] = items[j], items[i]
            add(render(items, rnd, style), ob, 'fault-structure', mv=mv)
        elif r < 0.88:
            d = render(items, rnd, style)
            add(d[:rnd.randrange(len(d) + 1)], ob, 'fault-truncated', mv=mv)
        elif r < 0.94:
            d = render(items, rnd, style)
            for _ in range(rnd.choice([1, 1, 2, 3])):
                if d:
                    i = rnd.randrange(len(d))
                    k = rnd.random()
                    if k < 0.4:
                        d[i] = rnd.choice([32, 10, 48, 57, 45, 43, 66, 69, 13, 120, 255])
                    elif k < 0.7:
                        del d[i]
                    else:
                        d.insert(i, rnd.choice([32, 10, 48, 57, 45, 43, 66, 13]))
            add(d, ob, 'fault-byte', mv=mv)
        else:
            toks = [rnd.choice(['0', '1', '2', '3', '5', '6', '8', '90', '91', '92', 'B+', 'B-', 'E', 'a', '4294967295', '2147483648', '-1', '\n', '\r\n', ' '])
                    for _ in range(rnd.randint(1, 30))]
            add(list(' '.join(toks).encode()), ob, 'soup')
    return out + symtab_cases(seed, tier)


def shrink(case, fails):
    n, ob, data = decode(case)
    data = list(data)
    mvf = max_var_field(case)

    def mk(n, ob, data):   # keeps the reader's atom limit
        return globals()['mk'](n, ob, data, mvf)
    if mvf and fails(globals()['mk'](n, ob, data, 0)):
        mvf = 0            # the limit is not needed for the failure
    changed = True
    while changed:
        changed = False
        # whole lines first, then single bytes
        lines, cur = [], []
        for b in data:
            cur.append(b)
            if b == 10:
                lines.append(cur)
                cur = []
        if cur:
            lines.append(cur)
        for i in range(len(lines) - 1, -1, -1):
            t = [b for l in lines[:i] + lines[i + 1:] for b in l]
            if fails(mk(n, ob, t)):
                data, changed = t, True
                break
        if changed:
            continue
        for i in range(len(data) - 1, -1, -1):
            t = data[:i] + data[i + 1:]
            if fails(mk(n, ob, t)):
                data, changed = t, True
                break
    return mk(n, ob, data)


def mutate(case, rnd):
    n, ob, data = decode(case)
    res = []
    for _ in range(20):
        d = list(data)
        if d:
            i = rnd.randrange(len(d))
            d[i:i + 1] = list(str(rnd.choice(BIG)).encode()) if rnd.random() < 0.5 else [rnd.choice([48, 49, 57, 32, 10])]
        res.append(mk(n, ob ^ rnd.choice([0, 0, 1]), d, rnd.choice([max_var_field(case), 0, rnd.randint(1, 8), -1])))
    return res


RULE = ('cases = (buffer size N in {4096,16,32}, options claspExt x filter (x convertHeuristic on texts without `_heuristic(`, where it must be invisible: symbol tables that use one name for two atoms and repeat (atom, name) lines within a table and in later steps of incremental texts), caller = readSmodels (parse(Complete)) or the step-wise API '
        '(accept; parse(Incremental); while more(): parse(Incremental)), the reader\'s atom limit (none, or setMaxVar(n) before reading: n just below / at / '
        'just above the numbers of the text, 1..8, 2^31-2, 2^31-1, 0; fixed texts for every limited and every unlimited position), NUL-free text); texts are rendered from random well-formed '
        '(optionally clasp-extended, optionally multi-step) smodels programs in LF / CRLF / wild-whitespace / general layout and then left valid or '
        'given one fault (a numeric position set to 2^31, 2^32-1, 2^32, 2^63, 2^64+k, ...; neg > len; dropped/duplicated/swapped item; '
        'truncation; byte edits; token soup), or followed by input behind the number-of-models field (further well-formed steps, garbage tokens, white '
        'space; behind non-incremental and incremental programs, with and without claspExt); every other case (hash of the case) is read by a reader '
        'OBJECT that before read or REFUSED one of 9 (13 with claspExt) primer texts (harness/reuse.h: accepted plain / incremental, with symbol '
        'tables; refused inside the rules, inside / after the symbol table, inside the compute statement, in the trailer, in a second step, as extra input); '
        'non-trivial = more than init/begin/end delivered or the text was rejected; distinct = distinct case tuples')
TRUSTED_BASE = ['coq/C09/Spec.v abstract stream (refinement of BufferedStream is C09\'s obligation)',
                'RuleBuilder modelled abstractly (collects head/body lists and delivers them unchanged)',
                'props/C07.py reference reader (oracle on the implementation)']
ASSUMPTIONS = ['Options.cEdge = false, and Options.cHeuristic = false unless the text contains no `_heuristic(` (conversion of special predicates is C08; without a heuristic predicate the option converts nothing and is invisible: coq/C07/Run.v ignores it)',
               'NUL-free input; setMaxVar(n) only with n <= 2^31-1 (beyond that lit() would cast unchecked: outside the domain, answered -3); the limit bounds rule atoms and the head count of '
               'choice / disjunctive rules - symbol-table, compute and E-section atoms are bounded by 2^31-1 whatever the limit (src/smodels.cpp as it is; the four deviations from the literal '
               'property text are known findings maxvar-symbol-table / -compute / -external-section / -head-count, reported under their own oracle signatures)',
               'well-formed = coq/C07/SpecG.v: text starts with a digit (format probe), numbers may carry a sign / leading zeros, the byte after a symbol-table atom is a separator unless it is a digit or NUL, '
               'B+/B- directly followed by a line break, the first field of an optimize rule is an ignored value in 0..2^31-1, number of models in 0..2^32-1']
LEVEL_TEXT = ('Machine-checked proofs (Coq) about an executable model of SmodelsInput over the abstract byte stream. EXACTNESS for arbitrary byte lists '
              '(c07_exact): a text is accepted iff it is the rendering of a well-formed, in-range program of the general description coq/C07/SpecG.v '
              '(number tokens with any whitespace incl. CR/CRLF, optional +, -0, leading zeros, sign-separated numbers; symbol lines with any non-digit non-NUL '
              'separator and arbitrary name bytes up to the line break; B+/B-/E keywords; number of models; clasp-extension rules and steps; trailing bytes); '
              'soundness (c07_sound: accepted => such a program exists and the delivered calls are its denotation), completeness (c07_gcomplete), '
              'denotation independent of the reading (c07_denotes), everything else gives an error (c07_rejects_exact). For the writers\' layout additionally: '
              'out-of-range weights, bounds, atoms, neg > len and ungated extension rules give an error whatever the magnitude (c07_rejects and instances). '
              'For EVERY byte list: the delivered calls respect the consumer contract (minimize priority bounded by the input length), '
              'an accepted input leaves no step open, no model loop runs out of fuel, and a reported line lies within 1 .. 1 + line breaks. '
              'All of this for every atom limit vm <= 2^31-1 set with ProgramReader::setMaxVar (model read_smodels_v vm; c07_maxvar_complete / _rejects / _sound / _gcomplete / _exact / _denotes / '
              '_rejects_exact / _only_removes / _delivered / _contract / _total): in range then means rule atoms and head counts within 1..vm; the statements without a limit are the instance '
              'vm = 2^31-1 by conversion (c07_default_is_instance). The literal reading of the property (limit on every atom, on no count) is refuted on four shapes '
              '(c07_maxvar_symbol_atom_refuted, c07_maxvar_compute_atom_refuted, c07_maxvar_external_atom_refuted, c07_maxvar_head_count_refuted; known findings). '
              'The model is tied to the code by differential correspondence at BUF_SIZE 4096/16/32 (incl. general-layout texts; also with the reader option convertHeuristic on texts without a heuristic predicate, where the option routes every symbol through the reader\'s private name table and must be invisible) and an independent python reference reader.')
LEVEL_NOTE = 'Trusted: Coq kernel, extraction+driver (sample cross-checked by vm_compute), harness, translator, abstract stream spec (C09).'
TECHNIQUE = 'Coq proof about an executable model + differential correspondence with the implementation'
DESIGN_REF = 'DESIGN.md section 5, C07'
READY = True
