"""C15 - first-source-wins assignment, defaults last.   Case layout: see coq/C15/Model.v (run_case) / harness/h_c15.cpp.

The oracle is an independent python reading of the property text: per source it computes which pairs are
ignored (excluded or already parsed non-composing options), the first duplicate / refused pair, which options
receive a value, and from that the expected exception, count(), state() and bound variable contents.  It does not
use the state machine (value states + scope guard) of the code or of the Coq model.
"""
import random, re

PID = 'C15'
HARNESS = 'h_c15'
MODEL_MODULE = 'V.C15.Model'
READY = True
RULE = ('cases = (1..6 options over kinds {flag store_true, flag store_false, int, string, vector<int>, ValueMap int, custom notifier, ValueMap flag store_true, ValueMap flag store_false, ValueMap vector<int>, '
        'typed notifier notify<T>(ctx, fn, parser) / flag(ctx, fn, action) with a logging context whose fn DECLINES ownership (returns false) for int / string / flag / vector<int> / flag store_false, '
        'KEEPS (returns true) for int / string / flag / vector<int>, keeps even and declines odd ints} '
        'x composing x implicit x default(valid/invalid), 1..5 operations over assign(source of 0..7 (option,value) pairs with duplicates '
        'and refused strings at every position, optional exclude set) / assignDefaults / fresh ParsedOptions / ParsedOptions::add(name) for own and FOREIGN names / '
        'assign of a source of a SECOND context (6 string options) on the same ParsedOptions object; 30 % of the cases hand assignDefaults a set with foreign names whose total size is '
        'below / equal / above the number of options of the context while options are unmentioned; 25 % of the cases are 2..4 RUNS over the same targets: op NEW RUN destroys the option '
        'group / context / Value objects and builds them again from the same descriptors with a fresh ParsedOptions, while the bound variables, the ValueMap and the notifier log '
        'survive; each run = 0..3 sources + mostly assignDefaults, values drawn anew per run, mapped kinds favoured; 20 % of the cases put a DECLINING typed notifier with a default first, mentioned by '
        'the first source of a run and again by later sources, over 1..3 runs, next to keeping / custom / plain options); observation of a typed notifier = objects made / deleted by the library / deleted by the '
        'context / held object / every delivered value in order; 18 % of the cases fill their sources pair by pair through the option pointer or BY NAME (op 7, '
        'ParsedValues::add(name, value)) with keys that are exact names, strict prefixes of one or several names, extensions, alias characters / alias keys "-a", names followed by a NUL byte, '
        'other spellings, unknown keys and the empty key - option names are limit (alias l), level, length, lim (alias m), o4, o5 - followed by sources that name the options exactly and by assignDefaults; '
        'non-trivial = at least one assign op with >= 1 pair; distinct = distinct case tuples')
TRUSTED_BASE = ['typed parsers (string_cast<int/bool/vector<int>>) are abstract in the theorems; their concrete model used for the '
                'correspondence covers the decimal sublanguage only (C16 covers conversions)',
                'props/C15.py reference semantics (oracle on the implementation)']
ASSUMPTIONS = ['value / implicit / default strings are NUL-free (by-name KEYS may hold NUL bytes: the key ends there)', 'the keys of a context (long names, alias keys) are pairwise different - OptionContext::insertOption refuses anything else; checked for the names of the harness in c15_ex_by_name', 'a new run re-builds the option set from the SAME descriptors and starts with a fresh ParsedOptions', 'numeric strings in generated cases are decimal (no 0x / leading-0 octal / imax keywords / brackets)',
               'between two assign calls no value is in state value_fixed (holds initially and is re-established by every assign: c15_recorded)']
ALLOWED_AXIOMS = []
TECHNIQUE = 'Coq proof about an executable model of Value::parse / ParsedOptions::assign / assignDefaults + differential correspondence'
DESIGN_REF = 'DESIGN.md section 5, C15'
LEVEL_TEXT = ('Machine-checked proofs (Coq) over the model of ParsedOptions::assign (value states, scope guard run on the exception path) and '
              'assignDefaults, generic in the option set, the per-option parser, the sources, the exclude sets and the parsed set (assignDefaults depends on it only through the membership '
              'of the context\'s own option names - foreign names and the size of the set are irrelevant: c15_defaults_own_names_only, c15_defaults_foreign_names, c15_defaults_reported_iff); '
              'several runs over the same targets with the option set re-built for every run (fresh value states, surviving variables / ValueMap): after every run each option that received a '
              'value in that run holds store(the parser results of that run) applied to the re-built variable, unmentioned options their default or what earlier runs left '
              '(c15_run_values, c15_runs), and for every target an accepted value replaces - all typed scalars, all mapped values - nothing of the earlier runs survives '
              '(c15_run_independent_of_earlier_runs); typed notified values (NotifiedValue<T>::doParse): the notification function is called exactly once per accepted occurrence with the parsed object and its '
              'answer only selects who owns the object - errors, recorded names, states, accepted values, first-source-wins and defaults are the same for any two answer functions '
              '(c15_notifier_answer_selects_ownership_only, c15_notifier_called_once_per_accepted_value, c15_notified_objects_accounted, c15_declined_value_is_accepted), whereas for the untyped custom value the '
              'callback\'s answer is the validity (c15_custom_answer_is_validity); a pair added to a source BY NAME denotes a pair of the source iff its key (as a C string) equals a key of the '
              'context\'s index - a long name or "-a" for an alias character - and any other key (strict prefix, extension, unknown, empty) vanishes from the source '
              '(c15_by_name_exact_only, c15_by_name_key_denotes, c15_by_name_other_keys_vanish); the model is tied to the code by '
              'differential correspondence against the real classes with twenty kinds of typed targets, and an independent python oracle.')
LEVEL_NOTE = ('Parsers are abstract in the proofs (any function string -> option value, plus what a refused string leaves in the variable, plus what re-building '
              'an option does to the model of its variable: nothing for a typed variable, "the entry is no longer the value\'s own object" for a mapped one). '
              'For typed notified values the object model (create / apply / leftover of a refused string) and the answer function are abstract as well; the harness\' notified context '
              '(copies every value into a log, deletes the object it held when handed a newer one) is part of the model of the variable. Plain bool objects of the flag kinds cannot be counted (ASan / LSan only).')

INT_MIN, INT_MAX = -2 ** 31, 2 ** 31 - 1
FLAGS = (0, 1, 7, 8)          # bool flags: bound to a bool& (0, 1) or stored in a ValueMap (7, 8)
STORE_TRUE = (0, 7)           # declared with store_true (the default action); 1 and 8 are declared with store_false
MAPPED = (5, 7, 8, 9)         # the value lives in the ValueMap (store<int>, flag, flag store_false, store<vector<int>>)
NKINDS = 20
# typed notifiers with a logging context (typed_value.h notify<T>(obj, fn, parser) / flag(obj, fn, action)): the function copies every delivered value
# into its log; its RETURN VALUE only selects who owns the created object: 10..13, 19 decline (false), 14..17 keep (true), 18 keeps even values
TNOTIF = tuple(range(10, 20))
BASE = {10: 2, 14: 2, 18: 2, 11: 3, 15: 3, 12: 0, 16: 0, 19: 1, 13: 4, 17: 4}      # element type, as the kind of the plain typed target
IMPLICIT_FLAGS = FLAGS + (12, 16, 19)


def base(kind):
    return BASE.get(kind, kind)


def keeps(kind, ob):
    """the answer of the notification function of the harness for the delivered object"""
    return 14 <= kind <= 17 or (kind == 18 and bool(ob) and ob[0] % 2 == 0)
BOOL_WORDS = [('1', 1), ('0', 0), ('no', 0), ('on', 1), ('yes', 1), ('off', 0), ('true', 1), ('false', 0)]


# ---------------------------------------------------------------- option names (harness/h_c15.cpp optName / optAlias; coq/C15/Model.v opt_name / opt_alias)
FIRST_NAMES = ['limit', 'level', 'length', 'lim']      # names in a prefix relation
ALIAS = {0: 'l', 3: 'm'}


def name(i):
    return FIRST_NAMES[i] if 0 <= i < len(FIRST_NAMES) else 'o%d' % i


def keys_of(i):
    """the keys under which a context's index holds option i: its long name and, with an alias character a, the key "-a" """
    return [name(i)] + (['-' + ALIAS[i]] if i in ALIAS else [])


def ckey(key):
    """the key as ParsedValues::add(name, value) sees it: name.c_str()"""
    k = [x & 255 for x in key]
    return k[:k.index(0)] if 0 in k else k


def resolve(n, key):
    """SPEC of the by-name overload: the pair belongs to the option whose name (or alias key) EQUALS the key; any other key names no option of
    the context and the pair is ignored"""
    k = bytes(ckey(key)).decode('latin-1')
    for i in range(n):
        if k in keys_of(i):
            return i
    return None


def denote(n, raw):
    out = []
    for r in raw:
        if r[0] == 'p':
            out.append((r[1], r[2]))
        else:
            i = resolve(n, r[1])
            if i is not None:
                out.append((i, r[2]))
    return out


def assign_n(n, ex, raw):
    """an assign op whose source was filled pair by pair through the option pointer ('p', id, value) or by name ('n', key, value):
    op[2] = the pairs the source holds according to the spec, op[3] = how it was filled"""
    return ('assign', ex, denote(n, raw), list(raw))


# ---------------------------------------------------------------- decoding
def decode(c):
    p = [0]

    def nx():
        v = c[p[0]] if p[0] < len(c) else 0
        p[0] += 1
        return v

    def st():
        n = nx()
        s = c[p[0]:p[0] + n]
        p[0] += n
        return list(s)

    def ost():
        return st() if nx() != 0 else None
    n = nx()
    opts = []
    for _ in range(n):
        kind = nx()
        comp = nx() != 0
        impl = ost()
        d = ost()
        if impl is not None and not impl:
            impl = [49]
        if impl is None and kind in IMPLICIT_FLAGS:
            impl = [49]
        opts.append({'kind': kind, 'comp': comp, 'impl': impl, 'dflt': d})
    ops = []
    while p[0] < len(c):
        o = nx()
        if o == 1:
            he = nx() != 0
            ex = None
            if he:
                ex = [nx() for _ in range(nx())]
            pairs = []
            for _ in range(nx()):
                i = nx()
                pairs.append((i, st()))
            ops.append(('assign', ex, pairs))
        elif o == 2:
            ops.append(('defaults',))
        elif o == 3:
            ops.append(('reset',))
        elif o == 4:
            ops.append(('add', [nx() for _ in range(nx())]))
        elif o == 5:
            pairs = []
            for _ in range(nx()):
                i = nx()
                pairs.append((i, st()))
            ops.append(('assign2', pairs))
        elif o == 6:
            ops.append(('newrun',))
        elif o == 7:
            he = nx() != 0
            ex = None
            if he:
                ex = [nx() for _ in range(nx())]
            raw = []
            for _ in range(nx()):
                if nx() != 0:
                    k = st()
                    raw.append(('n', k, st()))
                else:
                    i = nx()
                    raw.append(('p', i, st()))
            ops.append(assign_n(n, ex, raw))
        else:
            break
    return opts, ops


NFOREIGN = 6      # options o<n>..o<n+5> of the second context (harness/h_c15.cpp), plain strings


def s2t(b):
    return bytes(x & 255 for x in b).decode('latin-1')


KN = ['flag', 'flag!false', 'int', 'string', 'vector<int>', 'map<int>', 'custom', 'map<flag>', 'map<flag!false>', 'map<vector<int>>',
      'notify<int>:declines', 'notify<string>:declines', 'notify<flag>:declines', 'notify<vector<int>>:declines',
      'notify<int>:keeps', 'notify<string>:keeps', 'notify<flag>:keeps', 'notify<vector<int>>:keeps', 'notify<int>:keeps-even', 'notify<flag!false>:declines']


def describe(c):
    opts, ops = decode(c)
    od = ['%s:%s%s%s%s' % (name(i) + ('/-' + ALIAS[i] if i in ALIAS else ''), KN[o['kind']] if 0 <= o['kind'] < len(KN) else '?', '+composing' if o['comp'] else '',
                            '' if o['impl'] is None else ' implicit=%r' % s2t(o['impl']),
                            '' if o['dflt'] is None else ' default=%r' % s2t(o['dflt'])) for i, o in enumerate(opts)]
    pd = []
    for op in ops:
        if op[0] == 'assign' and len(op) > 3:
            pd.append('assign(%s%s)' % (', '.join('%s=%r' % (name(r[1]), s2t(r[2])) if r[0] == 'p' else 'BY-NAME[%r]=%r' % (s2t(r[1]), s2t(r[2]))
                                                  for r in op[3]),
                                        '' if op[1] is None else '; exclude=%s' % [name(x) for x in op[1]]))
        elif op[0] == 'assign':
            pd.append('assign(%s%s)' % (', '.join('%s=%r' % (name(i), s2t(v)) for i, v in op[2]),
                                        '' if op[1] is None else '; exclude=%s' % [name(x) for x in op[1]]))
        elif op[0] == 'add':
            pd.append('parsed.add(%s)' % ', '.join('"%s"%s' % (name(i), '' if i < len(opts) else '[foreign]') for i in op[1]))
        elif op[0] == 'assign2':
            pd.append('assign[second context](%s)' % ', '.join('%s=%r' % (name(i), s2t(v)) for i, v in op[1]))
        elif op[0] == 'newrun':
            pd.append('NEW RUN (option set re-built; variables and ValueMap kept)')
        else:
            pd.append(op[0])
    return '[%s] %s' % ('; '.join(od), ' -> '.join(pd))


# ---------------------------------------------------------------- reference parsers (python)
def scan_int(s):
    """parseSigned on decimal input: (value, rest) or None."""
    t = s2t(s)
    m = re.match(r'[\t\n\v\f\r ]*([+-]?)([0-9]+)', t)
    if not m:
        return None
    if re.match(r'0[0-7xX]', t):
        return 'unsupported'
    v = int(m.group(2))
    if m.group(1) == '-':
        v = -v
    if v < INT_MIN or v > INT_MAX:
        return None
    return v, s[m.end():]


def parse(kind, s):
    """-> (accepted value or None, dirty?)   dirty: the refused string may have changed the variable"""
    if kind in FLAGS:
        # store_true: empty -> true, else the bool keyword; store_false: the NEGATION of what store_true yields for the same string.
        # The same for a flag whose bool lives in a ValueMap (kinds 7, 8): the action given to the factory decides, not the storage.
        pos = kind in STORE_TRUE
        if not s:
            return [1 if pos else 0], False
        t = s2t(s)
        for w, b in BOOL_WORDS:
            if t.startswith(w):
                if len(t) == len(w):
                    return [b if pos else 1 - b], False
                return None, pos
        return None, False
    if kind in (2, 5):
        r = scan_int(s)
        if r == 'unsupported':
            return 'unsupported', True
        if r is None:
            return None, False
        if not r[1]:
            return [r[0]], False
        return None, True
    if kind == 3:
        return list(s), False
    if kind in (4, 9):
        out, rest = [], list(s)
        while True:
            r = scan_int(rest)
            if r == 'unsupported':
                return 'unsupported', True
            if r is None:
                break
            out.append(r[0])
            rest = r[1]
            if not rest or rest[0] != 44 or len(rest) < 2:
                break
            rest = rest[1:]
        if out and not rest:
            return out, False
        return None, bool(out)
    if s and s[0] == 33:
        return None, False
    return list(s), False


def scan_vec(s):
    """convert_seq<int> with ',' : (elements pushed, rest)"""
    out, rest = [], list(s)
    while True:
        r = scan_int(rest)
        if r == 'unsupported' or r is None:
            break
        out.append(r[0])
        rest = r[1]
        if not rest or rest[0] != 44 or len(rest) < 2:
            break
        rest = rest[1:]
    return out, rest


def leftover(b, s, ob):
    """what a REFUSED string leaves in an object of element type b that is parsed IN PLACE (a kept object of a typed notifier)"""
    if b == 2:
        r = scan_int(s)
        return [r[0]] if r not in (None, 'unsupported') else ob
    if b == 0:
        t = s2t(s)
        for w, v in BOOL_WORDS:
            if t.startswith(w):
                return [v]
        return ob
    if b == 4:
        return ob + scan_vec(s)[0]
    return ob


class TN(object):
    """reference reading of a typed notified value: what the context has seen / owns, and the bookkeeping of the created objects"""

    def __init__(self, kind):
        self.kind, self.b = kind, base(kind)
        self.loc, self.held, self.log, self.made, self.freed, self.cfreed = False, None, [], 0, 0, 0

    def fresh(self):
        return [0] if self.b in (0, 1, 2) else []

    def accepted(self, x):
        # the parser accepted the string: the option HAS its value, the function sees it exactly once; its answer decides ownership only
        if self.loc and self.held is not None:
            self.held = (self.held + x) if self.b == 4 else list(x)
            self.log.append(list(self.held))
            return
        pv = (self.fresh() + x) if self.b == 4 else list(x)
        self.made += 1
        self.log.append(list(pv))
        if keeps(self.kind, pv):
            if self.held is not None:
                self.cfreed += 1
            self.held, self.loc = pv, True
        else:
            self.freed += 1              # a declined object is deleted by the library - exactly once

    def refused(self, s):
        if self.loc and self.held is not None:
            self.held = leftover(self.b, s, self.held)
        else:
            self.made += 1
            self.freed += 1

    def view(self):
        cnt = [0, 0] if self.b in (0, 1) else [self.made, self.freed]
        out = cnt + [self.cfreed, 0 if self.held is None else 1, 0 if self.held is None else len(self.held)] + (self.held or [])
        for e in self.log:
            out += [len(e)] + e
        return out


def init_var(kind):
    return [0] if kind in (0, 1) else [-777] if kind == 2 else []     # mapped values (5, 7, 8) are absent until the first accepted value


def store(kind, x, var, owned=True):
    """what an accepted value does to the bound variable.  A typed vector / the notifier's log is appended to - also by a re-built option,
    the variable is the application's.  A MAPPED value is the object the option's current Value handed to the map: a Value that has not
    handed one over yet (first accepted string of a fresh Value - first run or any later run) parses into a NEW object, and that object
    becomes the entry whatever the map held under the name before (owned=False); afterwards the same Value parses in place."""
    if kind == 4:
        return var + x
    if kind == 6:
        return var + [len(x)] + x
    if kind == 9:
        return (var if owned else []) + x
    return list(x)


def oracle(c, obs):
    opts, ops = decode(c)
    if obs and obs[0] == -998:
        return ['harness:option-set-rejected']
    n = len(opts)
    parsed = set()
    state = [0] * n
    var = [init_var(o['kind']) for o in opts]
    dirty = [False] * n
    owned = [False] * n        # mapped kinds: the entry of the map is the object of the option's CURRENT Value (False again after a re-build)
    tn = [TN(o['kind']) if o['kind'] in TNOTIF else None for o in opts]    # typed notifiers: log / ownership / object bookkeeping
    runs = 0
    pos = [0]

    def take(k):
        v = obs[pos[0]:pos[0] + k]
        pos[0] += k
        return v

    def eff(i, v):
        return opts[i]['impl'] if (not v and opts[i]['impl'] is not None) else v
    for op in ops:
        exp_err = None
        if op[0] == 'reset':
            parsed = set()
            continue
        if op[0] == 'newrun':
            # the application builds its option set anew: nothing recorded, every value unassigned; the variables / the map keep their content
            parsed = set()
            state = [0] * n
            owned = [False] * n
            for t in tn:
                if t is not None:
                    t.loc = False         # the fresh Value has handed nothing over yet; the context keeps its object and its log
            runs += 1
            continue
        if op[0] == 'add':
            # names recorded by the caller: options of this context count as mentioned, any other name is just a name in the set
            parsed |= set(op[1])
            continue
        if op[0] == 'assign2':
            # a source of the SECOND context assigned to the same ParsedOptions object: its (non-composing string) options are recorded
            # under their names; they are no options of this context
            got = []
            for (i, v) in op[1]:
                if not (n <= i < n + NFOREIGN) or i in parsed:
                    continue
                if i in got:
                    exp_err = (1, i, v)
                    break
                got.append(i)
            parsed |= set(got)
        elif op[0] == 'assign':
            ex = set(op[1]) if op[1] is not None else set()
            got = []
            for (i, v) in op[2]:
                if i >= n:
                    continue
                o = opts[i]
                if not o['comp'] and (i in ex or i in parsed):
                    continue                      # later sources and excluded names are ignored
                if not o['comp'] and i in got:
                    exp_err = (1, i, v)           # two occurrences inside one source
                    break
                x, d = parse(base(o['kind']), eff(i, v))
                if x == 'unsupported':
                    return []
                if x is None:
                    exp_err = (3, i, v)           # refused value: names option and value
                    if tn[i] is not None:
                        tn[i].refused(eff(i, v))
                        break
                    dirty[i] = dirty[i] or (d and (o['kind'] not in MAPPED or owned[i]))   # a fresh mapped value parses into a temporary
                    break
                if tn[i] is not None:
                    # typed notifier: the PARSER accepted, so the option received its value - whatever the notification function answers
                    tn[i].accepted(x)
                    got.append(i)
                    continue
                var[i] = store(o['kind'], x, var[i], owned[i])
                if o['kind'] != 4 and not (o['kind'] == 9 and owned[i]):
                    dirty[i] = False
                owned[i] = True
                got.append(i)
            for i in got:
                parsed.add(i)
                state[i] = 0
        else:
            # defaults: EVERY option of the context whose own name is not in the set - however many other names the set holds
            for i in range(n):
                o = opts[i]
                if i in parsed or o['dflt'] is None or state[i] == 1:
                    continue
                x, d = parse(base(o['kind']), eff(i, o['dflt']))
                if x == 'unsupported':
                    return []
                if x is None:
                    exp_err = (2, i, o['dflt'])
                    if tn[i] is not None:
                        tn[i].refused(eff(i, o['dflt']))
                        break
                    dirty[i] = dirty[i] or (d and (o['kind'] not in MAPPED or owned[i]))
                    break
                if tn[i] is not None:
                    tn[i].accepted(x)
                    state[i] = 1
                    continue
                var[i] = store(o['kind'], x, var[i], owned[i])
                if o['kind'] != 4 and not (o['kind'] == 9 and owned[i]):
                    dirty[i] = False
                owned[i] = True
                state[i] = 1
        # compare
        if op[0] == 'assign' and len(op) > 3:
            # a source filled BY NAME: a key that is not exactly a name of the context names no option - it must not be taken for the option
            # it happens to be a prefix of
            pk = peek_obs(obs, pos[0], n)
            for r in op[3]:
                if r[0] != 'n' or resolve(n, r[1]) is not None or pk is None:
                    continue
                k = bytes(ckey(r[1])).decode('latin-1')
                for j in range(n):
                    if not name(j).startswith(k):
                        continue
                    g_err, recs = pk
                    st_j, cnt_j, content_j = recs[j]
                    if (cnt_j == 1 and j not in parsed) \
                            or (g_err is not None and g_err[1] == j and list(g_err[2]) == list(r[2])
                                and (exp_err is None or (exp_err[1], list(exp_err[2])) != (j, list(r[2])))) \
                            or (opts[j]['comp'] and tn[j] is None and not dirty[j] and content_j != var[j]):
                        return ['value-assigned-to-option-not-mentioned-by-name']
        et = take(1)
        if not et:
            return ['observation-too-short']
        if et[0] != 0:
            k, ln = take(2)
            val = take(ln)
            got_err = (et[0], k, val)
        else:
            got_err = None
        if got_err is not None and (exp_err is None or (exp_err[0], exp_err[1], list(exp_err[2])) != (got_err[0], got_err[1], list(got_err[2]))) \
                and got_err[0] in (2, 3) and 0 <= got_err[1] < n and tn[got_err[1]] is not None:
            # an error that names a typed-notifier option and a string its PARSER accepts: the answer of the notification function (false =
            # "I copied the value, delete the object") was taken for the validity of the value
            k = got_err[1]
            x, _ = parse(base(opts[k]['kind']), eff(k, list(got_err[2])))
            if x is not None and x != 'unsupported':
                return ['accepted-%s-reported-as-invalid-because-notifier-declined-ownership' % ('value' if got_err[0] == 3 else 'default')]
        if exp_err is None and got_err is not None:
            return ['unexpected-error:type%d' % (got_err[0] - 1)]
        if exp_err is not None and got_err is None:
            if exp_err[0] == 2 and any(x not in range(n) for x in parsed):
                return ['invalid-default-of-unmentioned-option-not-reported']     # the parsed set also holds names of other contexts
            return ['missing-error:' + {1: 'multiple_occurrences', 2: 'invalid_default', 3: 'invalid_value'}[exp_err[0]]]
        if exp_err is not None and (exp_err[0], exp_err[1], list(exp_err[2])) != (got_err[0], got_err[1], list(got_err[2])):
            return ['wrong-error:expected-type%d-got-type%d' % (exp_err[0] - 1, got_err[0] - 1)]
        take(1)
        sz = take(1)
        if sz != [len(parsed)]:
            return ['parsed-size-differs']
        for i in range(n):
            s_, cnt, ln = take(3)
            content = take(ln)
            if cnt != (1 if i in parsed else 0):
                return ['recorded-as-parsed-differs' if cnt else 'not-recorded-as-parsed']
            if s_ != state[i]:
                if op[0] == 'defaults' and state[i] == 1 and s_ == 0 and i not in parsed:
                    return ['default-not-applied-to-unmentioned-option']
                return ['value-state-not-restored' if s_ == 2 else 'value-state-differs']
            if tn[i] is not None:
                exp = tn[i].view()
                if content != exp:
                    run_sfx = (':in-run-%d-over-the-same-targets' % (runs + 1) if runs else '')
                    hl_e, hl_g = 5 + exp[4], 5 + (content[4] if len(content) > 4 else 0)
                    if content[hl_g:] != exp[hl_e:]:
                        # the log: every value delivered to the notification function, in order - one entry per accepted occurrence
                        return ['notifier-log-differs:' + KN[opts[i]['kind']] + run_sfx]
                    if content[:4] != exp[:4]:
                        # made / deleted by the library / deleted by the context / held: a declined object is deleted exactly once, a kept one handed over
                        return ['object-accounting-differs:' + KN[opts[i]['kind']] + run_sfx]
                    return ['kept-object-differs:' + KN[opts[i]['kind']] + run_sfx]
                continue
            if not dirty[i] and content != var[i]:
                return ['variable-differs:' + KN[opts[i]['kind']] + (':in-run-%d-over-the-same-targets' % (runs + 1) if runs else '')]
    return []


def peek_obs(obs, p, n):
    """the observation of one op starting at p, not consumed: (error | None, [(state, count, content)] per option)"""
    try:
        et = obs[p]
        p += 1
        err = None
        if et != 0:
            k, ln = obs[p], obs[p + 1]
            err = (et, k, list(obs[p + 2:p + 2 + ln]))
            p += 2 + ln
        p += 2
        recs = []
        for _ in range(n):
            s_, cnt, ln = obs[p], obs[p + 1], obs[p + 2]
            recs.append((s_, cnt, list(obs[p + 3:p + 3 + ln])))
            p += 3 + ln
        if p > len(obs):
            return None
        return err, recs
    except (IndexError, TypeError):
        return None


def nontrivial(c, obs):
    opts, ops = decode(c)
    return any((op[0] == 'assign' and op[2]) or op[0] in ('add', 'assign2') for op in ops)


def parsed_after(opts, ops):
    """the names the ParsedOptions object holds after ops (reference semantics of the property; used by the generator to aim the number of
    foreign names at |options| - |parsed| -1 / 0 / +1)"""
    n = len(opts)
    parsed = set()
    for op in ops:
        if op[0] in ('reset', 'newrun'):
            parsed = set()
        elif op[0] == 'add':
            parsed |= set(op[1])
        elif op[0] == 'assign2':
            got = []
            for (i, v) in op[1]:
                if not (n <= i < n + NFOREIGN) or i in parsed:
                    continue
                if i in got:
                    break
                got.append(i)
            parsed |= set(got)
        elif op[0] == 'assign':
            ex = set(op[1]) if op[1] is not None else set()
            got = []
            for (i, v) in op[2]:
                if i >= n:
                    continue
                o = opts[i]
                if not o['comp'] and (i in ex or i in parsed):
                    continue
                if not o['comp'] and i in got:
                    break
                x, d = parse(base(o['kind']), o['impl'] if (not v and o['impl'] is not None) else v)
                if x is None or x == 'unsupported':
                    break
                got.append(i)
            parsed |= set(got)
    return parsed


# ---------------------------------------------------------------- generation
def enc_str(s):
    b = list(s.encode('latin-1')) if isinstance(s, str) else list(s)
    return [len(b)] + b


GOOD = {0: ['', '1', '0', 'yes', 'no', 'on', 'off', 'true', 'false'], 1: ['', '1', '0', 'no', 'true'],
        2: ['0', '7', '-5', '12', '+3', '2147483647', '-2147483648', '100', ' 4'],
        3: ['', 'a', 'hello world', 'x=1', '--o1', '\xff\x01', 'a,b'],
        4: ['1', '1,2', '3,4,5', '-1,0', '7'], 5: ['1', '42', '-9', '2147483647'], 6: ['', 'a', 'abc', ' x', 'a!'],
        7: ['', '1', '0', 'yes', 'no', 'on', 'off', 'true', 'false'], 8: ['', '1', '0', 'no', 'true', 'off', 'yes'],
        9: ['1', '1,2', '3,4,5', '-1,0', '7', '9,10']}
BAD = {0: ['x', '1x', 'truex', 'nope', 'o', 'TRUE', 'yes ', '2'], 1: ['x', '0x', 'offf', 'f'],
       2: ['', 'x', '1x', '-', '--1', '1,2', '12 ', '2147483648', '-2147483649', '99999999999999999999', '1.5', '+-1'],
       3: [], 4: ['', 'x', '1,', ',1', '1,,2', '1,x', '1x', '1;2', '2147483648', '1,2147483648'],
       5: ['', 'x', '5x', '2147483648', 'a1'], 6: ['!', '!a', '!!'],
       7: ['x', '1x', 'truex', 'nope', 'o', 'TRUE', 'yes ', '2'], 8: ['x', '0x', 'offf', 'f', '1x'],
       9: ['', 'x', '1,', ',1', '1,,2', '1,x', '1x', '2147483648', '6,2147483648']}


for _k in TNOTIF:
    GOOD[_k] = GOOD[base(_k)]
    BAD[_k] = BAD[base(_k)]


def rand_val(rnd, kind, p_bad):
    if BAD[kind] and rnd.random() < p_bad:
        return rnd.choice(BAD[kind])
    return rnd.choice(GOOD[kind])


def gen_foreign(rnd):
    """A ParsedOptions object that holds names which are NOT options of the context - recorded with ParsedOptions::add and / or by assigning a
    source of a second context to the same object - handed to assignDefaults.  The number of foreign names is aimed at
    |options of the context| - |names recorded so far| + {-1, 0, 0, 0, +1}: total size below / EQUAL / above the number of options, with
    options of the context left unmentioned (they have to be defaulted; an invalid default among them has to be reported)."""
    base = gen_case(rnd, shape='foreign')
    opts, ops = decode(base)
    n = len(opts)
    while ops and ops[-1][0] == 'defaults':
        ops.pop()
    enc = encode(raw_options(base), ops)
    rounds = rnd.choice([1, 1, 2])
    for _ in range(rounds):
        have = parsed_after(opts, decode(enc)[1])
        k = max(0, n - len(have) + rnd.choice([-1, 0, 0, 0, 0, 1]))
        if k == 0 and rnd.random() < 0.7:
            k = 1
        route = rnd.random()
        free2 = [i for i in range(n, n + NFOREIGN) if i not in have]
        ids = []
        if route < 0.4 or not free2:
            pool = [i for i in range(n + NFOREIGN, n + NFOREIGN + 12) if i not in have]
            ids = rnd.sample(pool, min(k, len(pool)))
            enc += [4, len(ids)] + ids
        elif route < 0.8:
            ids = rnd.sample(free2, min(k, len(free2)))
            enc += [5, len(ids)]
            for i in ids:
                enc += [i] + enc_str(rnd.choice(['', 'x', '3', 'a b']))
            rest = k - len(ids)
            if rest > 0:
                pool = [i for i in range(n + NFOREIGN, n + NFOREIGN + 12) if i not in have]
                more = rnd.sample(pool, min(rest, len(pool)))
                enc += [4, len(more)] + more
        else:
            # a mix, possibly with an own option's name recorded by the caller (then that option counts as mentioned)
            a = rnd.sample(free2, min(max(k - 1, 0), len(free2)))
            if a:
                enc += [5, len(a)]
                for i in a:
                    enc += [i] + enc_str('v')
            b = [rnd.choice([n + NFOREIGN + rnd.randrange(12), rnd.randrange(n)])]
            enc += [4, len(b)] + b
        enc += [2]
        if rnd.random() < 0.3:
            enc += [2]
        if rnd.random() < 0.4:
            i = rnd.randrange(n)
            enc += [1, 0, 1, i] + enc_str(rand_val(rnd, opts[i]['kind'], 0.1) or '1')
    return enc


def gen_runs(rnd):
    """Several RUNS over the same targets: the option set is built anew for every run (op 6), the variables and the ValueMap survive.
    Mapped kinds are favoured (a fresh mapped value must REPLACE the entry an earlier run left); every run = 0..3 sources (values drawn
    anew, so that a stale content is visible) + mostly assignDefaults; a few refused strings / duplicates / exclude sets / resets."""
    n = rnd.choice([1, 1, 2, 2, 3, 4])
    enc = [n]
    kinds, impls = [], []
    for i in range(n):
        k = rnd.choice([5, 5, 5, 7, 8, 9, 9, 2, 3, 4, 0, 1, 6, 10, 13, 14, 17, 17, 18, 16, 15])
        kinds.append(k)
        comp = 1 if rnd.random() < (0.5 if k in (4, 6, 9, 13, 17, 18) else 0.12) else 0
        enc += [k, comp]
        if rnd.random() < 0.15:
            enc += [1] + enc_str(rnd.choice(['', rand_val(rnd, k, 0.1)]))
            impls.append(True)
        else:
            enc += [0]
            impls.append(k in IMPLICIT_FLAGS)
        if rnd.random() < 0.55:
            enc += [1] + enc_str(rand_val(rnd, k, 0.12))
        else:
            enc += [0]
    p_bad = rnd.choice([0.0, 0.0, 0.0, 0.08, 0.2])
    p_dup = rnd.choice([0.0, 0.0, 0.1, 0.3])
    for r in range(rnd.choice([2, 2, 3, 3, 4])):
        if r:
            enc += [6]
        for _ in range(rnd.choice([0, 1, 1, 1, 2, 2, 3])):
            if rnd.random() < 0.05:
                enc += [3]
            enc += [1]
            if rnd.random() < 0.15:
                ex = [rnd.randrange(n + 1) for _ in range(rnd.randint(0, 2))]
                enc += [1, len(ex)] + ex
            else:
                enc += [0]
            pairs = []
            for _ in range(rnd.choice([1, 1, 2, 2, 3, 4])):
                pairs.append(rnd.choice(pairs) if pairs and rnd.random() < p_dup else rnd.randrange(n))
            enc += [len(pairs)]
            for i in pairs:
                v = rand_val(rnd, kinds[i], p_bad)
                if v == '' and not impls[i] and kinds[i] in IMPLICIT_FLAGS:
                    v = '1'
                enc += [i] + enc_str(v)
        if rnd.random() < 0.75:
            enc += [2]
    return enc


DECLINING = (10, 11, 12, 13, 19, 18)


def gen_declining(rnd):
    """A typed notifier that copies the value and DECLINES ownership (returns false), with a default, mentioned by the FIRST source of a run and
    again by later sources, over 1..3 runs (option set re-built, the context and its log survive): the value of the first source is accepted and
    delivered exactly once, the option is recorded, later sources and the default do not reach the function.  Now and then the option is not
    mentioned in a run (then the default is delivered once), gets a refused string, or is composing (every source delivers); other options
    of every kind (keeping notifiers, the untyped custom notifier whose answer DOES mean invalid) sit next to it."""
    n = rnd.choice([1, 1, 2, 2, 3])
    enc = [n]
    kinds = []
    for i in range(n):
        k = rnd.choice(DECLINING) if i == 0 or rnd.random() < 0.3 else rnd.choice([14, 15, 16, 17, 18, 6, 2, 3, 5, 9, 0])
        kinds.append(k)
        comp = 1 if rnd.random() < (0.3 if k in (13, 17, 18, 4, 6, 9) else 0.08) else 0
        enc += [k, comp]
        if rnd.random() < 0.12:
            enc += [1] + enc_str(rnd.choice(['', rand_val(rnd, k, 0.0)]))
        else:
            enc += [0]
        if i == 0 and rnd.random() < 0.9 or rnd.random() < 0.5:
            enc += [1] + enc_str(rand_val(rnd, k, 0.06))
        else:
            enc += [0]
    p_bad = rnd.choice([0.0, 0.0, 0.0, 0.1])
    for r in range(rnd.choice([1, 1, 2, 2, 3])):
        if r:
            enc += [6]
        mention = rnd.random() < 0.85
        for j in range(rnd.choice([1, 2, 2, 3, 3])):
            ids = []
            if mention and (j == 0 or rnd.random() < 0.8):
                ids.append(0)                      # the first source mentions the declining option, the later ones mention it AGAIN
            for i in range(1, n):
                if rnd.random() < 0.5:
                    ids.append(i)
            if ids and rnd.random() < 0.06:
                ids.append(rnd.choice(ids))        # a duplicate inside one source
            rnd.shuffle(ids)
            enc += [1, 0, len(ids)]
            for i in ids:
                v = rand_val(rnd, kinds[i], p_bad)
                enc += [i] + enc_str(v)
        if rnd.random() < 0.9:
            enc += [2]
        if rnd.random() < 0.15:
            enc += [2]
    return enc


def rand_key(rnd, n):
    """a key for ParsedValues::add(name, value) and the option a value for it should suit: exact names, strict prefixes (of one / of several
    names), extensions, alias characters and alias keys, unknown keys, the empty key, a name followed by a NUL byte"""
    i = rnd.randrange(n)
    nm = name(i)
    r = rnd.random()
    if r < 0.34:
        return nm, i
    if r < 0.64:
        return nm[:rnd.randrange(1, len(nm))], i                     # strict prefix (may be another option's exact name: lim / limit)
    if r < 0.70:
        return nm + rnd.choice(['s', 'x', '0', ' ', '=', '-']), i    # extension
    if r < 0.76:
        a = rnd.choice(sorted(ALIAS))
        return rnd.choice([ALIAS[a], '-' + ALIAS[a], '-' + ALIAS[a] + 'x', '-', '--' + name(a)]), (a if a < n else i)
    if r < 0.80:
        return '', i
    if r < 0.84:
        return nm + '\0' + rnd.choice(['x', '', 'it']), i
    if r < 0.88:
        return nm[:rnd.randrange(1, len(nm))] + '\0' + nm, i
    if r < 0.92:
        return rnd.choice([nm.upper(), nm.capitalize(), ' ' + nm]), i
    return rnd.choice(['zz', 'o', 'o9', 'o%d' % n, 'o%d' % (n + 1), 'verbose', 'l', 'le', 'li', 'len', 'lev', 'limi', 'o1', 'o10', 'name']), i


def gen_by_name(rnd):
    """Sources filled pair by pair through the option pointer or BY NAME (op 7) with all sorts of keys; afterwards sources that name options
    exactly, and defaults: a key that is no name of the context must leave no trace - the option it is a prefix of is still unmentioned (gets
    the later source's value / its default)."""
    n = rnd.choice([1, 2, 3, 3, 4, 4, 5, 6, 6])
    enc = [n]
    kinds, impls = [], []
    for i in range(n):
        k = rnd.choice([2, 2, 2, 3, 3, 4, 4, 0, 1, 5, 6, 7, 8, 9, 10, 13, 14, 17, 18, 11])
        kinds.append(k)
        comp = 1 if rnd.random() < (0.5 if k in (4, 6, 9, 13, 17, 18) else 0.15) else 0
        enc += [k, comp]
        if rnd.random() < 0.15:
            enc += [1] + enc_str(rnd.choice(['', rand_val(rnd, k, 0.1)]))
            impls.append(True)
        else:
            enc += [0]
            impls.append(k in IMPLICIT_FLAGS)
        if rnd.random() < 0.6:
            enc += [1] + enc_str(rand_val(rnd, k, 0.1))
        else:
            enc += [0]
    p_bad = rnd.choice([0.0, 0.0, 0.05, 0.15, 0.3])
    p_name = rnd.choice([0.5, 0.7, 1.0])
    nsrc = rnd.choice([1, 2, 2, 3, 3, 4])
    for j in range(nsrc):
        if rnd.random() < 0.06:
            enc += [rnd.choice([2, 3, 6])]
        by_name = j == 0 or rnd.random() < 0.6
        if not by_name:
            # a plain source (op 1) naming options exactly
            ids = [rnd.randrange(n) for _ in range(rnd.choice([1, 1, 2, 3]))]
            enc += [1, 0, len(ids)]
            for i in ids:
                v = rand_val(rnd, kinds[i], p_bad)
                if v == '' and not impls[i] and kinds[i] in IMPLICIT_FLAGS:
                    v = '1'
                enc += [i] + enc_str(v)
            continue
        enc += [7]
        if rnd.random() < 0.2:
            ex = [rnd.randrange(n + 1) for _ in range(rnd.randint(0, 2))]
            enc += [1, len(ex)] + ex
        else:
            enc += [0]
        np_ = rnd.choice([1, 1, 2, 2, 3, 4, 5])
        enc += [np_]
        for _ in range(np_):
            if rnd.random() < p_name:
                key, i = rand_key(rnd, n)
            else:
                key, i = None, rnd.randrange(n)
            v = rand_val(rnd, kinds[i], p_bad)
            if v == '' and not impls[i] and kinds[i] in IMPLICIT_FLAGS:
                v = '1'
            if key is None:
                enc += [0, i] + enc_str(v)
            else:
                enc += [1] + enc_str(key) + enc_str(v)
    if rnd.random() < 0.75:
        enc += [2]
    return enc


def gen_case(rnd, shape=None):
    n = rnd.choice([1, 2, 2, 3, 3, 4, 5, 6])
    enc = [n]
    kinds = []
    impls = []
    for i in range(n):
        k = rnd.randrange(NKINDS)
        kinds.append(k)
        comp = 1 if rnd.random() < (0.6 if k in (4, 6, 9, 13, 17, 18) else 0.25) else 0
        enc += [k, comp]
        if rnd.random() < 0.25:
            iv = rnd.choice(['', rand_val(rnd, k, 0.3)])
            enc += [1] + enc_str(iv)
            impls.append(True)
        else:
            enc += [0]
            impls.append(k in IMPLICIT_FLAGS)
        if rnd.random() < (0.8 if shape == 'foreign' else 0.45):
            enc += [1] + enc_str(rand_val(rnd, k, 0.25))
        else:
            enc += [0]
    nops = rnd.choice([0, 1, 1, 2, 2, 3]) if shape == 'foreign' else rnd.choice([1, 2, 2, 3, 3, 4, 5])
    p_bad = rnd.choice([0.0, 0.0, 0.1, 0.25, 0.5])
    p_dup = rnd.choice([0.0, 0.1, 0.3, 0.6])
    for j in range(nops):
        r = rnd.random()
        if j == nops - 1 and rnd.random() < 0.6:
            enc += [2]
            continue
        if r < 0.08:
            enc += [2]
            continue
        if r < 0.12:
            enc += [3]
            continue
        enc += [1]
        if rnd.random() < 0.35:
            ex = [rnd.randrange(n + 1) for _ in range(rnd.randint(0, 3))]
            enc += [1, len(ex)] + ex
        else:
            enc += [0]
        np_ = rnd.choice([0, 1, 1, 2, 3, 4, 5, 7])
        pairs = []
        for _ in range(np_):
            if pairs and rnd.random() < p_dup:
                i = rnd.choice(pairs)
            else:
                i = rnd.randrange(n)
            pairs.append(i)
        enc += [len(pairs)]
        for i in pairs:
            v = rand_val(rnd, kinds[i], p_bad)
            if v == '' and not impls[i] and kinds[i] in IMPLICIT_FLAGS:
                v = '1'
            enc += [i] + enc_str(v)
    return enc


FIXED = [
    # o0:int, o1:int default 10 ; assign(o0=2) -> defaults -> assign(o0=3,o1=20)
    [2, 2, 0, 0, 0, 2, 0, 0, 1, 2, 49, 48, 1, 0, 1, 0, 1, 50, 2, 1, 0, 2, 0, 1, 51, 1, 2, 50, 48],
    # duplicate in one source
    [1, 2, 0, 0, 0, 1, 0, 2, 0, 1, 49, 0, 1, 50],
    # invalid in the middle of a source, then a second source
    [3, 2, 0, 0, 0, 3, 0, 0, 0, 4, 1, 0, 0, 1, 0, 3, 0, 1, 49, 1, 0, 2, 2, 49, 44, 1, 0, 2, 0, 1, 55, 2, 1, 56, 2],
    # exclude set
    [2, 2, 0, 0, 0, 2, 0, 0, 0, 1, 1, 1, 0, 2, 0, 1, 53, 1, 1, 54, 2],
    # invalid default
    [2, 2, 0, 0, 1, 1, 120, 2, 0, 0, 1, 1, 53, 2],
    # flag with empty value / implicit
    [2, 0, 0, 0, 0, 2, 0, 1, 2, 52, 50, 0, 1, 0, 2, 0, 0, 1, 0, 2],
    # foreign names in the parsed set (ParsedOptions::add / a second context's source): o0:int default 10, o1:string default 'auto'
    # add("o9","o10") -> defaults  (size 2 == 2 options, both unmentioned)
    [2, 2, 0, 0, 1, 2, 49, 48, 3, 0, 0, 1, 4, 97, 117, 116, 111, 4, 2, 9, 10, 2],
    # assign(o0=7) -> add("o9") -> defaults  (size 2 == 2 options, o1 unmentioned)
    [2, 2, 0, 0, 1, 2, 49, 48, 3, 0, 0, 1, 4, 97, 117, 116, 111, 1, 0, 1, 0, 1, 55, 4, 1, 9, 2],
    # second context's source o2='x', o3='y' -> defaults (size 2 == 2) ; and with one / three foreign names
    [2, 2, 0, 0, 1, 2, 49, 48, 3, 0, 0, 1, 4, 97, 117, 116, 111, 5, 2, 2, 1, 120, 3, 1, 121, 2],
    [2, 2, 0, 0, 1, 2, 49, 48, 3, 0, 0, 1, 4, 97, 117, 116, 111, 5, 1, 2, 1, 120, 2],
    [2, 2, 0, 0, 1, 2, 49, 48, 3, 0, 0, 1, 4, 97, 117, 116, 111, 5, 3, 2, 1, 120, 3, 1, 121, 4, 0, 2],
    # invalid default of an unmentioned option, one foreign name (size 1 == 1 option)
    [1, 2, 0, 0, 1, 2, 49, 120, 4, 1, 5, 2],
    # the caller records an OWN option's name: that option is mentioned and keeps its value, the other one is defaulted
    [2, 2, 0, 0, 1, 2, 49, 48, 2, 0, 0, 1, 2, 50, 48, 4, 1, 0, 2],
    # mapped flag declared with store_false: implicit value -> false
    [1, 8, 0, 0, 0, 1, 0, 1, 0, 0],
    # mapped flags, store_true and store_false (default 'off' -> true): assign(o0='off') -> defaults
    [2, 7, 0, 0, 0, 8, 0, 0, 1, 3, 111, 102, 102, 1, 0, 1, 0, 3, 111, 102, 102, 2],
    # bool& and mapped store_false side by side, explicit values, then a refused string on both mapped flags
    [4, 1, 0, 0, 0, 8, 0, 0, 0, 7, 1, 0, 0, 8, 1, 0, 0, 1, 0, 6, 0, 2, 110, 111, 1, 2, 110, 111, 2, 1, 49, 3, 1, 48, 2, 2, 49, 120, 3, 2, 49, 120],
    # ---- several runs over the same targets (op 6 = the option set is built anew, variables / ValueMap kept) ----
    # [o0 = store<int>(map)] assign(o0='3') -> NEW RUN -> assign(o0='7'): the map holds 7
    [1, 5, 0, 0, 0, 1, 0, 1, 0, 1, 51, 6, 1, 0, 1, 0, 1, 55],
    # [o0 = store<int>(map) default '1'] assign(o0='3') -> NEW RUN -> defaults: the map holds the default 1
    [1, 5, 0, 0, 1, 1, 49, 1, 0, 1, 0, 1, 51, 6, 2],
    # [o0 = store<vector<int>>(map) composing] assign(o0='1', o0='2') -> NEW RUN -> assign(o0='9'): [9] (a typed vector would hold [1,2,9])
    [1, 9, 1, 0, 0, 1, 0, 2, 0, 1, 49, 0, 1, 50, 6, 1, 0, 1, 0, 1, 57],
    # mapped flags: run 1 both implicit, run 2 both 'no'
    [2, 7, 0, 0, 0, 8, 0, 0, 0, 1, 0, 2, 0, 0, 1, 0, 6, 1, 0, 2, 0, 2, 110, 111, 1, 2, 110, 111],
    # refused string for a fresh mapped value: the entry of run 1 is untouched, then an accepted one replaces it; in-place leftovers of '5,y'
    [2, 5, 0, 0, 0, 9, 1, 0, 0, 1, 0, 2, 0, 1, 51, 1, 1, 49, 6, 1, 0, 1, 0, 2, 53, 120, 1, 0, 1, 1, 3, 49, 44, 120, 1, 0, 2, 1, 1, 52, 1, 3, 53, 44, 121, 1, 0, 1, 0, 1, 56],
    # ---- typed notifiers: the function copies the value into its log; its return value only says who owns the created object ----
    # [o0 = notify<int> DECLINES, default '1'] assign(o0='3') -> assign(o0='7') -> defaults: accepted, recorded, log [3]; 7 and the default never delivered
    [1, 10, 0, 0, 1, 1, 49, 1, 0, 1, 0, 1, 51, 1, 0, 1, 0, 1, 55, 2],
    # the same with a function that KEEPS the object: same errors / parsed set / states, the context owns the object
    [1, 14, 0, 0, 1, 1, 49, 1, 0, 1, 0, 1, 51, 1, 0, 1, 0, 1, 55, 2],
    # the demo of the seeded change: level = notify<int> declines default '1', name = string default 'anon': [level=3] [level=7 name=bob] defaults
    [2, 10, 0, 0, 1, 1, 49, 3, 0, 0, 1, 4, 97, 110, 111, 110, 1, 0, 1, 0, 1, 51, 1, 0, 2, 0, 1, 55, 1, 3, 98, 111, 98, 2],
    # declining vector, composing: '1,2' and '9' are delivered as [1,2] and [9] (a new object each time); '5,x' refused; '8' delivered
    [1, 13, 1, 0, 0, 1, 0, 2, 0, 3, 49, 44, 50, 0, 1, 57, 1, 0, 1, 0, 3, 53, 44, 120, 1, 0, 1, 0, 1, 56],
    # keeping vector, composing: in place - [1,2], [1,2,9]; '5,x' leaves 5 in the kept object; NEW RUN: a new object [4] replaces it
    [1, 17, 1, 0, 0, 1, 0, 2, 0, 3, 49, 44, 50, 0, 1, 57, 1, 0, 1, 0, 3, 53, 44, 120, 1, 0, 1, 0, 1, 56, 6, 1, 0, 1, 0, 1, 52],
    # declining flag: implicit value accepted, recorded; a later '1x' is ignored (already parsed)
    [1, 12, 0, 0, 0, 1, 0, 1, 0, 0, 1, 0, 1, 0, 2, 49, 120],
    # declining flag(store_false) default 'no': defaults delivers true; then assign(o0='') delivers false
    [1, 19, 0, 0, 1, 2, 110, 111, 2, 1, 0, 1, 0, 0],
    # int that keeps even values, composing: 3 declined, 4 kept, 5 in place; then '6x' refused in place
    [1, 18, 1, 0, 0, 1, 0, 3, 0, 1, 51, 0, 1, 52, 0, 1, 53, 1, 0, 1, 0, 2, 54, 120],
    # declining string: assign(o0='hi') -> NEW RUN -> defaults (no default): untouched
    [1, 11, 0, 0, 0, 1, 0, 1, 0, 2, 104, 105, 6, 2],
    # keeping flag, composing: '' kept, '1x' refused in place, then '0' in place
    [1, 16, 1, 0, 0, 1, 0, 2, 0, 0, 0, 2, 49, 120, 1, 0, 1, 0, 1, 48],
    # declining int with default next to the UNTYPED custom notifier (its answer false = invalid): [o0=5 o1='!x'] -> defaults
    [2, 10, 0, 0, 1, 1, 57, 6, 0, 0, 0, 1, 0, 2, 0, 1, 53, 1, 2, 33, 120, 2],
    # ---- sources filled BY NAME (op 7): only a key that EQUALS a name (or an alias key "-a") of the context denotes a pair ----
    # the Example c15_ex_by_name: [limit:int level:int length:vector<int>+composing lim:int]  by name lim=1 limi=2 le=3 len=4 limitx=5 l=6 ''=7 -l=8
    # length=9; then by name limit=5, by pointer level=6, by name len=7
    [4, 2, 0, 0, 0, 2, 0, 0, 0, 4, 1, 0, 0, 2, 0, 0, 0, 7, 0, 9, 1, 3, 108, 105, 109, 1, 49, 1, 4, 108, 105, 109, 105, 1, 50, 1, 2, 108,
     101, 1, 51, 1, 3, 108, 101, 110, 1, 52, 1, 6, 108, 105, 109, 105, 116, 120, 1, 53, 1, 1, 108, 1, 54, 1, 0, 1, 55, 1, 2, 45, 108, 1, 56,
     1, 6, 108, 101, 110, 103, 116, 104, 1, 57, 7, 0, 3, 1, 5, 108, 105, 109, 105, 116, 1, 53, 0, 1, 1, 54, 1, 3, 108, 101, 110, 1, 55],
    # the demo of seeded change C15-r15: [limit:int default 10, level:int, length:vector<int> composing]: by name (lim=99, len=5, zz=1) ->
    # by pointer (limit=7, length=1) -> defaults: limit = 7, length = [1]
    [3, 2, 0, 0, 1, 2, 49, 48, 2, 0, 0, 0, 4, 1, 0, 0, 7, 0, 3, 1, 3, 108, 105, 109, 2, 57, 57, 1, 3, 108, 101, 110, 1, 53, 1, 2, 122, 122, 1, 49,
     1, 0, 2, 0, 1, 55, 2, 1, 49, 2],
    # one option: every non-empty strict prefix of "limit" is an unambiguous prefix; only the default may reach it
    [1, 2, 0, 0, 1, 1, 52, 7, 0, 4, 1, 1, 108, 1, 49, 1, 2, 108, 105, 1, 50, 1, 3, 108, 105, 109, 1, 51, 1, 4, 108, 105, 109, 105, 1, 53, 2],
    # six options: o4 / o5 by name, "o" (ambiguous prefix), "o4x", "o6" (no option), excluded name given by name
    [6, 2, 0, 0, 0, 2, 0, 0, 0, 2, 0, 0, 0, 2, 0, 0, 0, 3, 0, 0, 0, 3, 0, 0, 1, 1, 100, 7, 1, 1, 5, 5, 1, 2, 111, 52, 1, 97, 1, 2, 111, 53, 1, 98,
     1, 1, 111, 1, 99, 1, 3, 111, 52, 120, 1, 100, 1, 2, 111, 54, 1, 101, 2],
    # declining int, default '4', three runs: run 1 [o0=3][o0=7] defaults; run 2 no source, defaults; run 3 [o0=x (refused)] [o0=8] defaults
    [1, 10, 0, 0, 1, 1, 52, 1, 0, 1, 0, 1, 51, 1, 0, 1, 0, 1, 55, 2, 6, 2, 6, 1, 0, 1, 0, 1, 120, 1, 0, 1, 0, 1, 56, 2],
]
# three runs as an application that re-reads its configuration does them (level/ids/name in one ValueMap, plain bound to an int):
#   run 1: [level=3 ids=1 ids=2] [level=4 name=first plain=8] defaults   run 2: [ids=9] [level=7 name=second ids=10] defaults   run 3: [plain=2] [] defaults
# kept as the LAST generated case: a leak report at process exit can only be attributed to the last case of a batch by the driver, and
# this is a case of the one family in which an option set is destroyed and re-built
LAST = [4, 5, 0, 0, 1, 1, 49, 9, 1, 0, 0, 3, 0, 0, 0, 2, 0, 0, 1, 1, 53,
        1, 0, 3, 0, 1, 51, 1, 1, 49, 1, 1, 50, 1, 0, 3, 0, 1, 52, 2, 5, 102, 105, 114, 115, 116, 3, 1, 56, 2,
        6, 1, 0, 1, 1, 1, 57, 1, 0, 3, 0, 1, 55, 2, 6, 115, 101, 99, 111, 110, 100, 1, 2, 49, 48, 2,
        6, 1, 0, 1, 3, 1, 50, 1, 0, 0, 2]


def gen(seed, tier):
    rnd = random.Random(seed * 7919 + 15)
    total = {'quick': 4000, 'thorough': 150000, 'search': 8000}.get(tier, 4000)
    out = [(c, {'kind': 'fixed'}) for c in FIXED]
    while len(out) < total - 1:
        r = rnd.random()
        if r < 0.22:
            out.append((gen_foreign(rnd), {'kind': 'foreign-names-in-parsed-set'}))
        elif r < 0.40:
            out.append((gen_runs(rnd), {'kind': 'several-runs-over-the-same-targets'}))
        elif r < 0.57:
            out.append((gen_declining(rnd), {'kind': 'typed-notifier-declines-ownership'}))
        elif r < 0.75:
            out.append((gen_by_name(rnd), {'kind': 'source-filled-by-name'}))
        else:
            out.append((gen_case(rnd), {'kind': 'random'}))
    out.append((LAST, {'kind': 'fixed'}))
    return out


def encode(raw_opts, ops):
    e = [len(raw_opts)]
    for o in raw_opts:
        e += o
    for op in ops:
        if op[0] == 'assign' and len(op) > 3:
            e += [7]
            e += [0] if op[1] is None else [1, len(op[1])] + list(op[1])
            e += [len(op[3])]
            for r in op[3]:
                if r[0] == 'p':
                    e += [0, r[1], len(r[2])] + list(r[2])
                else:
                    e += [1, len(r[1])] + list(r[1]) + [len(r[2])] + list(r[2])
        elif op[0] == 'assign':
            e += [1]
            e += [0] if op[1] is None else [1, len(op[1])] + list(op[1])
            e += [len(op[2])]
            for i, v in op[2]:
                e += [i, len(v)] + list(v)
        elif op[0] == 'defaults':
            e += [2]
        elif op[0] == 'add':
            e += [4, len(op[1])] + list(op[1])
        elif op[0] == 'assign2':
            e += [5, len(op[1])]
            for i, v in op[1]:
                e += [i, len(v)] + list(v)
        elif op[0] == 'newrun':
            e += [6]
        else:
            e += [3]
    return e


def raw_options(c):
    """the undecoded option descriptors (so that re-encoding is exact)"""
    p = 1
    out = []
    for _ in range(c[0] if c else 0):
        q = p + 2
        for _ in range(2):
            if q < len(c) and c[q] != 0:
                q += 2 + (c[q + 1] if q + 1 < len(c) else 0)
            else:
                q += 1
        out.append(list(c[p:q]))
        p = q
    return out


def shrink(case, fails):
    opts, ops = decode(case)
    raw = raw_options(case)
    if encode(raw, ops) != list(case):
        return case
    changed = True
    while changed:
        changed = False
        for i in range(len(ops) - 1, -1, -1):
            t = ops[:i] + ops[i + 1:]
            if fails(encode(raw, t)):
                ops, changed = t, True
        for i, op in enumerate(ops):
            if op[0] != 'assign':
                continue
            if len(op) > 3:
                for j in range(len(op[3]) - 1, -1, -1):
                    t = list(ops)
                    t[i] = assign_n(len(raw), op[1], op[3][:j] + op[3][j + 1:])
                    if fails(encode(raw, t)):
                        ops, changed, op = t, True, t[i]
                if op[1]:
                    t = list(ops)
                    t[i] = assign_n(len(raw), None, op[3])
                    if fails(encode(raw, t)):
                        ops, changed = t, True
                continue
            for j in range(len(op[2]) - 1, -1, -1):
                t = list(ops)
                t[i] = ('assign', op[1], op[2][:j] + op[2][j + 1:])
                if fails(encode(raw, t)):
                    ops, changed, op = t, True, t[i]
            if op[1]:
                t = list(ops)
                t[i] = ('assign', None, op[2])
                if fails(encode(raw, t)):
                    ops, changed = t, True
        # drop the last option when nothing refers to it
        if len(raw) > 1:
            last = len(raw) - 1
            if not any((op[0] == 'assign' and (len(op) > 3 or any(i >= last for i, _ in op[2]))) or op[0] in ('add', 'assign2') for op in ops):
                if fails(encode(raw[:-1], ops)):
                    raw, changed = raw[:-1], True
            elif any(op[0] == 'assign' and len(op) > 3 for op in ops) and not any(op[0] in ('add', 'assign2') for op in ops):
                # by-name sources: what a key denotes depends on the number of options - re-resolve and try
                t = [assign_n(last, op[1], [r for r in op[3] if r[0] != 'p' or r[1] < last]) if (op[0] == 'assign' and len(op) > 3) else op for op in ops]
                if not any(op[0] == 'assign' and len(op) == 3 and any(i >= last for i, _ in op[2]) for op in t) and fails(encode(raw[:-1], t)):
                    raw, ops, changed = raw[:-1], t, True
    return encode(raw, ops)


def mutate(case, rnd):
    return [gen_case(rnd) for _ in range(35)] + [gen_by_name(rnd) for _ in range(15)]
