"""Python side of the call alphabet (coq/Lib/Calls.v, harness/rec.h): encode / decode / pretty / random generation."""
INT_MAX = 2 ** 31 - 1
ATOM_MAX = INT_MAX
ID_MAX = 2 ** 32 - 1
NAMES = {1: 'init', 2: 'begin', 3: 'end', 4: 'rule', 5: 'wrule', 6: 'minimize', 7: 'project', 8: 'output', 9: 'external',
         10: 'assume', 11: 'heuristic', 12: 'edge', 13: 'tnum', 14: 'tsym', 15: 'tcomp', 16: 'telem', 17: 'tatom', 18: 'tatomg'}


def enc(call):
    """call = (tag, fields...) with python lists for lists, list of (lit,w) pairs for weight lists, bytes/list of ints for strings."""
    t = call[0]
    out = [t]
    for f in call[1:]:
        if isinstance(f, (bytes, bytearray)):
            out += [len(f)] + list(f)
        elif isinstance(f, list):
            out.append(len(f))
            for x in f:
                if isinstance(x, tuple):
                    out += [x[0], x[1]]
                else:
                    out.append(x)
        elif isinstance(f, bool):
            out.append(1 if f else 0)
        else:
            out.append(f)
    return out


def enc_all(calls):
    r = []
    for c in calls:
        r += enc(c)
    return r


def dec_all(ints):
    """Decode an integer list into calls; returns (calls, rest) where rest is the undecodable tail."""
    p = 0
    calls = []

    def lst():
        nonlocal p
        n = ints[p]
        v = ints[p + 1:p + 1 + n]
        p += 1 + n
        return list(v)

    def wl():
        nonlocal p
        n = ints[p]
        v = ints[p + 1:p + 1 + 2 * n]
        p += 1 + 2 * n
        return [(v[i], v[i + 1]) for i in range(0, len(v) - 1, 2)]
    try:
        while p < len(ints):
            t = ints[p]
            start = p
            p += 1
            if t == 1:
                calls.append((1, ints[p] != 0)); p += 1
            elif t in (2, 3):
                calls.append((t,))
            elif t == 4:
                ht = ints[p]; p += 1
                calls.append((4, ht, lst(), lst()))
            elif t == 5:
                ht = ints[p]; p += 1
                h = lst(); b = ints[p]; p += 1
                calls.append((5, ht, h, b, wl()))
            elif t == 6:
                pr = ints[p]; p += 1
                calls.append((6, pr, wl()))
            elif t == 7:
                calls.append((7, lst()))
            elif t == 8:
                n = bytes(x & 255 for x in lst())
                calls.append((8, n, lst()))
            elif t == 9:
                calls.append((9, ints[p], ints[p + 1])); p += 2
            elif t == 10:
                calls.append((10, lst()))
            elif t == 11:
                a, ty, b, pr = ints[p:p + 4]; p += 4
                calls.append((11, a, ty, b, pr, lst()))
            elif t == 12:
                s, tt = ints[p:p + 2]; p += 2
                calls.append((12, s, tt, lst()))
            elif t == 13:
                calls.append((13, ints[p], ints[p + 1])); p += 2
            elif t == 14:
                i = ints[p]; p += 1
                calls.append((14, i, bytes(x & 255 for x in lst())))
            elif t == 15:
                i, c = ints[p:p + 2]; p += 2
                calls.append((15, i, c, lst()))
            elif t == 16:
                i = ints[p]; p += 1
                calls.append((16, i, lst(), lst()))
            elif t == 17:
                a, tt = ints[p:p + 2]; p += 2
                calls.append((17, a, tt, lst()))
            elif t == 18:
                a, tt = ints[p:p + 2]; p += 2
                e = lst()
                calls.append((18, a, tt, e, ints[p], ints[p + 1])); p += 2
            else:
                return calls, list(ints[start:])
    except (IndexError, ValueError):
        return calls, list(ints[start:])
    return calls, []


def pretty(calls):
    return '; '.join(NAMES.get(c[0], '?') + repr(tuple(c[1:])) for c in calls)


# ---- random generation of valid call sequences ------------------------------------------------------
BIG_ATOMS = True   # set False (temporarily) to keep atoms and ids small (consumers that index tables by atom / id)


def r_atom(rnd, small=6):
    r = rnd.random()
    if r < 0.8 or not BIG_ATOMS:
        return rnd.randint(1, small)
    if r < 0.9:
        return rnd.choice([ATOM_MAX, ATOM_MAX - 1, 2 ** 16, 4097, 1])
    return rnd.randint(1, ATOM_MAX)


def r_lit(rnd, small=6):
    a = r_atom(rnd, small)
    return -a if rnd.random() < 0.4 else a


def r_len(rnd, mx=4):
    return rnd.choice([0, 1, 1, 2, 2, 3, mx, rnd.randint(0, mx)])


def r_weight(rnd, lo=0):
    r = rnd.random()
    if r < 0.7:
        return rnd.randint(max(lo, 0), 3) if lo >= 0 else rnd.randint(-3, 3)
    if r < 0.85:
        return rnd.choice([INT_MAX, INT_MAX - 1, 1, 0]) if lo >= 0 else rnd.choice([INT_MAX, -INT_MAX, -INT_MAX - 1, 0])
    return rnd.randint(max(lo, 0), INT_MAX) if lo >= 0 else rnd.randint(-INT_MAX - 1, INT_MAX)


def r_int(rnd):
    r = rnd.random()
    if r < 0.6:
        return rnd.randint(-3, 3)
    if r < 0.85:
        return rnd.choice([INT_MAX, -INT_MAX - 1, -INT_MAX, INT_MAX - 1, 0])
    return rnd.randint(-INT_MAX - 1, INT_MAX)


def r_string(rnd, mx=12, alphabet=None):
    n = rnd.choice([0, 1, 2, 5, mx, rnd.randint(0, mx)])
    alphabet = alphabet or [97, 98, 40, 41, 44, 32, 10, 13, 9, 49, 48, 34, 92, 200, 255, 95]
    return bytes(rnd.choice(alphabet) for _ in range(n))


# Sizes around the capacity boundaries of RuleBuilder's memory block (src/rule_utils.cpp): 64 bytes at first = 20-byte header + 4 bytes
# per head atom / body literal, 8 per weighted literal, 4 for a sum bound; afterwards the block is exactly as large as the largest thing it
# has held.  11 head atoms fill the initial block exactly (the bound / first literal is then the element that moves the block); 9..14
# straddle it; 20+ are beyond it (with a small rule before them they are again "the largest so far").
LONG_HEADS = [9, 10, 11, 11, 11, 12, 12, 13, 14, 20, 21, 25, 27, 28, 43, 44, 59, 60, 61]
LONG_BODIES = [5, 6, 7, 8, 9, 10, 11, 12]
P_LONG = 0.03      # share of generated rules that are long


def r_long_rule(rnd, small=6):
    """A rule with a LONG head and/or body: head sizes 9..14 and 20+, body sizes 5..12 (or short/empty), normal and weight bodies, choice and
    disjunctive heads.  Atoms stay small when BIG_ATOMS is False (either the caller's small range with repeats, or the consecutive
    atoms 1..n - never beyond ~75)."""
    ht = rnd.choice([0, 1])
    shape = rnd.random()
    nh = rnd.choice(LONG_HEADS) if shape < 0.8 else r_len(rnd, 3)
    nb = rnd.choice(LONG_BODIES) if (shape >= 0.8 or rnd.random() < 0.4) else rnd.choice([0, 1, 1, 2, 3])
    if rnd.random() < 0.5:
        head = list(range(1, nh + 1))                                   # distinct: x1..xn as in `{x1;..;x11} :- 1 {x12=1}.`
        blits = [(nh + 1 + j) * (-1 if rnd.random() < 0.4 else 1) for j in range(nb)]
    else:
        head = [r_atom(rnd, small) for _ in range(nh)]
        blits = [r_lit(rnd, small) for _ in range(nb)]
    if rnd.random() < 0.4:
        return (4, ht, head, blits)
    return (5, ht, head, rnd.choice([0, 1, 1, 2, 5, r_int(rnd)]), [(l, r_weight(rnd, 0)) for l in blits])


def r_rule(rnd, small=6, long=None):
    """`long`: None = a few percent (P_LONG) of the rules are long (r_long_rule); True / False force / forbid it."""
    if long is None:
        long = rnd.random() < P_LONG
    if long:
        return r_long_rule(rnd, small)
    ht = rnd.choice([0, 0, 1])
    head = [r_atom(rnd, small) for _ in range(r_len(rnd, 3))]
    if rnd.random() < 0.6:
        return (4, ht, head, [r_lit(rnd, small) for _ in range(r_len(rnd, 4))])
    body = [(r_lit(rnd, small), r_weight(rnd, 0)) for _ in range(r_len(rnd, 4))]
    return (5, ht, head, r_int(rnd), body)


def r_directive(rnd, small=6, theory=True, kinds=None):
    k = rnd.choice(kinds or [4, 4, 4, 5, 6, 7, 8, 8, 9, 10, 11, 12] + ([13, 14, 15, 16, 17, 18] if theory else []))
    if k in (4, 5):
        return r_rule(rnd, small)
    if k == 6:
        return (6, r_int(rnd), [(r_lit(rnd, small), r_weight(rnd, -1)) for _ in range(r_len(rnd, 4))])
    if k == 7:
        return (7, [r_atom(rnd, small) for _ in range(r_len(rnd, 4))])
    if k == 8:
        return (8, r_string(rnd), [r_lit(rnd, small) for _ in range(r_len(rnd, 3))])
    if k == 9:
        return (9, r_atom(rnd, small), rnd.randint(0, 3))
    if k == 10:
        return (10, [r_lit(rnd, small) for _ in range(r_len(rnd, 4))])
    if k == 11:
        return (11, r_atom(rnd, small), rnd.randint(0, 5), r_int(rnd), rnd.choice([0, 1, 2, INT_MAX, rnd.randint(0, INT_MAX)]),
                [r_lit(rnd, small) for _ in range(r_len(rnd, 3))])
    if k == 12:
        return (12, rnd.choice([0, 1, 2, INT_MAX]), rnd.choice([0, 1, 3, INT_MAX]), [r_lit(rnd, small) for _ in range(r_len(rnd, 3))])
    rid = lambda: rnd.choice([0, 1, 2, 3, 7, ID_MAX, 2 ** 31, rnd.randint(0, ID_MAX)]) if (rnd.random() < 0.3 and BIG_ATOMS) else rnd.randint(0, 5)
    if k == 13:
        return (13, rid(), r_int(rnd))
    if k == 14:
        return (14, rid(), r_string(rnd))
    if k == 15:
        return (15, rid(), rnd.choice([-1, -2, -3, 0, 1, 5, INT_MAX]), [rid() for _ in range(r_len(rnd, 3))])
    if k == 16:
        return (16, rid(), [rid() for _ in range(r_len(rnd, 3))], [r_lit(rnd, small) for _ in range(r_len(rnd, 3))])
    if k == 17:
        return (17, rnd.choice([0, r_atom(rnd, small)]), rid(), [rid() for _ in range(r_len(rnd, 3))])
    return (18, rnd.choice([0, r_atom(rnd, small)]), rid(), [rid() for _ in range(r_len(rnd, 3))], rid(), rid())


def r_program(rnd, steps=None, ndir=None, **kw):
    steps = steps or rnd.choice([1, 1, 1, 2, 3])
    prog = [(1, steps > 1 or rnd.random() < 0.2)]
    for _ in range(steps):
        prog.append((2,))
        n = ndir if ndir is not None else rnd.choice([0, 1, 2, 3, 5, 8])
        # now and then the FIRST directive of a step is a long rule (the per-step rule builder of the readers has held nothing yet), or a
        # long rule directly follows one small rule
        first_long = rnd.random() < 0.03
        if first_long and rnd.random() < 0.3:
            prog.append(r_rule(rnd, kw.get('small', 6), long=False))
        if first_long:
            prog.append(r_long_rule(rnd, kw.get('small', 6)))
        for _ in range(n):
            prog.append(r_directive(rnd, **kw))
        prog.append((3,))
    return prog
