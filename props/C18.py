"""C18 - signals: delivered at once when unblocked, deferred exactly once while blocked.

Case:  nops op...  nans ans...  decision...      (see harness/h_c18.cpp, coq/C18/Model.v)
  op 1 = blockSignals, 2 = unblockSignals(false), 3 = unblockSignals(true), 4 = shutdown(false)
  ans: callback answers in invocation order (1 continue, 0 stop; continue when exhausted)
  decision: one per scheduling point (before every atomic step of the running activation):
            0 = the step executes, s != 0 = signal s arrives (processSignal(s) called synchronously there).
Observation: "k blocked_ pending_" at every scheduling point (k = step that follows), "30 s" arrival,
  "20 s" callback entry, "21 a" callback exit; k = 0 is the idle main flow (last record = final state).

The oracle re-does the ghost accounting of the property on the implementation's trace alone (python, independent of
the Coq model): every arrival is a token; where it is (own activation / slot / deferred activation / fate) is
followed through the observed values of blocked_ and pending_ and the observed callback invocations.
"""
import random

PID = 'C18'
HARNESS = 'h_c18'
MODEL_MODULE = 'V.C18.Model'
READY = True
ALLOWED_AXIOMS = []
RULE = ('cases = (main flow over block/unblock(false)/unblock(true)/shutdown with never more unblocks than blocks in a prefix, '
        'callback answers, schedule = one decision per atomic step: step or arrival of signal s); quick = EXHAUSTIVE enumeration '
        '(depth-first over a python step simulator) of all schedules with <= 3 operations and <= 3 arrivals, and <= 4 operations and '
        '<= 2 arrivals, of signal numbers {1,2} with both callback answers (thorough: <= 5 ops / 3 arrivals, <= 3 ops / 4 arrivals, '
        '3 signal numbers), plus fixed regression shapes and random long schedules; non-trivial = at least one arrival; '
        'distinct = distinct case tuples')
TRUSTED_BASE = ['__sync_fetch_and_add/sub/and are atomic with respect to signal handlers (one atomic step each)',
                'signal handlers nest LIFO on the delivering thread; a synchronous call of processSignal at a yield point is what an '
                'interrupting handler does there (verif hook 2074af4: POTASSCO_VERIF_YIELD between the atomic steps)',
                'props/C18.py oracle (ghost accounting re-done on the implementation trace) and its schedule enumerator']
ASSUMPTIONS = ['main flow well nested (never more unblockSignals than blockSignals/shutdown in a prefix)',
               'onSignal itself does not call block/unblockSignals; its answer is arbitrary data',
               'the Windows alarm thread (a second thread calling processSignal) is outside the model',
               'when arrivals interrupt one another between the test and the write of pending_, the later write wins '
               '(the property text allows "the first" only for non-interrupting arrivals); after a callback answered stop '
               'signals stay blocked for good and a deferred delivery may be re-queued or discarded']

# codes: 1 inc 2 cb-enter 3 cb-exit 4 test 5 write 6 dec | 7 block 8 unblock-dec 9 take 10 clear | 0 idle


# ------------------------------------------------------------------------------------------------
# case encoding
# ------------------------------------------------------------------------------------------------
def enc(ops, answers, decisions):
    d = list(decisions)
    while d and d[-1] == 0:
        d.pop()
    return [len(ops)] + list(ops) + [len(answers)] + list(answers) + d


def decode(c):
    if not c:
        return [], [], []
    n = max(c[0], 0)
    ops = c[1:1 + n]
    r = c[1 + n:]
    m = max(r[0], 0) if r else 0
    ans = r[1:1 + m]
    return list(ops), list(ans), list(r[1 + m:])


OPN = {1: 'Block', 2: 'Unblock(false)', 3: 'Unblock(true)', 4: 'Shutdown'}


def describe(c):
    ops, ans, ds = decode(c)
    arr = ['#%d:sig%d' % (i, d) for i, d in enumerate(ds) if d != 0]
    return 'flow=[%s] answers=%s arrivals(at scheduling point)=[%s] decisions=%s' % (
        ', '.join(OPN.get(o, '?%d' % o) for o in ops), ['continue' if a else 'stop' for a in ans], ', '.join(arr), ds)


# ------------------------------------------------------------------------------------------------
# step simulator used ONLY to enumerate schedules (which scheduling points exist depends on the run)
# state: (blocked, pending, mpc, ops, stack, nans)   stack: tuple of (sig, pc, deferred), top first
# ------------------------------------------------------------------------------------------------
def sim_code(st):
    b, p, mpc, ops, stack = st
    if stack:
        return stack[0][1]
    if mpc:
        return 9
    if not ops:
        return 0
    return 7 if ops[0] in (1, 4) else 8


def sim_step(st, ans):
    """one atomic step (decision 0); ans = answer used if this is a callback exit"""
    b, p, mpc, ops, stack = st
    if stack:
        (s, pc, df), rest = stack[0], stack[1:]
        if pc == 1:
            return (b + 1, p, mpc, ops, ((s, 2 if b == 0 else 4, df),) + rest)
        if pc == 2:
            return (b, p, mpc, ops, ((s, 3, df),) + rest)
        if pc == 3:
            if ans:
                return (b, p, mpc, ops, ((s, 6, df),) + rest)
            return (b, p, mpc, ops, rest)
        if pc == 4:
            return (b, p, mpc, ops, ((s, 5 if p == 0 else 6, df),) + rest)
        if pc == 5:
            return (b, s, mpc, ops, ((s, 6, df),) + rest)
        return (b - 1, p, mpc, ops, rest)
    if mpc:
        dl = mpc == 2
        if p != 0 and dl:
            return (b, 0, 0, ops, ((p, 1, True),))
        return (b, 0, 0, ops, ())
    o = ops[0]
    if o in (1, 4):
        return (b + 1, p, 0, ops[1:], ())
    return (b - 1, p, (2 if o == 3 else 1) if b == 1 else 0, ops[1:], ())


def enumerate_schedules(ops, max_arr, sigs, answers_free=True, limit=None):
    """all (answers, decisions) of complete runs of the flow with at most max_arr arrivals"""
    out = []
    ops = tuple(ops)

    def dfs(st, left, ds, ans):
        if limit is not None and len(out) >= limit:
            return
        k = sim_code(st)
        if left > 0:
            for s in sigs:
                b, p, mpc, o, stack = st
                dfs((b, p, mpc, o, ((s, 1, False),) + stack), left - 1, ds + [s], ans)
        if k == 0:
            out.append((list(ans), list(ds)))
            return
        if k == 3:
            dfs(sim_step(st, True), left, ds + [0], ans + [1])
            if answers_free:
                dfs(sim_step(st, False), left, ds + [0], ans + [0])
        else:
            dfs(sim_step(st, True), left, ds + [0], ans)
    dfs((0, 0, 0, ops, ()), max_arr, [], [])
    return out


def flows(maxlen, alphabet=(1, 2, 3)):
    res = [[]]
    frontier = [([], 0)]
    for _ in range(maxlen):
        nf = []
        for f, d in frontier:
            for o in alphabet:
                if o in (1, 4):
                    nf.append((f + [o], d + 1))
                elif d > 0:
                    nf.append((f + [o], d - 1))
        res += [f for f, _ in nf]
        frontier = nf
    return res


# ------------------------------------------------------------------------------------------------
# oracle: ghost accounting on the implementation's trace
# ------------------------------------------------------------------------------------------------
def parse(obs):
    ev = []
    i = 0
    n = len(obs)
    while i < n:
        k = obs[i]
        if 0 <= k <= 10 and i + 2 <= n - 1:
            ev.append(('R', k, obs[i + 1], obs[i + 2]))
            i += 3
        elif k in (20, 21, 30) and i + 1 <= n - 1:
            ev.append(({20: 'CB', 21: 'CE', 30: 'AR'}[k], obs[i + 1]))
            i += 2
        else:
            return None
    return ev


def account(c, obs):
    """returns (signatures, stats)"""
    ops, _, _ = decode(c)
    ops = [o for o in ops if o in (1, 2, 3, 4)]
    ev = parse(obs)
    sigs = []
    stats = {'arrivals': 0, 'delivered': 0, 'deferred': 0, 'remembered': 0, 'discarded': 0, 'dropped': 0, 'overwritten': 0, 'stops': 0}

    def bad(s):
        if s not in sigs:
            sigs.append(s)
    if ev is None or not ev or ev[-1][0] != 'R' or ev[-1][1] != 0:
        return ['trace-malformed'], stats
    stack = []          # activations, top last: dict(sig,id,deferred,r)
    arrs = []           # signal number per arrival id
    fate = {}           # id -> list of fates
    slot = None         # id of the arrival whose number is in pending_
    read = None         # old code: (value, id) read by the take before the clear
    depth = 0
    stops = 0
    cb_active = 0
    opi = 0
    deliver = False

    def setfate(i, f):
        fate.setdefault(i, []).append(f)
    n = len(ev)
    i = 0
    while i < n:
        e = ev[i]
        if e[0] != 'R':
            return ['trace-malformed'], stats
        _, k, b, p = e
        nxt = ev[i + 1] if i + 1 < n else None
        top = stack[-1] if stack else None
        # which scheduling point must this be?
        exp_k = top['pc'] if top else (9 if read == 'take' else (10 if isinstance(read, tuple) else None))
        if exp_k is not None and k != exp_k:
            bad('unexpected-step:%d-instead-of-%d' % (k, exp_k))
            return sigs, stats
        if nxt is not None and nxt[0] == 'AR':
            stack.append({'sig': nxt[1], 'id': len(arrs), 'deferred': False, 'r': None, 'pc': 1})
            arrs.append(nxt[1])
            stats['arrivals'] += 1
            i += 2
            continue
        if k == 0:
            if i != n - 1:
                bad('trace-malformed')
            break
        # the step k executes; find the next record (skipping the callback event it may print)
        j = i + 1
        cbev = None
        if nxt is not None and nxt[0] in ('CB', 'CE'):
            cbev = nxt
            j = i + 2
        if j >= n or ev[j][0] != 'R':
            return ['trace-malformed'], stats
        _, k2, b2, p2 = ev[j]
        exp_b, exp_p = b, p
        if k in (1, 2, 3, 4, 5, 6) and top is None:
            bad('unexpected-step:%d-without-activation' % k)
            return sigs, stats
        if k == 1:
            top['r'] = b
            exp_b = b + 1
            if b == 0:
                top['pc'] = 2
                if k2 != 2:
                    bad('unblocked-arrival-not-delivered-at-once')
            else:
                top['pc'] = 4
                if k2 == 2:
                    bad('callback-while-blocked')
                    top['pc'] = 2
                if top['deferred'] and stops == 0:
                    bad('deferred-delivery-found-blocked')
        elif k == 2:
            if cbev is None or cbev[0] != 'CB':
                bad('callback-entry-missing')
                return sigs, stats
            if cbev[1] != top['sig']:
                bad('callback-with-wrong-signal-number')
            if depth != 0:
                bad('callback-while-application-holds-a-block')
            if cb_active != 0:
                bad('callback-while-another-callback-is-active')
            if stops != 0:
                bad('callback-after-stop')
            if b != 1:
                bad('callback-with-nesting-count-%d' % b)
            setfate(top['id'], 'delivered')
            stats['delivered'] += 1
            if top['deferred']:
                stats['deferred'] += 1
            cb_active += 1
            top['pc'] = 3
        elif k == 3:
            if cbev is None or cbev[0] != 'CE':
                bad('callback-exit-missing')
                return sigs, stats
            cb_active -= 1
            if cbev[1] == 0:
                stops += 1
                stats['stops'] += 1
                stack.pop()
            else:
                top['pc'] = 6
                if k2 != 6:
                    bad('nesting-count-not-restored')   # returned after a continue without the decrement
                    stack.pop()
        elif k == 4:
            if p == 0:
                top['pc'] = 5
                if k2 != 5:
                    bad('empty-slot-but-signal-not-remembered')
                    top['pc'] = k2
            else:
                top['pc'] = 6
                if k2 == 5:
                    bad('occupied-slot-overwritten')
                    top['pc'] = 5
                else:
                    setfate(top['id'], 'stoplost' if top['deferred'] else 'discarded')
                    stats['discarded'] += 1
        elif k == 5:
            exp_p = top['sig']
            if slot is not None:
                setfate(slot, 'overwritten')   # only possible when arrivals interrupted one another (p was 0 at the test)
                stats['overwritten'] += 1
            slot = top['id']
            stats['remembered'] += 1
            top['pc'] = 6
        elif k == 6:
            exp_b = b - 1
            if top['r'] is not None and b2 != top['r']:
                bad('nesting-count-not-restored')
            stack.pop()
        elif k == 7:
            exp_b = b + 1
            depth += 1
            opi += 1
        elif k == 8:
            exp_b = b - 1
            depth -= 1
            deliver = opi < len(ops) and ops[opi] == 3
            opi += 1
            if depth < 0:
                bad('flow-not-well-nested')
                return sigs, stats
            if k2 == 9:
                read = 'take'
                if depth != 0:
                    bad('take-at-inner-release')
            elif depth == 0 and stops == 0:
                bad('no-take-at-outermost-release')
        elif k == 9:
            if k2 == 10:
                read = (p, slot)      # old code: read now, clear later
            else:
                read = None
                exp_p = 0
                tok, slot = slot, None
                handover(tok, p, deliver, ev, j, stack, setfate, stats, bad)
        elif k == 10:
            exp_p = 0
            val, tok = read
            read = None
            if slot is not None and slot != tok:
                setfate(slot, 'lost')
                bad('lost:queued-signal-cleared-by-unblock')
            slot = None
            handover(tok, val, deliver, ev, j, stack, setfate, stats, bad)
        if b2 != exp_b:
            bad('blocked-changed-unexpectedly')
        if p2 != exp_p:
            bad('pending-changed-unexpectedly')
            if p2 == 0:
                slot = None
        i = j
    # final accounting: exactly one place per arrival
    for a in range(len(arrs)):
        fs = fate.get(a, [])
        places = len(fs) + (1 if slot == a else 0)
        if fs.count('delivered') > 1:
            bad('delivered-twice')
        if places == 0:
            bad('lost:arrival-without-fate')
        elif places > 1:
            bad('arrival-with-two-fates')
    if stack:
        bad('activation-never-finished')
    return sigs, stats


def handover(tok, val, deliver, ev, j, stack, setfate, stats, bad):
    """after the take: the remembered signal goes to the nested processSignal or is dropped"""
    nk = ev[j][1]
    starts = nk == 1 and not stack   # a record k=1 without an arrival event = the nested call
    if tok is not None and val != 0:
        if deliver:
            if starts:
                stack.append({'sig': val, 'id': tok, 'deferred': True, 'r': None, 'pc': 1})
            else:
                bad('remembered-signal-not-delivered-at-release')
        else:
            if starts:
                bad('dropped-signal-delivered')
                stack.append({'sig': val, 'id': tok, 'deferred': True, 'r': None, 'pc': 1})
            else:
                setfate(tok, 'dropped')
                stats['dropped'] += 1
    elif starts:
        bad('delivery-without-remembered-signal')
        stack.append({'sig': val, 'id': -1, 'deferred': True, 'r': None, 'pc': 1})


def oracle(c, obs):
    return account(c, obs)[0]


def nontrivial(c, obs):
    return any(d != 0 for d in decode(c)[2])


# ------------------------------------------------------------------------------------------------
# generation
# ------------------------------------------------------------------------------------------------
FIXED = [
    ([1, 3], [], [0, 0, 0, 1, 0, 0, 2], 'regress-take-vs-nested-arrival'),      # the repaired defect (arrival at the take)
    ([1, 3], [], [0, 0, 1, 0, 0, 2], 'regress-arrival-before-take'),
    ([1, 3], [], [0, 1, 0, 0, 0, 0, 0, 0, 0, 2, 0, 0, 2], 'deferred-then-requeue'),
    ([1, 2], [], [0, 1], 'drop-at-unblock-false'),
    ([1, 1, 3, 3], [], [0, 0, 1, 0, 0, 2], 'nested-blocks'),
    ([1, 3], [0], [0, 1, 0, 0, 0, 0, 0, 2, 0, 0, 0, 0, 0, 0, 0, 0], 'stop-then-deferred-requeued'),
    ([4], [], [0, 1, 2], 'shutdown-blocks-for-good'),
    ([], [0], [1, 0, 0, 0, 2, 1], 'stop-blocks-for-good'),
    ([1], [], [0, 1, 0, 0, 2, 0, 0, 0, 0], 'interrupted-test-write-overwrite'),
]


def random_case(rnd, nops, narr, nsig):
    f = []
    d = 0
    for _ in range(nops):
        o = rnd.choice([1, 1, 2, 3, 3, 4] if rnd.random() < 0.1 else [1, 1, 2, 3, 3])
        if o in (2, 3) and d == 0:
            o = 1
        d += 1 if o in (1, 4) else -1
        f.append(o)
    total = 3 * nops + 6 * narr + 4
    ds = [0] * total
    for _ in range(narr):
        ds[rnd.randrange(total)] = rnd.randint(1, nsig)
    ans = [1 if rnd.random() < 0.85 else 0 for _ in range(rnd.randint(0, narr + 2))]
    return enc(f, ans, ds)


def gen(seed, tier):
    rnd = random.Random(seed * 7919 + 18)
    out = []
    for f, a, d, kind in FIXED:
        out.append((enc(f, a, d), {'kind': kind}))
    if tier == 'quick':
        spec = [(3, 3, (1, 2)), (4, 2, (1, 2))]
        nrand = 3000
    elif tier == 'thorough':
        spec = [(5, 3, (1, 2)), (3, 4, (1, 2)), (3, 3, (1, 2, 3)), (6, 1, (1,))]
        nrand = 200000
    else:
        spec = [(2, 2, (1, 2))]
        nrand = 3000
    seen = set()
    for (maxops, maxarr, sg) in spec:
        for f in flows(maxops):
            for ans, ds in enumerate_schedules(f, maxarr, sg):
                c = enc(f, ans, ds)
                t = tuple(c)
                if t not in seen:
                    seen.add(t)
                    out.append((c, {'kind': 'exhaustive-ops%d-arr%d' % (maxops, maxarr)}))
        for f in ([4], [1, 4], [1, 3, 4], [4, 3]):
            for ans, ds in enumerate_schedules(f, min(maxarr, 2), sg[:2]):
                c = enc(f, ans, ds)
                t = tuple(c)
                if t not in seen:
                    seen.add(t)
                    out.append((c, {'kind': 'exhaustive-shutdown'}))
    for _ in range(nrand):
        out.append((random_case(rnd, rnd.randint(0, 10), rnd.randint(1, 6), rnd.choice([1, 2, 3])), {'kind': 'random-long'}))
    return out


def shrink(case, fails):
    ops, ans, ds = decode(case)
    changed = True
    while changed:
        changed = False
        for i in range(len(ds) - 1, -1, -1):
            if ds[i] != 0:
                t = ds[:i] + [0] + ds[i + 1:]
                if fails(enc(ops, ans, t)):
                    ds = t
                    changed = True
        for i in range(len(ds) - 1, -1, -1):
            t = ds[:i] + ds[i + 1:]
            if fails(enc(ops, ans, t)):
                ds = t
                changed = True
        for i in range(len(ops) - 1, -1, -1):
            t = ops[:i] + ops[i + 1:]
            if fails(enc(t, ans, ds)):
                ops = t
                changed = True
        if ans and fails(enc(ops, ans[:-1], ds)):
            ans = ans[:-1]
            changed = True
    return enc(ops, ans, ds)


def mutate(case, rnd):
    ops, ans, ds = decode(case)
    res = []
    for _ in range(8):
        d = list(ds) + [0] * 4
        d[rnd.randrange(len(d))] = rnd.randint(0, 2)
        res.append(enc(ops, ans, d))
    return res


LEVEL_TEXT = ('Machine-checked invariant proofs (Coq) over a small-step transition system whose transitions are the individual atomic '
              'steps of Application::processSignal / blockSignals / unblockSignals (fetch_and_inc, test, read/write of pending_, callback '
              'entry/exit, fetch_and_dec, fetch_and_clear) with a stack of nested handler activations: for every well nested main flow, '
              'every callback answer list and every schedule of arrivals - no callback while the application holds a block or another '
              'callback runs; an arrival that finds blocked_=0 is delivered in its own activation; one slot; every arrival is in exactly '
              'one place (token conservation: never lost, never twice; the remembered one goes to the nested processSignal or is dropped at '
              'the take of the next outermost release); the nesting count is restored. The model is tied to the code by differential '
              'correspondence of the full step trace (extracted model vs. sanitizer build of the real class driven through the yield hook), '
              'exhaustively for all schedules with <= 3 operations and <= 2 arrivals, and an independent trace oracle.')
LEVEL_NOTE = ('Trusted: Coq kernel/vm_compute, extraction+driver (sample cross-checked by vm_compute), harness + yield hook, python oracle; '
              'atomicity of the __sync builtins and LIFO nesting of handlers on one thread are modelling assumptions; the Windows alarm '
              'thread is outside the model. The defect found (read-then-clear of pending_ in unblockSignals loses a signal) was repaired '
              '(55f6ce1); the pre-repair model is kept and refuted by c18_lost_refuted_before_repair.')
TECHNIQUE = 'Coq invariant proofs over a small-step interleaving model + differential correspondence of step traces with the implementation'
DESIGN_REF = 'DESIGN.md section 5, C18'

EXHAUSTIVE = {'quick': True, 'thorough': True}
EXHAUSTIVE_SPACE = ('quick: every schedule (arrival decisions at every atomic step, both callback answers) of every well-nested main flow with <= 3 operations and '
                    '<= 2 arrivals of 2 signal numbers is enumerated; thorough: <= 5 ops/3 arrivals and <= 3 ops/4 arrivals, 3 signal numbers, plus random long schedules. '
                    'The unbounded claim is carried by the theorems, not by this enumeration.')
